#!/venv/bin/python
"""Evaluate a seeded change:  seedtest.py <dir with patch.diff [demo.py]> <PID> [<PID> ...]
Applies the patch to a scratch worktree of /repo's HEAD (never to /repo itself while builders work there),
confirms the repository's own tests still pass and the demonstration fails with / passes without the patch,
runs the named checks against the patched copy (VERIF_REPO) and reports which ones raise a VIOLATION."""
import json
import os
import re
import shutil
import subprocess
import sys

VERIF = os.path.dirname(os.path.dirname(os.path.abspath(__file__)))


def sh(cmd, **kw):
    return subprocess.run(cmd, shell=True, stdout=subprocess.PIPE, stderr=subprocess.STDOUT, text=True, **kw)


def main():
    d = os.path.abspath(sys.argv[1])
    pids = sys.argv[2:]
    tier = os.environ.get('SEED_TIER', 'quick')
    wt = f'/tmp/seedtest_{os.getpid()}'
    sh(f'git -C /repo worktree add -q --detach {wt} HEAD')
    res = {'dir': d, 'checks': {}}
    try:
        env = dict(os.environ, PYTHONPATH=wt, PYTHONHASHSEED='0', PYTHONDONTWRITEBYTECODE='1')
        demo = os.path.join(d, 'demo.py')
        if os.path.exists(demo):
            p = sh(f'cd {wt} && /venv/bin/python {demo}', env=env)
            res['demo_without_patch_rc'] = p.returncode
        a = sh(f'git -C {wt} apply --whitespace=nowarn {d}/patch.diff')
        res['patch_applies'] = a.returncode == 0
        if a.returncode != 0:
            res['apply_error'] = a.stdout[-500:]
            print(json.dumps(res, indent=1))
            return 2
        if os.path.exists(demo):
            p = sh(f'cd {wt} && /venv/bin/python {demo}', env=env)
            res['demo_with_patch_rc'] = p.returncode
            res['demo_output'] = p.stdout[-600:]
        if os.environ.get('SEED_SKIP_TESTS') != '1':
            p = sh(f'cd {wt} && /venv/bin/python -m pytest -q -x -p no:cacheprovider beanquery --deselect beanquery/query_render_test.py 2>&1 | tail -3', env=env)
            res['repo_tests'] = p.stdout.strip().splitlines()[-1] if p.stdout.strip() else ''
        for pid in pids:
            p = sh(f'cd {VERIF} && VERIF_REPO={wt} ./check {pid} {tier}', env=dict(os.environ, VERIF_REPO=wt, VERIF_EVIDENCE_DIR=f'{wt}_ev', VERIF_REPLAY_DIR=f'{wt}_rp'))
            viol = re.findall(r'^VIOLATION .*$', p.stdout, re.M)
            res['checks'][pid] = {'rc': p.returncode, 'violations': viol[:3],
                                  'detail': [l for l in p.stdout.splitlines() if l.startswith('  ')][:2]}
            # keep the replay of the first violation next to the seed
            m = re.search(r'replay=(\S+)', viol[0]) if viol else None
            if m and os.path.exists(m.group(1)):
                shutil.copy(m.group(1), os.path.join(d, f'caught_by_{pid}.json'))
    finally:
        sh(f'git -C /repo worktree remove --force {wt}')
        shutil.rmtree(f'{wt}_ev', ignore_errors=True)
        shutil.rmtree(f'{wt}_rp', ignore_errors=True)
    print(json.dumps(res, indent=1))
    return 0


if __name__ == '__main__':
    sys.exit(main())
