#!/venv/bin/python
"""Entry point of every check:  run.py <PID> quick|thorough   |   run.py <PID> --replay <file>"""
import importlib
import json
import os
import random
import sys
import time
import traceback

os.environ.setdefault('PYTHONHASHSEED', '0')
HERE = os.path.dirname(os.path.abspath(__file__))
sys.path.insert(0, HERE)
REPO = os.environ.get('VERIF_REPO', '/repo')
sys.path.insert(0, REPO)

from vf import core  # noqa: E402


def main():
    pid = sys.argv[1]
    mod = importlib.import_module(f'vf.{pid.lower()}')
    if len(sys.argv) > 3 and sys.argv[2] == '--replay':
        with open(sys.argv[3]) as f:
            rec = json.load(f)
        ok = mod.replay(rec['replay'])
        print('replay:', 'property holds on this input' if ok else 'FAILS (violation reproduced)')
        return 0 if ok else 1
    tier = sys.argv[2] if len(sys.argv) > 2 else os.environ.get('VERIF_TIER', 'quick')
    seed = int(os.environ.get('VERIF_SEED', '0'))
    t0 = time.time()
    violations = []
    coverage = {}
    assumptions = list(getattr(mod, 'ASSUMPTIONS', []))

    # 1. regenerate introspected Coq data this property depends on, then build.
    gen_info = {}
    if hasattr(mod, 'generate'):
        try:
            gen_info = mod.generate() or {}
        except Exception as e:  # translator failed: the tie is broken
            violations.append(core.Violation('translator-failed', f'generator raised {e!r}',
                                             {'traceback': traceback.format_exc()},
                                             signature='translator-failed', found_input=False))
    core.log(f'[{pid}] building Coq development ...')
    tb = time.time()
    b = core.build_coq(targets=[f'Properties/{pid}.vo'] + list(getattr(mod, 'EXTRA_TARGETS', [])))
    core.log(f'[{pid}] build {time.time()-tb:.1f}s (incl. waiting for the build lock)')
    vo = os.path.join(core.COQ, 'Properties', f'{pid}.vo')
    src = os.path.join(core.COQ, 'Properties', f'{pid}.v')
    proofs_ok = b.ok or (os.path.exists(vo) and os.path.exists(src)
                         and not _depends_on_failed(pid, b, list(getattr(mod, 'EXTRA_TARGETS', []))))
    theorems = []
    if proofs_ok:
        tb = time.time()
        ok, theorems, tlog = core.theorem_report(pid)
        core.log(f'[{pid}] theorem re-check {time.time()-tb:.1f}s')
        if not ok:
            proofs_ok = False
            b.log += '\n' + tlog
    bad = core.audit_sources(_closure_sources(pid)) if pid != 'ALL' else core.audit_sources()
    if bad:
        violations.append(core.Violation('audit', 'forbidden declaration in the Coq development: ' + '; '.join(bad),
                                         {'found': bad}, signature='audit', found_input=False))
    broken = None
    if not proofs_ok:
        broken = {'failed_file': b.failed, 'log_tail': b.log[-3000:]}
        core.log(f'[{pid}] PROOF OBLIGATION BROKEN: {b.failed}\n{b.log[-1500:]}')

    # 2. correspondence / checkers against the implementation.
    rng = random.Random(seed)
    try:
        res = mod.run(tier, rng)
        coverage.update(res.get('coverage', {}))
        violations.extend(res.get('violations', []))
    except Exception as e:
        core.log(traceback.format_exc())
        violations.append(core.Violation('harness-error', f'correspondence run raised {e!r}',
                                         {'traceback': traceback.format_exc(), 'proof_broken': broken},
                                         signature='harness-error', found_input=False))
    # a failing input that is a LISTED known finding does not explain a broken obligation (bld-sub: it used to mask it)
    known_sigs = {r['signature'] for r in core.load_known(pid)}
    if broken is not None and not any(v.found_input and v.signature not in known_sigs for v in violations):
        violations.append(core.Violation(
            'proof-broken',
            f'theorem/obligation no longer checks: {broken["failed_file"]}; search found no failing input',
            {'no_longer_checks': broken, 'rerun': f'cd /verif/coq && make Properties/{pid}.vo'},
            signature='proof-broken', found_input=False))
    coverage.update(gen_info)
    if tier == 'thorough' and proofs_ok and os.environ.get('VERIF_SKIP_COQCHK') != '1':
        # independent re-check of the compiled proofs and everything they depend on
        import subprocess
        tb = time.time()
        try:
            p = subprocess.run(['timeout', '3000', 'coqchk', '-silent', '-o', '-Q', core.COQ, 'Verif', f'Verif.Properties.{pid}'],
                               stdout=subprocess.PIPE, stderr=subprocess.STDOUT, text=True)
            summ = p.stdout[p.stdout.find('CONTEXT SUMMARY'):] if 'CONTEXT SUMMARY' in p.stdout else p.stdout[-1500:]
            coverage['coqchk'] = {'rc': p.returncode, 'seconds': round(time.time() - tb, 1),
                                  'summary': ' '.join(summ.split())[:1500]}
            if p.returncode != 0:
                violations.append(core.Violation('coqchk', 'coqchk rejected the compiled development: ' + p.stdout[-400:],
                                                 {'output_tail': p.stdout[-3000:]}, signature='coqchk', found_input=False))
        except Exception as e:  # noqa: BLE001
            coverage['coqchk'] = {'error': repr(e)}
    rc = core.finish(pid, tier, seed, t0, coverage, violations, assumptions, theorems=theorems,
                     build_ok=proofs_ok)
    core.log(f'[{pid}] {tier} done in {time.time()-t0:.1f}s rc={rc} '
             f'theorems={len(theorems)} evaluations={coverage.get("evaluations")}')
    return rc


def _closure(pid):
    dep = os.path.join(core.COQ, '.Makefile.d')
    with open(dep) as f:
        txt = f.read().replace('\\\n', ' ')
    deps = {}
    for line in txt.splitlines():
        if ':' not in line:
            continue
        lhs, rhs = line.split(':', 1)
        for t in lhs.split():
            if t.endswith('.vo'):
                deps.setdefault(t, set()).update(x for x in rhs.split() if x.endswith('.vo') or x.endswith('.v'))
    seen, todo = set(), [f'Properties/{pid}.vo']
    while todo:
        t = todo.pop()
        if t in seen:
            continue
        seen.add(t)
        todo.extend(deps.get(t, ()))
    return seen


def _closure_sources(pid):
    """The .v files of the development that Properties/<pid>.v depends on (incl. itself)."""
    try:
        seen = _closure(pid)
    except OSError:
        return None
    out = []
    for t in sorted(seen):
        if t.endswith('.vo') and not t.startswith('/') and os.path.exists(os.path.join(core.COQ, t[:-1])):
            out.append(t[:-1])
    return out or None


def _depends_on_failed(pid, b, extra=()):
    """After `make -k`: is Properties/<pid>.vo, one of the check's extra obligations (EXTRA_TARGETS, e.g. the registry
    tie) or anything they depend on missing or stale?"""
    dep = os.path.join(core.COQ, '.Makefile.d')
    try:
        with open(dep) as f:
            txt = f.read().replace('\\\n', ' ')
    except OSError:
        return True
    deps = {}
    for line in txt.splitlines():
        if ':' not in line:
            continue
        lhs, rhs = line.split(':', 1)
        for t in lhs.split():
            if t.endswith('.vo'):
                deps.setdefault(t, set()).update(x for x in rhs.split() if x.endswith('.vo') or x.endswith('.v'))
    seen, todo = set(), [f'Properties/{pid}.vo'] + list(extra)
    while todo:
        t = todo.pop()
        if t in seen:
            continue
        seen.add(t)
        todo.extend(deps.get(t, ()))
    for t in seen:
        if t.endswith('.vo') and not t.startswith('/'):
            vo = os.path.join(core.COQ, t)
            v = vo[:-1]
            if not os.path.exists(v):
                continue  # stdlib / other library
            if not os.path.exists(vo) or os.path.getmtime(vo) < os.path.getmtime(v):
                b.failed = b.failed or t[:-1]
                return True
            # stale with respect to what it was compiled against (make -k left the old .vo in place)
            for d in deps.get(t, ()):
                dp = os.path.join(core.COQ, d)
                if not d.startswith('/') and os.path.exists(dp) and os.path.getmtime(dp) > os.path.getmtime(vo) + 1e-6:
                    b.failed = b.failed or t[:-1]
                    return True
    return False


if __name__ == '__main__':
    sys.exit(main())
