#!/usr/bin/env python3
"""Writes seeded/<id>/meta.json from the seedtest results and prints the DESIGN table."""
import glob
import json
import os
import re

HERE = os.path.dirname(os.path.dirname(os.path.abspath(__file__)))
FIRST_MISSED = {
    'C01-m2': 'missed by the first C01 check (no untyped columns in the generator); caught after object-typed columns with the implicit decimal/date casts were added (shadow columns in the model rows)',
    'C06-m2': 'missed by the first C06 check (every text was parsed once per rendering); caught after the stream of consecutive parses of texts differing only in literal letter case was added',
    'C07-m1': 'missed by the first C07 check (each statement text parsed and executed once); caught after the parsed-wildcard-statement re-execution stream was added',
    'C08-m1': 'missed by the first C08 check (outer ORDER BY/GROUP BY never used a bare hidden subquery column); caught after the same-typed-columns stream was added',
    'C08-m2': 'missed by the first C08 check (IN subqueries one level deep); caught after the nested IN over three tables stream was added',
    'C09-m1': 'missed by the first C09 check (placeholders never in both targets and FROM); caught after the binding-order stream was added',
    'C09-m2': 'missed by the first C09 check (histories used fresh cursors); caught after same-cursor histories with ==-equal parameters of different type were added',
    'C10-m2': 'missed by the first C10 check (cursors came from conn.cursor()); caught after histories over two live conn.execute() results were added',
    'C02-m4': 'missed by the C02 check of round 1 (a GROUP BY key was never named twice); caught after duplicate GROUP BY references were added to the generator',
    'C03-m4': 'missed by the C03 check of round 1 (aggregate variant always selected its grouping key); caught after the hidden-key aggregate + DISTINCT variant was added (the C02 check catches it too)',
    'C07-m4': 'missed by the C07 check of round 1 (no attribute / subscript / placeholder targets); caught after the structured-and-placeholder naming stream on a Beancount connection was added',
    'C08-m4': 'missed by the C08 check of round 1 (no outer ORDER BY with ties over an ordered subquery); caught after the inner-order-kept stream was added',
    'C09-m4': 'missed by the C09 check of round 1 (histories only on user tables); caught after histories of OPEN/CLOSE/CLEAR, BALANCES, JOURNAL statements on one Beancount connection vs fresh connections were added',
    'C11-m4': 'missed by the C11 check of round 1 (tables read once per connection); caught after sessions of qualified statements followed by re-reading every column were added',
    'C12-m3': 'missed by the C12 check of round 1; caught after aggregates over Inventory columns of subquery/user tables, repeated execution and the input-mutated aliasing check were added',
    'C12-m4': 'missed by the C12 check of round 1; caught after several aggregates over different same-typed subquery columns in one query were added',
    'C13-m4': 'missed by the C13 check of round 1 (single-level statements); caught after nested IN / NOT IN subqueries with their own FROM qualifiers were added',
    'C17-m4': 'a shell defect (stale numberify formatter across .reload): missed by the C17 and C19 checks of round 1; caught by the C19 check after sessions that rewrite the ledger file and .reload were added (the C17 check exercises numberify_results and run_query, not the shell)',
    'C20-m3': 'missed by the C20 check of round 1 (driven runs executed pre-parsed statements; module scan skipped instances of foreign classes); caught after module-level instances were added to the shared-state inventory and a text-statement stress was added',
    'C20-m4': 'missed by the C20 check of round 1 (ledger data not fingerprinted); caught after the ledger fingerprint and the any_meta-vs-meta driven scenarios were added',
    'C04-m6': 'missed by the C04 check of round 2 (sweeps tolerated non-TypeError exceptions; no amount-valued metadata under operators); caught after the oracle was tightened to "no exception escapes an accepted query" and object-valued sources of every metadata kind were swept',
    'C05-m5': 'missed by the C05 check of round 2 (model rejects it, but no stream generated aggregate-only targets + uncovered ORDER BY); caught after the uncovered-order families were added',
    'C06-m5': 'missed by the C06 check of round 2 (no literal longer than 21 digits); caught after 29-40 digit literals were added',
    'C08-m5': 'missed by the C08 check of round 2; caught after the look-alike IN-subqueries stream (equal ASTs, different parameters / enclosing tables) was added',
    'C09-m5': 'missed by the C09 check of round 2 (the fresh-connection oracle ran in the same process as the history, so a process-wide cache polluted both); caught after the oracle was moved to fresh processes and regex-function statements were added',
    'C09-m6': 'missed by the C09 check of round 2; caught after ORDER BY expressions spelled exactly like a target but bound to another parameter were added',
    'C12-m5': 'missed by the C12 check of round 2 (no GROUP BY ... LIMIT without ORDER BY); caught after the grouplimit family was added (the C02 check catches the same idea)',
    'C13-m5': 'a shell defect: missed by the C13 check of round 2 (its shell oracle typed statements into the same shell instance), caught by the C19 check; the C13 check catches it after shell sessions with a fresh-connection oracle were added',
    'C14-m6': 'missed by the C14 check of round 2 (no placeholders in BALANCES/JOURNAL); caught after parameterised BALANCES/JOURNAL vs SELECT and the clause-identity check were added (the C09 check catches it too)',
    'C15-m6': 'missed by the C15 check of round 2; caught after mixed name/position references to the same column were added to the invalid-reference stream',
    'C15-m3': 'missed by the C15 check of round 1 (no ORDER BY in pivot queries); caught after ORDER BY clauses before PIVOT BY were added to the generator',
    'C15-m2': 'missed by the first C15 check (only valid PIVOT BY references generated); caught after the invalid-reference stream was added (the C05 check also rejects it)',
}
def round_of(sid):
    k = int(sid.split('-m')[1])
    return (k + 1) // 2


rows = []
for d in sorted(glob.glob(os.path.join(HERE, 'seeded', 'C*-m*')), key=lambda p: (os.path.basename(p).split('-')[0], int(os.path.basename(p).split('-m')[1]))):
    sid = os.path.basename(d)
    pid = sid.split('-')[0]
    rnd = round_of(sid)
    notes = open(os.path.join(d, 'notes.md')).read() if os.path.exists(os.path.join(d, 'notes.md')) else ''
    files = sorted(set(re.findall(r'^\+\+\+ b/(\S+)', open(os.path.join(d, 'patch.diff')).read(), re.M)))
    res, first_pass = {}, None
    for f in glob.glob(os.path.join(d, 'result_*.json')):
        key = os.path.basename(f)[7:-5]
        try:
            r = json.load(open(f))
        except Exception:
            continue
        if key.startswith('round'):
            first_pass = r          # the run against the checks as they stood when the seed arrived
        else:
            res[key] = r            # final confirmation run(s), one per property check
    if not res and first_pass is not None:
        res = {p: first_pass for p in first_pass.get('checks', {})}
    caught = {p: bool(r['checks'].get(p, {}).get('violations')) for p, r in res.items()}
    first = next(iter(res.values()), {}) if res else (first_pass or {})
    det = ''
    for p, r in res.items():
        c = r['checks'].get(p, {})
        if c.get('detail'):
            det = c['detail'][0].strip()[:300]
    head = [l.strip('# ').strip() for l in notes.splitlines() if l.strip()][:1]
    sfile = os.path.join(d, 'summary.txt')
    if os.path.exists(sfile):      # the lead's one-line description (rounds >= 8: the sub-agents' notes start with a generic title)
        head = [sid.replace('-', ' / ', 1) + ' - ' + open(sfile).read().strip()]
    hist_file = os.path.join(d, 'history.txt')
    missed_first = None
    if first_pass is not None:
        missed_first = not any(c.get('violations') for c in first_pass.get('checks', {}).values())
    if sid in FIRST_MISSED:
        history = FIRST_MISSED[sid]
    elif os.path.exists(hist_file):
        history = open(hist_file).read().strip()
    elif rnd >= 4:
        history = ('missed by the checks as they stood after round %d; see DESIGN 10.4' % (rnd - 1)) if missed_first \
            else 'caught by the checks as they stood after round %d' % (rnd - 1)
    else:
        history = 'caught by the check as first built'
    strengthened = sid in FIRST_MISSED or bool(missed_first)
    meta = {
        'seed': sid, 'round': rnd, 'breaks_property': pid, 'files_changed': files,
        'summary': head[0] if head else '',
        'needs_to_manifest': 'see notes.md (written by the independent sub-agent that produced the change)',
        'confirmed': {
            'patch_applies_to_repo_head': first.get('patch_applies'),
            'demo_exit_without_patch': first.get('demo_without_patch_rc'),
            'demo_exit_with_patch': first.get('demo_with_patch_rc'),
            'repo_tests_with_patch': first.get('repo_tests') or (first_pass or {}).get('repo_tests'),
            'how': 'harness/seedtest.py: scratch worktree of /repo HEAD, demo.py before/after git apply, repository test-suite '
                   '(query_render_test deselected: its 14 failures are pre-existing), then ./check <property> quick with VERIF_REPO=<worktree>',
        },
        'checks_run': {p: ('VIOLATION reported' if c else 'not detected') for p, c in caught.items()},
        'first_violation_line': det,
        'history': history,
    }
    with open(os.path.join(d, 'meta.json'), 'w') as f:
        json.dump(meta, f, indent=1)
    rows.append((sid, ', '.join(files), head[0][:90] if head else '', ', '.join(f'{p}: {"caught" if c else "MISSED"}' for p, c in caught.items()) + (' (after strengthening)' if strengthened else '')))
for r in rows:
    print('| ' + ' | '.join(r) + ' |')
