#!/bin/bash
# retest.sh Cxx mNN [check ids...] : seedtest again with the CURRENT /verif harness python files (coq from snapshot)
P=$1; N=$2; shift 2; CH=${@:-$P}
D=/verif/seeded/$P-$N
S=/tmp/vr_$P$N
rm -rf $S; cp -a ${VSNAP:-/tmp/vsnap} $S; cp /verif/harness/vf/*.py $S/harness/vf/; cp /verif/known-findings.txt $S/
cd $S && SEED_SKIP_TESTS=1 /venv/bin/python harness/seedtest.py $D $CH > $D/result_$P.json 2>&1
rm -rf $S
echo "== retest $P-$N"; grep -E '"rc"|VIOLATION' $D/result_$P.json | head -8
