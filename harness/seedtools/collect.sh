#!/bin/bash
# collect.sh Cxx [mNN] -> /verif/seeded/Cxx-mNN from the agent's worktree, then seedtest from a private copy of the snapshot
P=$1; N=${2:-m16}
D=/verif/seeded/$P-$N
mkdir -p $D
git -C ${SEEDDIR:-/tmp/seedN}/wt_$P diff -- beanquery > $D/patch.diff
cp ${SEEDDIR:-/tmp/seedN}/wt_$P/demo.py $D/demo.py
cp ${SEEDDIR:-/tmp/seedN}/wt_$P/notes.md $D/notes.md 2>/dev/null
S=/tmp/vs_$P
rm -rf $S; cp -a ${VSNAP:-/tmp/vsnap} $S
cd $S && /venv/bin/python harness/seedtest.py $D $P > $D/result_round8_first_pass.json 2>&1
rm -rf $S
echo "== $P"; grep -E '"rc"|demo_with|demo_without|repo_tests|VIOLATION' $D/result_round8_first_pass.json | head -8
