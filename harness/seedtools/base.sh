#!/bin/bash
# base.sh Cxx : ./check Cxx quick on the unchanged /repo with the CURRENT /verif harness python files (coq from snapshot)
P=$1
S=/tmp/vb_$P
rm -rf $S; cp -a ${VSNAP:-/tmp/vsnap} $S; cp /verif/harness/vf/*.py $S/harness/vf/; cp /verif/known-findings.txt $S/
cd $S && VERIF_EVIDENCE_DIR=$S/ev VERIF_REPLAY_DIR=$S/rp ./check $P quick > ${SEEDDIR:-/tmp/seedN}/base_$P.log 2>&1
echo "== base $P rc=$?"; grep -E 'VIOLATION|KNOWN-FINDING|done in' ${SEEDDIR:-/tmp/seedN}/base_$P.log | head
[ -z "$KEEP" ] && rm -rf $S
