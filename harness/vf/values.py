"""Python values <-> Gallina [value] literals and the parsed [o_value] form."""
import datetime
import decimal

from .core import cZ, clist, cbool

D = decimal.Decimal


def to_coq(v):
    if v is None:
        return 'VNull'
    if isinstance(v, bool):
        return f'(VBool {cbool(v)})'
    if isinstance(v, int):
        return f'(VInt {cZ(v)})'
    if isinstance(v, D):
        s, digits, e = v.as_tuple()
        assert isinstance(e, int), v
        coef = int(''.join(map(str, digits))) if digits else 0
        return f'(VDec (mkdec {cbool(bool(s))} {coef} {cZ(e)}))'
    if isinstance(v, str):
        return '(VStr ' + clist([str(ord(c)) for c in v]) + ')'
    if isinstance(v, datetime.date):
        return f'(VDate {v.toordinal()})'
    raise TypeError(repr(v))


def canon(v):
    """Implementation value -> the list form produced by parsing o_value output."""
    if v is None:
        return [0]
    if isinstance(v, bool):
        return [1, int(v)]
    if isinstance(v, int):
        return [2, v]
    if isinstance(v, D):
        s, digits, e = v.as_tuple()
        if not isinstance(e, int):
            return ['special-decimal', str(v)]
        return [3, [int(bool(s)), int(''.join(map(str, digits))) if digits else 0, e]]
    if isinstance(v, str):
        return [4, [ord(c) for c in v]]
    if isinstance(v, datetime.date):
        return [5, v.toordinal()]
    return ['other', type(v).__name__, repr(v)]


def row_to_coq(r):
    return clist([to_coq(v) for v in r])


def rows_to_coq(rows):
    return clist([row_to_coq(r) for r in rows])


def canon_rows(rows):
    return [[canon(v) for v in r] for r in rows]


def lit(v):
    """BQL literal text for a value."""
    if v is None:
        return 'NULL'
    if isinstance(v, bool):
        return 'TRUE' if v else 'FALSE'
    if isinstance(v, int):
        return str(v) if v >= 0 else f'(-{-v})'
    if isinstance(v, D):
        s = format(v, 'f')
        if '.' not in s:
            s += '.'
        return s if v >= 0 and not v.is_signed() else f'(-{s[1:]})'
    if isinstance(v, str):
        assert "'" not in v
        return f"'{v}'"
    if isinstance(v, datetime.date):
        return v.isoformat()
    raise TypeError(repr(v))


# value pools per type (small domains with ties, zero, negatives)
POOLS = {
    int: [0, 1, 2, 3, -1, -2, 7, 10],
    D: [D('0'), D('1'), D('1.0'), D('1.50'), D('-1.5'), D('2'), D('0.25'), D('-0.0'), D('10'), D('3.333')],
    str: ['', 'a', 'b', 'ab', 'A', 'ba', 'Assets:Cash', 'z'],
    datetime.date: [datetime.date(2020, 1, 1), datetime.date(2020, 1, 2), datetime.date(2019, 12, 31),
                    datetime.date(2020, 2, 29), datetime.date(2021, 3, 1)],
    bool: [True, False],
}
TYPE_NAMES = {int: 'int', D: 'decimal', str: 'str', datetime.date: 'date', bool: 'bool', object: 'object'}


def gen_value(rng, t, null_p=0.25):
    if rng.random() < null_p:
        return None
    return rng.choice(POOLS[t])


def gen_table(rng, ncols=None, nrows=None, types=(int, D, str, datetime.date, bool), null_p=None):
    ncols = ncols or rng.randint(1, 5)
    nrows = rng.randint(0, 9) if nrows is None else nrows
    null_p = rng.choice([0.0, 0.15, 0.3, 0.5]) if null_p is None else null_p
    names = ['a', 'b', 'c', 'd', 'e', 'f'][:ncols]
    cols = [(n, rng.choice(types)) for n in names]
    rows = [tuple(gen_value(rng, t, null_p) for _, t in cols) for _ in range(nrows)]
    return cols, rows
