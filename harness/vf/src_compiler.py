"""Translator-based tie of the decision cores of the compiler (bld-compiler): groups `lookup` (types.py) and `compiler`
(compiler.py), see harness/PYMINI.md.

Translated on every run from the source of the IMPORTED objects (inspect.getsource + ast):

* group `lookup`   -> coq/Gen/SrcLookup.v:   types.function_lookup, types._bases;
* group `compiler` -> coq/Gen/SrcCompiler.v: Compiler._compile_order_by, Compiler._compile_group_by,
  Compiler._compile_pivot_by, compiler.is_aggregate, get_columns_and_aggregates, _get_columns_and_aggregates,
  check_aggregates (whole functions), and the overload selection of Compiler._unaryop / _binaryop / _function when it is
  inside the fragment (reported, not required).

CompilerTranslator extends src_api.ApiTranslator (rules R1-R9; its later rules R14 `iter` and R15 `contains` are NOT
applied: the compiler iterates over and tests membership in lists only, which the base fragment covers) by rules that map a Python construct to a PyMini term
built from the EXISTING constructors; what the primitives mean is fixed in coq/Model/PrimsCompiler.v (trusted,
documented there):

K1 assert t, msg                -> if not t: raise AssertionError          (R1's "raise" primitive)
K2 <e>.__intypes__ == x          -> XPrim "sig_eq" [<e>.__intypes__; x]    (list equality whose element equality is
                                   AnyType.__eq__ for types.Any, identity of types otherwise)
   a == [...] / a != [...]       -> XPrim "list_eq" [a; [...]]              (== between lists, negated for !=)
K3 itertools.product(*e)         -> XPrim "itertools.product:*" [e]
K4 x is C / x is not C (C a datatype: a class, types.Any, types.Asterisk) -> XPrim "is:<name>" [x]   (see K10)
K5 issubclass(x, C)              -> XPrim "issubclass:<qualified name of C>" [x]
K6 [e for a, b in it if c]       -> as R3 (the pattern variables are projections of a fresh variable)
K7 in a loop body:  `if c: A; continue` followed by the statements B  ->  if c: A else: B
K8 accumulator passing: a module-level function F that mutates list PARAMETERS in place (p.append(..), or hands p to F
   itself in a mutated position) and returns nothing is translated as returning the tuple of its mutated parameters;
   an expression statement `F(a, p, q)` whose mutated positions are local names becomes `p, q = F(a, p, q)`.
   (PyMini lists are values: this is the functional reading of the in-place accumulation; it is exact because the
   caller's lists are reachable only through those names while F runs.)
K10 a class (or types.Any / types.Asterisk) in VALUE position (not called, not the class operand of isinstance /
   issubclass / raise) -> XPrim "type:<name>" [] and, under K4, `x is C` -> XPrim "is:<name>" [x], <name> being the
   name the registry snapshot gives the datatype (gen_registry.tname: object, NoneType, Decimal, date, ...)
K11 raise E(msg, node)           -> as R1 on the message (the second argument only carries the source position)
K9 D.get(k) on a module-level dict D of a static module (types.MAP) -> XPrim "static_get:<qualified name>" [k]

Everything fails closed with py2mini.Untranslatable."""
import ast
import inspect
import textwrap

from . import py2mini
from .py2mini import Untranslatable, glist, gstr
from .src_api import ApiTranslator, qualname

PRIMS = ('builtins.all', 'builtins.any', 'builtins.enumerate', 'builtins.sum', 'builtins.list', 'builtins.bool',
         'builtins.type', 'beanquery.query_compile.EvalTarget')


def is_typeval(obj):
    """a value of a BQL datatype: a class, types.Any or types.Asterisk"""
    from beanquery import types
    return isinstance(obj, type) or obj is types.Any or obj is types.Asterisk


def type_name(obj):
    """the name the registry snapshot (gen_registry.tname) gives a datatype"""
    from .gen_registry import tname
    return tname(obj)


def accumulator_params(func):
    """K8: positions of the list parameters a module-level function mutates in place (None when it does not qualify)"""
    try:
        fd = ast.parse(textwrap.dedent(inspect.getsource(func))).body[0]
    except (OSError, TypeError):
        return None
    if not isinstance(fd, ast.FunctionDef):
        return None
    params = [a.arg for a in fd.args.args]
    if any(isinstance(n, (ast.Return, ast.Yield, ast.YieldFrom)) for n in ast.walk(fd)):
        return None
    mutated = set()
    for n in ast.walk(fd):
        if isinstance(n, ast.Call) and isinstance(n.func, ast.Attribute) and n.func.attr in py2mini.MUTATORS \
                and isinstance(n.func.value, ast.Name) and n.func.value.id in params:
            mutated.add(n.func.value.id)
    # a parameter stored to is no longer the caller's list
    for n in ast.walk(fd):
        if isinstance(n, ast.Name) and isinstance(n.ctx, ast.Store) and n.id in mutated:
            return None
    if not mutated:
        return None
    return [i for i, p in enumerate(params) if p in mutated]


class CompilerTranslator(ApiTranslator):
    def __init__(self, func, refs, self_name='self', prims=()):
        super().__init__(func, refs, self_name=self_name, prims=prims)
        self.nlines = len(inspect.getsource(func).splitlines())
        self.in_loop = 0
        self.callees = set()
        # K8: is the translated function itself an accumulator?
        self.acc = accumulator_params(func) if not inspect.ismethod(func) and self.params[:1] != [self_name] else None

    # ------------------------------------------------------------------ helpers
    def resolve_free(self, name):
        try:
            return super().resolve_free(name)
        except Untranslatable:
            # inspect.getclosurevars does not look into nested code objects (comprehensions, generator expressions)
            g = getattr(self.func, '__globals__', {})
            if name in g:
                return g[name]
            raise

    def static_or_none(self, e):
        try:
            return self.static(e)
        except (Untranslatable, AttributeError):
            return None

    # ------------------------------------------------------------------ expressions
    def expr(self, e):
        if isinstance(e, ast.Compare) and len(e.ops) == 1 and isinstance(e.ops[0], (ast.In, ast.NotIn)) \
                and not isinstance(e.comparators[0], (ast.Set, ast.List, ast.Tuple)):
            # plain py2mini translation (CIn / CNotIn on a list): ApiTranslator's R15 ("contains") is not applied here
            return py2mini.FuncTranslator.expr(self, e)
        if isinstance(e, ast.Compare) and len(e.ops) == 1:
            op, left, right = e.ops[0], e.left, e.comparators[0]
            if isinstance(op, (ast.Eq, ast.NotEq)):
                if isinstance(left, ast.Attribute) and left.attr == '__intypes__':                       # K2
                    t = f'(XPrim "sig_eq" [{self.expr(left)}; {self.expr(right)}])'
                    return t if isinstance(op, ast.Eq) else f'(XNot {t})'
                if isinstance(right, ast.List) or isinstance(left, ast.List):                            # K2
                    t = f'(XPrim "list_eq" [{self.expr(left)}; {self.expr(right)}])'
                    return t if isinstance(op, ast.Eq) else f'(XNot {t})'
            if isinstance(op, (ast.Is, ast.IsNot)) and not isinstance(right, ast.Constant):            # K4
                obj = self.static_or_none(right)
                if obj is not None and is_typeval(obj):
                    t = f'(XPrim {gstr("is:" + type_name(obj))} [{self.expr(left)}])'
                    return t if isinstance(op, ast.Is) else f'(XNot {t})'
        if isinstance(e, (ast.Name, ast.Attribute)) and id(e) not in self.callees:                      # K10
            obj = self.static_or_none(e)
            if obj is not None and is_typeval(obj):
                return f'(XPrim {gstr("type:" + type_name(obj))} [])'
        if isinstance(e, ast.Call):
            f = e.func
            self.callees.add(id(f))
            if isinstance(f, ast.Name) and f.id == 'issubclass' and f.id not in self.locals and len(e.args) == 2 \
                    and not e.keywords:                                                                # K5
                return f'(XPrim {gstr("issubclass:" + qualname(self.static(e.args[1])))} [{self.expr(e.args[0])}])'
            if len(e.args) == 1 and isinstance(e.args[0], ast.Starred) and not e.keywords \
                    and isinstance(f, (ast.Name, ast.Attribute)) and self.static_or_none(f) is not None \
                    and qualname(self.static(f)) == 'itertools.product':                               # K3
                return f'(XPrim "itertools.product:*" [{self.expr(e.args[0].value)}])'
            if isinstance(f, ast.Attribute) and f.attr == 'get' and 1 <= len(e.args) <= 2 and not e.keywords:  # K9
                obj = self.static_or_none(f.value)
                if isinstance(obj, dict):
                    d = self.dotted(f.value)
                    base = self.resolve_free(d.split('.')[0])
                    name = (base.__name__ + '.' + '.'.join(d.split('.')[1:])) if inspect.ismodule(base) else d
                    return f'(XPrim {gstr("static_get:" + name)} {glist([self.expr(a) for a in e.args])})'
        if isinstance(e, (ast.ListComp, ast.GeneratorExp)) and len(e.generators) == 1 \
                and isinstance(e.generators[0].target, ast.Tuple):                                     # K6
            return self.comp(lambda: self.expr(e.elt), e.generators[0])
        return super().expr(e)

    # ------------------------------------------------------------------ statements
    def acc_call(self, s):
        """K8: `F(a, p, q)` as a statement, F an accumulator -> p, q = F(a, p, q)"""
        if not (isinstance(s, ast.Expr) and isinstance(s.value, ast.Call)):
            return None
        c = s.value
        if c.keywords or any(isinstance(a, ast.Starred) for a in c.args) or not isinstance(c.func, ast.Name) \
                or c.func.id in self.locals:
            return None
        try:
            f = self.resolve_free(c.func.id)
        except Untranslatable:
            return None
        if not inspect.isfunction(f):
            return None
        pos = accumulator_params(f)
        if not pos:
            return None
        for i in pos:
            if i >= len(c.args) or not isinstance(c.args[i], ast.Name) or c.args[i].id not in self.locals:
                raise Untranslatable(f'accumulator call with a non-local list argument: {ast.dump(c)[:80]}')
        tgts = glist([f'(TName {gstr(c.args[i].id)})' for i in pos])
        return f'(SUnpack {tgts} {self.expr(c)})'

    def block(self, body):
        out = []
        body = list(body)
        for i, s in enumerate(body):
            if i == 0 and isinstance(s, ast.Expr) and isinstance(s.value, ast.Constant) \
                    and isinstance(s.value.value, str):
                continue
            if self.in_loop and isinstance(s, ast.If) and not s.orelse and s.body \
                    and isinstance(s.body[-1], ast.Continue):                                          # K7
                rest = body[i + 1:]
                out.append(f'(SIf {self.expr(s.test)} {self.block(s.body[:-1])} {self.block(rest)})')
                return glist(out)
            out.append(self.stmt(s))
        return glist(out)

    def stmt(self, s):
        if isinstance(s, ast.Assert):                                                                  # K1
            cls = self.strconst('builtins.AssertionError')
            return (f'(SIf (XNot {self.expr(s.test)}) [SExpr (XPrim "raise" [{cls}; {self.strconst("")}; '
                    f'(XConst PNone)])] [])')
        if isinstance(s, ast.For):
            # plain py2mini translation: ApiTranslator's R14 (`for x in E` -> SFor x (XPrim "iter" [E]), meant for
            # dicts and other iterables of the API code) is not applied here - the compiler only iterates over lists
            self.in_loop += 1
            try:
                return py2mini.FuncTranslator.stmt(self, s)
            finally:
                self.in_loop -= 1
        r = self.acc_call(s)
        if r is not None:
            return r
        if isinstance(s, ast.Raise) and isinstance(s.exc, ast.Call) and len(s.exc.args) == 2 and not s.exc.keywords \
                and s.cause is None and isinstance(s.exc.args[1], (ast.Name, ast.Attribute)):        # K11
            exc = ast.Call(func=s.exc.func, args=[s.exc.args[0]], keywords=[])
            return super().stmt(ast.Raise(exc=exc, cause=None))
        return super().stmt(s)

    def translate(self):
        term, defaults = super().translate()
        return term, defaults

    def block_top(self):
        body = self.block(self.fd.body)
        if self.acc:                                                                                   # K8
            ret = '(SReturn (Some (XTuple ' + glist([f'(XName {gstr(self.params[i])})' for i in self.acc]) + ')))'
            body = body[:-1] + ('; ' if body != '[]' else '') + ret + ']'
        return body


def _translate(tr):
    body = tr.block_top()
    gen = any(isinstance(n, (ast.Yield, ast.YieldFrom)) for n in ast.walk(tr.fd))
    term = ('{| f_params := ' + glist([gstr(p) for p in tr.params]) + ';\n     f_body := ' + body +
            ';\n     f_gen := ' + ('true' if gen else 'false') + ' |}')
    return term, [tr.const_value(d) for d in tr.defaults]


class Group:
    """plugs into gen_src.generate through the 'translator' option: spec items are
    (coq_name, function object, origin, required)"""
    skipped = {}

    @staticmethod
    def translate_all(spec, prims=()):
        refs = py2mini.Refs()
        defs, info, skipped = [], {}, {}
        for name, fn, origin, required in spec:
            try:
                if not required:
                    trial = py2mini.Refs()
                    trial.names = list(refs.names)
                    _translate(CompilerTranslator(fn, trial, prims=prims))
                tr = CompilerTranslator(fn, refs, prims=prims)
                term, defaults = _translate(tr)
            except Untranslatable as e:
                if required:
                    raise Untranslatable(f'{origin}: {e}') from e
                skipped[name] = str(e)[:160]
                continue
            defs.append((name, origin + '; parameters: ' + ', '.join(tr.params), term, defaults))
            info[name] = {'origin': origin, 'lines': tr.nlines}
        text = py2mini.render(defs, refs)
        text += ('\n(* parts of the compiler outside the PyMini fragment today (not translated): ' +
                 ('; '.join(f'{k}: {v}' for k, v in sorted(skipped.items())) or 'none').replace('*)', '* )') + ' *)\n')
        Group.skipped.update(skipped)
        return text, info


# ------------------------------------------------------------------------------------------------ specs
def spec_lookup():
    from beanquery import types
    return [
        ('types_function_lookup', types.function_lookup, 'beanquery.types.function_lookup', True),
        ('types_bases', types._bases, 'beanquery.types._bases', True),
    ]


def _handler(K, node_class, expected):
    """the method Compiler._compile dispatches an AST class to"""
    h = K.__dict__['_compile'].dispatcher.dispatch(node_class)
    if h.__name__ != expected:
        raise Untranslatable(f'Compiler._compile does not dispatch {node_class.__name__} to {expected}: {h!r}')
    return h


def spec_compiler():
    from beanquery import compiler
    K = compiler.Compiler
    a = compiler.ast
    return [
        ('compile_order_by', K._compile_order_by, 'beanquery.compiler.Compiler._compile_order_by', True),
        ('compile_group_by', K._compile_group_by, 'beanquery.compiler.Compiler._compile_group_by', True),
        ('compile_pivot_by', K._compile_pivot_by, 'beanquery.compiler.Compiler._compile_pivot_by', True),
        ('is_aggregate', compiler.is_aggregate, 'beanquery.compiler.is_aggregate', True),
        ('get_columns_and_aggregates', compiler.get_columns_and_aggregates,
         'beanquery.compiler.get_columns_and_aggregates', True),
        ('get_columns_and_aggregates_rec', compiler._get_columns_and_aggregates,
         'beanquery.compiler._get_columns_and_aggregates', True),
        ('check_aggregates', compiler.check_aggregates, 'beanquery.compiler.check_aggregates', True),
        ('compile_unaryop', _handler(K, a.UnaryOp, '_unaryop'), 'beanquery.compiler.Compiler._unaryop', False),
        ('compile_binaryop', _handler(K, a.BinaryOp, '_binaryop'), 'beanquery.compiler.Compiler._binaryop', False),
        ('compile_between', _handler(K, a.Between, '_between'), 'beanquery.compiler.Compiler._between', False),
    ]


def live_types():
    """the datatype classes reachable from the live registries without opening a connection: declared input types of
    every overload, structured types and their attributes, aliases, the cast map, NoneType, object; closed under
    __mro__.  name (gen_registry.tname) -> class"""
    from .gen_registry import tname
    from beanquery import query_compile as qc, types
    found = {}

    def note(t):
        if (isinstance(t, type) or t is types.Asterisk) and tname(t) not in found:
            found[tname(t)] = t
            for b in t.__mro__:
                note(b)

    for reg in (qc.FUNCTIONS, qc.OPERATORS):
        for ovs in reg.values():
            for f in ovs:
                for t in f.__intypes__:
                    note(t)
    for cls in types.TYPES.values():
        note(cls)
        for getter in cls.columns.values():
            note(getter.dtype)
    for k, v in types.ALIASES.items():
        note(k)
        note(v)
    for k in types.MAP:
        note(k)
    note(types.NoneType)
    note(object)
    note(types.Asterisk)    # not a class: typing.NewType with a hand-made __mro__
    return found


def extra_lookup():
    """the method resolution order of the datatypes of the live registries (what `t.__mro__` reads), by snapshot name"""
    from .gen_registry import tname
    rows = [f'({gstr(n)}, {glist([gstr(tname(b)) for b in t.__mro__])})' for n, t in sorted(live_types().items())]
    return ('\n(* t.__mro__ of the datatype classes of the live registries (src_compiler.live_types), by snapshot name *)\n'
            'Definition type_mros : list (string * list string) :=\n  ' + glist(rows) + '.\n')


def register(groups):
    groups['lookup'] = ('SrcLookup.v', spec_lookup, {'translator': Group, 'prims': PRIMS, 'extra': extra_lookup})
    groups['compiler'] = ('SrcCompiler.v', spec_compiler, {'translator': Group, 'prims': PRIMS})
    register_select(groups)


# ================================================================================================ bld-compiler3
# Groups `select` (C05/C08: Compiler._select), `from` (C13: Compiler._compile_from), `targets` (C07:
# Compiler._compile_targets, Compiler._inop): the statement-level decision logic.  SelectTranslator adds, on top of
# CompilerTranslator's rules:
#
# K12 state threading.  PyMini's opaque callables are pure, but `self._compile_from(..)`, `self._compile(..)`, ... assign
#    attributes of the compiler (self.table).  STATE = the attributes assigned by the methods reachable from
#    Compiler._compile through calls on self (computed from the live source by `threading_info`; today: table).  A call
#    `self.m(args)` of a method that may assign them (THREADED) is admitted only as the whole right-hand side of an
#    assignment and becomes
#        x = self.m(a)        ->  self.<STATE..>, x  = self.m(self.<STATE..>, a)
#        x, y = self.m(a)     ->  self.<STATE..>, $r = self.m(self.<STATE..>, a);  x, y = $r
#    i.e. the callable receives the state it may read and returns the state it leaves behind next to its value.  The
#    theorems quantify over what it leaves behind.  Calls of methods that assign nothing stay plain calls.
# K13 sets: `set(x)` is the primitive "builtins.set"; `a == b` / `a != b` with a set-typed local or a set(..) call on one
#    side is XPrim "set_eq" [a; b] (order-insensitive equality).
# K14 raise E('text {}'.format(x) [, node]) -> as R1 with the constant text up to the first `{` as the leading text.
PRIMS_SELECT = PRIMS + ('builtins.set', 'builtins.hasattr', 'beanquery.query_compile.EvalQuery',
                        'beanquery.query_compile.EvalPivot', 'beanquery.parser.ast.Target', 'beanquery.parser.ast.Column')


def _method_functions(K):
    """name -> function for the plain methods of the class and the handlers registered on the singledispatch method
    `_compile`; plus the list of handler names"""
    out = {}
    for name, obj in K.__dict__.items():
        if inspect.isfunction(obj):
            out[name] = obj
    handlers = []
    disp = K.__dict__.get('_compile')
    if disp is not None and hasattr(disp, 'dispatcher'):
        for h in disp.dispatcher.registry.values():
            if inspect.isfunction(h):
                out.setdefault(h.__name__, h)
                handlers.append(h.__name__)
        out['_compile'] = None
    return out, sorted(set(handlers))


def threading_info(K):
    """(STATE, THREADED): the attributes of self assigned by the methods reachable from `_compile` through calls on
    self, and the methods that may assign one of them (directly or through such calls)"""
    funcs, handlers = _method_functions(K)
    assigns, calls = {}, {}
    for name, fn in funcs.items():
        if fn is None:
            assigns[name], calls[name] = set(), set(handlers)
            continue
        try:
            fd = ast.parse(textwrap.dedent(inspect.getsource(fn))).body[0]
        except (OSError, TypeError) as e:
            raise Untranslatable(f'no source for Compiler.{name}: {e}') from e
        selfname = fd.args.args[0].arg if fd.args.args else 'self'
        a, c = set(), set()
        for n in ast.walk(fd):
            tg = []
            if isinstance(n, ast.Assign):
                tg = n.targets
            elif isinstance(n, (ast.AugAssign, ast.AnnAssign)):
                tg = [n.target]
            for t in tg:
                for x in ast.walk(t):
                    if isinstance(x, ast.Attribute) and isinstance(x.value, ast.Name) and x.value.id == selfname \
                            and isinstance(x.ctx, ast.Store):
                        a.add(x.attr)
            if isinstance(n, ast.Call):
                names = [n.func] + list(n.args)
                for f in names:
                    # a call on self, or a bound method handed over as an argument (setattr(self, ..) / getattr are
                    # outside the fragment and rejected by the translator)
                    if isinstance(f, ast.Attribute) and isinstance(f.value, ast.Name) and f.value.id == selfname \
                            and f.attr in funcs:
                        c.add(f.attr)
        assigns[name], calls[name] = a, c
    reach, todo = set(), ['_compile']
    while todo:
        m = todo.pop()
        if m in reach:
            continue
        reach.add(m)
        todo.extend(calls.get(m, ()))
    state = sorted(set().union(*[assigns[m] for m in reach]))
    threaded = {m for m in funcs if assigns[m] & set(state)}
    changed = True
    while changed:
        changed = False
        for m in funcs:
            if m not in threaded and calls[m] & threaded:
                threaded.add(m)
                changed = True
    return state, threaded


class SelectTranslator(CompilerTranslator):
    STATE, THREADED = (), frozenset()

    def threaded_call(self, e):
        return isinstance(e, ast.Call) and isinstance(e.func, ast.Attribute) and isinstance(e.func.value, ast.Name) \
            and e.func.value.id == self.self_name and e.func.attr in self.THREADED

    def is_setexpr(self, e):
        return (isinstance(e, ast.Name) and e.id in self.settyped) or isinstance(e, ast.SetComp) or \
            (isinstance(e, ast.Call) and isinstance(e.func, ast.Name) and e.func.id == 'set' and 'set' not in self.locals)

    def expr(self, e):
        if self.threaded_call(e) and id(e) not in getattr(self, 'admitted', ()):                           # K12
            raise Untranslatable(f'call of the state-changing method self.{e.func.attr} outside `x = self.m(..)`')
        if isinstance(e, ast.Compare) and len(e.ops) == 1 and isinstance(e.ops[0], (ast.Eq, ast.NotEq)) \
                and (self.is_setexpr(e.left) or self.is_setexpr(e.comparators[0])):                        # K13
            t = f'(XPrim "set_eq" [{self.expr(e.left)}; {self.expr(e.comparators[0])}])'
            return t if isinstance(e.ops[0], ast.Eq) else f'(XNot {t})'
        return super().expr(e)

    def thread(self, call, target):
        if call.keywords or any(isinstance(a, ast.Starred) for a in call.args):
            raise Untranslatable('keyword / star arguments to a state-changing method of self')
        self.admitted = getattr(self, 'admitted', set()) | {id(call)}
        state_t = [f'(TSelf {gstr(a)})' for a in self.STATE]
        state_e = [f'(XAttr (XName {gstr(self.self_name)}) {gstr(a)})' for a in self.STATE]
        fn = f'(XAttr (XName {gstr(self.self_name)}) {gstr(call.func.attr)})'
        args = glist(state_e + [self.expr(a) for a in call.args])
        return f'(SUnpack {glist(state_t + [target])} (XCall {fn} {args} None))'

    def stmt(self, s):
        if isinstance(s, ast.Assign) and len(s.targets) == 1 and self.threaded_call(s.value):             # K12
            t = s.targets[0]
            if isinstance(t, ast.Name):
                return self.thread(s.value, self.target(t))
            if isinstance(t, ast.Tuple) and all(isinstance(x, ast.Name) for x in t.elts):
                self.locals.add('$r')
                return (self.thread(s.value, '(TName "$r")') + '; ' +
                        f'(SUnpack {glist([self.target(x) for x in t.elts])} (XName "$r"))')
            raise Untranslatable('state-changing method of self assigned to a non-local target')
        if isinstance(s, ast.Raise) and isinstance(s.exc, ast.Call) and 1 <= len(s.exc.args) <= 2 \
                and not s.exc.keywords and s.cause is None:                                                # K14
            m = s.exc.args[0]
            if isinstance(m, ast.Call) and isinstance(m.func, ast.Attribute) and m.func.attr == 'format' \
                    and isinstance(m.func.value, ast.Constant) and isinstance(m.func.value.value, str):
                if len(s.exc.args) == 2 and not isinstance(s.exc.args[1], (ast.Name, ast.Attribute)):
                    raise Untranslatable('raise E(msg, <expression>)')
                cls = qualname(self.static(s.exc.func))
                lead = m.func.value.value.split('{')[0]
                return f'(SExpr (XPrim "raise" [{self.strconst(cls)}; {self.strconst(lead)}; {self.expr(m)}]))'
        return super().stmt(s)


class SelectGroup:
    """spec items: (coq_name, function object, origin)"""
    info = {}

    @staticmethod
    def translate_all(spec, prims=()):
        from beanquery import compiler
        state, threaded = threading_info(compiler.Compiler)
        SelectTranslator.STATE, SelectTranslator.THREADED = tuple(state), frozenset(threaded)
        SelectGroup.info = {'state': list(state), 'threaded': sorted(threaded)}
        refs = py2mini.Refs()
        defs, info = [], {}
        for name, fn, origin in spec:
            try:
                tr = SelectTranslator(fn, refs, prims=prims)
                term, defaults = _translate(tr)
            except Untranslatable as e:
                raise Untranslatable(f'{origin}: {e}') from e
            defs.append((name, origin + '; parameters: ' + ', '.join(tr.params), term, defaults))
            info[name] = {'origin': origin, 'lines': tr.nlines}
        text = py2mini.render(defs, refs)
        text += ('\n(* K12: attributes of the compiler threaded through the calls on self, and the methods that may assign '
                 'them (src_compiler.threading_info on the live class) *)\n'
                 'Definition threaded_state : list string := ' + glist([gstr(a) for a in state]) + '.\n'
                 'Definition threaded_methods : list string := ' + glist([gstr(m) for m in sorted(threaded)]) + '.\n')
        return text, info


def spec_select():
    from beanquery import compiler
    K = compiler.Compiler
    return [('compile_select', _handler(K, compiler.ast.Select, '_select'), 'beanquery.compiler.Compiler._select')]


def spec_from():
    from beanquery import compiler
    return [('compile_from', compiler.Compiler._compile_from, 'beanquery.compiler.Compiler._compile_from')]


def spec_targets():
    from beanquery import compiler
    K = compiler.Compiler
    a = compiler.ast
    h_in, h_notin = _handler(K, a.In, '_inop'), _handler(K, a.NotIn, '_inop')
    if h_in is not h_notin:
        raise Untranslatable('ast.In and ast.NotIn are not compiled by the same handler')
    return [('compile_targets', K._compile_targets, 'beanquery.compiler.Compiler._compile_targets'),
            ('compile_inop', h_in, 'beanquery.compiler.Compiler._inop (the handler of ast.In and ast.NotIn)')]


def register_select(groups):
    opts = {'translator': SelectGroup, 'prims': PRIMS_SELECT}
    groups['select'] = ('SrcSelect.v', spec_select, opts)
    groups['from'] = ('SrcFrom.v', spec_from, opts)
    groups['targets'] = ('SrcTargets.v', spec_targets, opts)
