"""Shared machinery: Coq build, model evaluation by vm_compute, Gallina literal
printers, sexp parsing, evidence, violation reporting, known findings."""
import fcntl
import json
import os
import re
import shutil
import subprocess
import sys
import time
from concurrent.futures import ThreadPoolExecutor

VERIF = os.path.dirname(os.path.dirname(os.path.dirname(os.path.abspath(__file__))))
COQ = os.path.join(VERIF, 'coq')
BUILD = os.path.join(VERIF, 'build')
EVIDENCE = os.environ.get('VERIF_EVIDENCE_DIR') or os.path.join(VERIF, 'evidence')
REPLAY = os.environ.get('VERIF_REPLAY_DIR') or os.path.join(VERIF, 'replay')
REPO = os.environ.get('VERIF_REPO', '/repo')
NCPU = min(16, os.cpu_count() or 4)

COQ_WARN = ['-w', '-notation-overridden,-deprecated-hint-without-locality,'
            '-deprecated-instance-without-locality,-deprecated-syntactic-definition']


def log(*a):
    print(*a, file=sys.stderr, flush=True)


# --------------------------------------------------------------------------
# Coq build

def vfiles():
    out = []
    for sub in ('Base', 'Model', 'Gen', 'Proofs', 'Properties'):
        d = os.path.join(COQ, sub)
        if os.path.isdir(d):
            for f in sorted(os.listdir(d)):
                if f.endswith('.v'):
                    out.append(f'{sub}/{f}')
    return out


def write_if_changed(path, text):
    try:
        with open(path) as f:
            if f.read() == text:
                return False
    except FileNotFoundError:
        pass
    os.makedirs(os.path.dirname(path), exist_ok=True)
    tmp = path + '.tmp%d' % os.getpid()
    with open(tmp, 'w') as f:
        f.write(text)
    os.replace(tmp, path)
    return True


class BuildResult:
    def __init__(self, ok, log_text, failed=None):
        self.ok = ok
        self.log = log_text
        self.failed = failed  # .v file whose compilation failed, if known


def build_coq(targets=None, timeout=1500):
    """Full .vo build (coq_makefile + make) under a file lock. `targets` is a
    list of .vo paths relative to coq/ (default: everything)."""
    os.makedirs(BUILD, exist_ok=True)
    with open(os.path.join(BUILD, '.lock'), 'w') as lk:
        fcntl.flock(lk, fcntl.LOCK_EX)
        proj = '-Q . Verif\n' + ''.join(f'-arg {a}\n' for a in COQ_WARN) + '\n'.join(vfiles()) + '\n'
        changed = write_if_changed(os.path.join(COQ, '_CoqProject'), proj)
        if changed or not os.path.exists(os.path.join(COQ, 'Makefile')):
            subprocess.run(['coq_makefile', '-f', '_CoqProject', '-o', 'Makefile'], cwd=COQ,
                           check=True, stdout=subprocess.DEVNULL, stderr=subprocess.DEVNULL)
        cmd = ['timeout', str(timeout), 'make', '-k', f'-j{NCPU}'] + (targets or [])
        p = subprocess.run(cmd, cwd=COQ, stdout=subprocess.PIPE, stderr=subprocess.STDOUT, text=True)
        failed = None
        if p.returncode != 0:
            m = re.search(r'File "\./([^"]+)", line', p.stdout)
            if m:
                failed = m.group(1)
        return BuildResult(p.returncode == 0, p.stdout, failed)


def theorem_report(pid):
    """Re-check Properties/<pid>.v alone and collect, for every
    `Print Assumptions thm`, the assumptions the kernel reports.
    Returns (ok, [(theorem, assumptions_text)], log)."""
    src = os.path.join(COQ, 'Properties', f'{pid}.v')
    if not os.path.exists(src):
        return False, [], f'{src} missing'
    with open(src) as f:
        text = f.read()
    names = re.findall(r'^Print Assumptions\s+([A-Za-z0-9_\.\']+)\s*\.', text, re.M)
    tmpd = os.path.join(BUILD, 'thm', pid)
    shutil.rmtree(tmpd, ignore_errors=True)
    os.makedirs(tmpd)
    dst = os.path.join(tmpd, f'{pid}_recheck.v')
    shutil.copy(src, dst)
    p = subprocess.run(['timeout', '600', 'coqc', '-Q', COQ, 'Verif'] + COQ_WARN + [dst],
                       stdout=subprocess.PIPE, stderr=subprocess.STDOUT, text=True)
    if p.returncode != 0:
        return False, [], p.stdout
    # Split output: each Print Assumptions prints either "Closed under the global context"
    # or "Axioms:\n name : type ..."
    chunks = re.split(r'(?=^Closed under the global context|^Axioms:)', p.stdout, flags=re.M)
    chunks = [c.strip() for c in chunks if c.strip().startswith(('Closed', 'Axioms:'))]
    rep = []
    for i, n in enumerate(names):
        rep.append((n, chunks[i] if i < len(chunks) else '?'))
    ok = len(chunks) == len(names) and len(names) > 0
    return ok, rep, p.stdout


def audit_sources(only=None):
    """grep the development (or the given files of it) for forbidden declarations."""
    bad = []
    pat = re.compile(r'\b(Admitted|admit|Axiom|Axioms|Parameter|Parameters|Conjecture|Admit Obligations|'
                     r'bypass_check|Unset Guard Checking|Unset Positivity Checking|Unset Universe Checking|'
                     r'type-in-type|impredicative-set)\b')
    for rel in (only if only is not None else vfiles()):
        with open(os.path.join(COQ, rel)) as f:
            txt = f.read()
        txt = re.sub(r'\(\*.*?\*\)', '', txt, flags=re.S)
        for m in pat.finditer(txt):
            bad.append(f'{rel}: {m.group(0)}')
    return bad


# --------------------------------------------------------------------------
# Gallina literals

def cZ(n):
    n = int(n)
    return f'({n})' if n < 0 else str(n)


def cN(n):
    assert n >= 0
    return str(int(n))


def cbool(b):
    return 'true' if b else 'false'


def clist(items):
    return '[' + '; '.join(items) + ']'


def cstr(s):
    """Python str -> list Z of code points."""
    return clist([str(ord(c)) for c in s])


def copt(x, f=lambda v: v):
    return 'None' if x is None else f'(Some {f(x)})'


def cpair(a, b):
    return f'({a}, {b})'


# --------------------------------------------------------------------------
# sexp parsing of model output

def parse_sexp(s):
    toks = re.findall(r'\(|\)|-?\d+', s)
    pos = 0

    def rd():
        nonlocal pos
        t = toks[pos]
        pos += 1
        if t == '(':
            l = []
            while toks[pos] != ')':
                l.append(rd())
            pos += 1
            return l
        return int(t)
    v = rd()
    assert pos == len(toks), s
    return v


HEADER = '''From Coq Require Import String ZArith List Bool.
Import ListNotations.
From Verif Require Import Base.Out.
{imports}
Open Scope string_scope.
Open Scope Z_scope.
Set Printing Width 10000000.
Set Printing Depth 10000000.
'''


def _run_shard(args):
    path, n = args
    p = subprocess.run(['timeout', '900', 'coqc', '-Q', COQ, 'Verif'] + COQ_WARN + [path],
                       stdout=subprocess.PIPE, stderr=subprocess.PIPE, text=True)
    if p.returncode != 0:
        raise RuntimeError(f'coqc failed on {path}:\n{p.stdout[-2000:]}\n{p.stderr[-4000:]}')
    res = re.findall(r'^\s*= "([^"]*)"\s*$', p.stdout, re.M)
    if len(res) != n:
        raise RuntimeError(f'{path}: expected {n} results, got {len(res)}\n{p.stdout[:2000]}')
    return [parse_sexp(r) for r in res]


def coq_eval(tag, imports, exprs, shard=300):
    """Evaluate Gallina expressions of type [out] with vm_compute inside coqc.
    `imports` is e.g. ['Model.Cursor']. Returns a list of parsed S-expressions."""
    if not exprs:
        return []
    d = os.path.join(BUILD, 'cases', tag)
    shutil.rmtree(d, ignore_errors=True)
    os.makedirs(d)
    hdr = HEADER.format(imports='\n'.join(f'From Verif Require Import {i}.' for i in imports))
    jobs = []
    for k in range(0, len(exprs), shard):
        part = exprs[k:k + shard]
        path = os.path.join(d, f'cases_{k // shard:04d}.v')
        with open(path, 'w') as f:
            f.write(hdr)
            for e in part:
                f.write(f'Eval vm_compute in show ({e}).\n')
        jobs.append((path, len(part)))
    with ThreadPoolExecutor(NCPU) as ex:
        parts = list(ex.map(_run_shard, jobs))
    shutil.rmtree(d, ignore_errors=True)
    return [r for p in parts for r in p]


# --------------------------------------------------------------------------
# Known findings

def load_known(pid):
    """known-findings.txt: lines `known: {json}` list genuine, unrepaired defects
    (json keys: property, signature, what); lines `fixed: ...` document repaired
    ones and suppress nothing. Never written at run time."""
    path = os.path.join(VERIF, 'known-findings.txt')
    out = []
    if os.path.exists(path):
        with open(path) as f:
            for line in f:
                line = line.strip()
                if line.startswith('known:'):
                    rec = json.loads(line[len('known:'):])
                    if rec.get('property') == pid:
                        out.append(rec)
    return out


class Violation:
    def __init__(self, kind, summary, detail, signature=None, found_input=True):
        self.kind = kind              # short machine tag, e.g. 'rowcount-after-fetch'
        self.summary = summary        # one line
        self.detail = detail          # JSON-able replay payload
        self.signature = signature or kind   # matched against known_findings 'signature'
        self.found_input = found_input


def finish(pid, tier, seed, t0, coverage, violations, assumptions, theorems=None, build_ok=True):
    """Write evidence, print KNOWN-FINDING / VIOLATION lines, return exit code."""
    os.makedirs(EVIDENCE, exist_ok=True)
    os.makedirs(REPLAY, exist_ok=True)
    known = load_known(pid)
    unlisted = []
    listed = {}
    for v in violations:
        k = next((r for r in known if r['signature'] == v.signature), None)
        if k is not None:
            listed.setdefault(k['signature'], (k, v))
        else:
            unlisted.append(v)
    for sig, (k, v) in listed.items():
        print(f"KNOWN-FINDING: property={pid} {k['what']}")
    rc = 0
    seen = set()
    for v in unlisted:
        if v.signature in seen:
            continue
        seen.add(v.signature)
        rc = 1
        path = os.path.join(REPLAY, f'{pid}_{re.sub(r"[^A-Za-z0-9_.-]", "_", v.signature)[:80]}.json')
        with open(path, 'w') as f:
            json.dump({'property': pid, 'kind': v.kind, 'summary': v.summary, 'seed': seed, 'tier': tier,
                       'replay': v.detail}, f, indent=1, default=str)
        tail = '' if v.found_input else ' no-failing-input-found'
        print(f'VIOLATION property={pid} replay={path}{tail}')
        log(f'  {v.summary}')
    cov = dict(coverage)
    if theorems is not None:
        cov.setdefault('obligations', len(theorems))
        cov.setdefault('discharged', len([t for t in theorems if t[1] != '?']) if build_ok else 0)
        cov['theorems'] = [{'name': n, 'assumptions': a} for n, a in theorems]
    cov.setdefault('checker_cmd', f'cd /verif/coq && make && coqc -Q . Verif Properties/{pid}.v')
    cov.setdefault('trusted_base', TRUSTED_BASE)
    ev = {
        'property_id': pid, 'tier': tier, 'seed': seed, 'level': 'proof',
        'coverage': cov, 'assumptions': assumptions,
        'wall_s': round(time.time() - t0, 2),
        'violations': len(seen),
        'known_findings_reported': sorted(listed),
    }
    with open(os.path.join(EVIDENCE, f'{pid}.json'), 'w') as f:
        json.dump(ev, f, indent=1, default=str)
    return rc


TRUSTED_BASE = [
    'Coq 8.16.1 kernel incl. its vm_compute conversion (no native_compute)',
    'coqc/make build of /verif/coq (full .vo build)',
    'hand-written Gallina model (what it says the code does is validated only by the correspondence run)',
    'Python correspondence harness /verif/harness (generators, canonicalisation, Gallina literal printers, sexp reader)',
    'CPython 3.12, beancount 3.2.3, TatSu 5.7.4, dateutil: modelled, not verified',
]


# --------------------------------------------------------------------------
# parallel map for the implementation side (fork: workers inherit the imports)

def pmap(func, items, chunksize=None):
    import multiprocessing as mp
    items = list(items)
    if len(items) < 64:
        return [func(x) for x in items]
    ctx = mp.get_context('fork')
    with ctx.Pool(NCPU) as pool:
        return pool.map(func, items, chunksize or max(1, len(items) // (NCPU * 8)))
