"""Group `env` of the translator-based tie (see PYMINI.md): the scalar function library of beanquery/query_env.py (C18).

On every run the plain Python functions BEHIND the registered BQL functions are translated into coq/Gen/SrcEnv.v.
They are taken from the registry itself (query_compile.FUNCTIONS -> the `func` cell of the closure of the
NULL-strict wrapper's __call__), not from module attributes: query_env.year / month / day / number ... are rebound later
in the module by the column accessors of the same name, the registered scalar functions are only reachable there.

* REQUIRED functions (the ones Proofs/SrcEnv.v proves equal to the C18 models) fail closed: py2mini.Untranslatable.
* `possign` and `account_sortkey` read `context.tables['accounts'].types` (a dict subscript, outside the fragment) in
  their first statement; that statement must have exactly this shape (checked structurally) and is replaced by a
  parameter `account_types` taking the place of `context`; the rest of the body is translated.
* `date_bin_str` (BQL date_bin on a string stride) calls `interval` and `date_bin`: they stay opaque callables (refs table),
  the theorem assumes they behave as their models; `findfirst`'s loop over sorted(values) is tied by induction.
* the other C18 functions (C18_EXTRA) are attempted and reported (translated as `envx_<name>` without a theorem, or skipped
  with the translator's reason); `date_bin` (while True) is outside the fragment; ledger/inventory/metadata functions of the
  registry are other properties' ground and only listed.

Library calls / attribute reads / non-int operators become primitives whose semantics is Model/PrimsEnv.v."""
import ast
import inspect

from . import py2mini
from .py2mini import Untranslatable

# qualified names (where the object really lives) translated to XPrim
PRIMS = ('builtins.int', 'builtins.str', 'builtins.bool', 'builtins.abs', 'builtins.round', 'builtins.isinstance',
         'builtins.sorted', 'decimal.Decimal', 'datetime.date', 'datetime.timedelta', 'datetime.datetime.strptime',
         're.search', 're.sub', 're.match', 'textwrap.shorten',
         'beancount.core.account.root', 'beancount.core.account.parent', 'beancount.core.account.leaf',
         'beancount.core.account_types.get_account_sign', 'beancount.core.account_types.get_account_sort_key',
         'dateutil.relativedelta.relativedelta', 'dateutil._common.weekday')

# python function name -> the functions Proofs/SrcEnv.v has a theorem for
REQUIRED = ['year', 'month', 'day', 'yearmonth', 'quarter', 'weekday_', 'date_diff', 'date_add', 'date_trunc',
            'date_part', 'date_from_ymd', 'date_', 'int_', 'decimal_', 'str_', 'bool_', 'neg', 'abs_', 'safediv',
            'round_', 'length', 'substr', 'splitcomp', 'maxwidth', 'upper', 'lower', 'root', 'parent', 'leaf',
            'grep', 'grepn', 'subst', 'joinstr', 'possign', 'account_sortkey', 'findfirst', 'date_bin_str']
CONTEXT_TAIL = ('possign', 'account_sortkey')
# C18 functions without a theorem here: attempted and reported
C18_EXTRA = ('interval', 'date_bin', 'parse_date', 'repr_', 'today')

_last_report = {}


def registered_plain_functions():
    """python name -> (function object, sorted BQL names it is registered under), from the live registry"""
    from beanquery import query_compile as qc, query_env  # noqa: F401
    out = {}
    for bql, ovs in qc.FUNCTIONS.items():
        for f in ovs:
            call = f.__dict__.get('__call__')
            if call is None or call.__qualname__ != 'function.<locals>.decorator.<locals>.Func.__call__':
                continue
            cells = dict(zip(call.__code__.co_freevars, (c.cell_contents for c in call.__closure__)))
            fn = cells.get('func')
            if not inspect.isfunction(fn) or fn.__module__ != 'beanquery.query_env':
                continue
            ent = out.setdefault(fn.__name__, (fn, set()))
            if ent[0] is not fn:
                raise Untranslatable(f'two different registered functions are named {fn.__name__}')
            ent[1].add(bql)
    return {k: (fn, sorted(names)) for k, (fn, names) in out.items()}


class ContextTail(py2mini.FuncTranslator):
    """def f(context, ...):  account_types = context.tables['accounts'].types;  <rest>
       -> the function  f(account_types, ...): <rest>"""

    def __init__(self, func, refs, prims=()):
        super().__init__(func, refs, prims=prims)
        body = [s for i, s in enumerate(self.fd.body)
                if not (i == 0 and isinstance(s, ast.Expr) and isinstance(s.value, ast.Constant))]
        want = "Assign(targets=[Name(id='account_types', ctx=Store())], value=Attribute(value=Subscript(value=" \
               "Attribute(value=Name(id='context', ctx=Load()), attr='tables', ctx=Load()), slice=Constant(value=" \
               "'accounts'), ctx=Load()), attr='types', ctx=Load()))"
        if not body or ast.dump(body[0]) != want or not self.params or self.params[0] != 'context':
            raise Untranslatable(f'{func.__name__}: first statement is not '
                                 f"`account_types = context.tables['accounts'].types`")
        rest = body[1:]
        for s in rest:
            for n in ast.walk(s):
                if isinstance(n, ast.Name) and n.id == 'context':
                    raise Untranslatable(f'{func.__name__}: `context` is used after the first statement')
                if isinstance(n, ast.Name) and n.id == 'account_types' and isinstance(n.ctx, ast.Store):
                    raise Untranslatable(f'{func.__name__}: account_types is reassigned')
        self.fd.body = rest
        self.params = ['account_types'] + self.params[1:]


def spec_env():
    reg = registered_plain_functions()
    out = []
    for name in REQUIRED:
        if name not in reg:
            raise Untranslatable(f'query_env.{name} is no longer registered as a BQL function')
        fn, bql = reg[name]
        out.append(('env_' + name.rstrip('_'), fn,
                    f'beanquery.query_env.{name} (BQL {", ".join(bql)})' +
                    (' without its first statement: account_types is a parameter' if name in CONTEXT_TAIL else ''),
                    name))
    return out


class EnvTranslator:
    @staticmethod
    def translate_all(spec, prims=()):
        refs = py2mini.Refs()
        defs, info = [], {}
        for coq_name, fn, origin, pyname in spec:
            cls = ContextTail if pyname in CONTEXT_TAIL else py2mini.FuncTranslator
            term, defaults = cls(fn, refs, prims=prims).translate()
            defs.append((coq_name, origin, term, defaults))
            info[coq_name] = {'origin': origin, 'lines': len(inspect.getsource(fn).splitlines())}
        # the rest of the registry: attempted, reported, no theorem depends on them
        reg = registered_plain_functions()
        extra, skipped = [], {}
        for name in sorted(set(reg) - set(REQUIRED)):
            fn, bql = reg[name]
            if name not in C18_EXTRA:
                continue  # ledger / inventory / metadata functions: other properties' ground
            try:
                r2 = py2mini.Refs()
                r2.names = list(refs.names)
                term, defaults = py2mini.FuncTranslator(fn, r2, prims=prims).translate()
                refs.names = r2.names
                defs.append(('envx_' + name.rstrip('_'), f'beanquery.query_env.{name} (BQL {", ".join(bql)}); no theorem',
                             term, defaults))
                extra.append(name)
            except Untranslatable as e:
                skipped[name] = str(e) + (' (the first construct met; the body also has two while-True loops: the function is tied in group env2, src_env2.py)'
                                          if name == 'date_bin' else '')
            except Exception as e:  # noqa: BLE001  (no theorem depends on these: report, do not fail)
                skipped[name] = repr(e)
        _last_report.clear()
        _last_report.update({
            'src_env_tied_functions': [n for _, _, _, n in spec],
            'src_env_translated_without_theorem': extra,
            'src_env_skipped': skipped,
            'src_env_registered_plain_functions': len(reg),
            'src_env_not_attempted_other_properties': sorted(set(reg) - set(REQUIRED) - set(C18_EXTRA)),
        })
        return py2mini.render(defs, refs), info


def report():
    return dict(_last_report)
