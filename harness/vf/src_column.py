"""Group `column` of the translator-based tie (C10, bld-misc): `Column.__getitem__` translated ALONE with the rules of
src_api.ApiTranslator into coq/Gen/SrcColumn.v, so that `self._vars[key]` becomes the subscript primitive "getitem" (rule
R7) and the slice branch has a meaning (coq/Model/PrimsColumn.v: a tuple subscripted with a slice object is Cursor.py_slice).
Group `cursor` (base translator, Proofs/SrcCursor.v) is left untouched.

Besides the term the generated file carries `column_protocol`: for every method of the sequence protocol, the function
the LIVE class Column resolves it to.  Proofs/SrcColumn.v proves it equal to "len and getitem are Column's own, iteration /
containment / reversed / index / count are the collections.abc.Sequence mix-ins" - which are defined in terms of
__getitem__ and __len__ (trusted: the standard library), so that iterating a description entry goes through the tied
__getitem__.  A hand-written Column.__iter__ changes the table and the obligation no longer checks."""
from . import py2mini, src_api

PRIMS = src_api.PRIMS + ('builtins.tuple',)
PROTOCOL = ('__len__', '__getitem__', '__iter__', '__contains__', '__reversed__', 'index', 'count')


def spec_column():
    from beanquery import cursor
    return [('column_getitem', cursor.Column.__getitem__, 'beanquery.cursor.Column.__getitem__ (ApiTranslator: subscripts are '
                                                          'the primitive "getitem")')]


def protocol():
    from beanquery import cursor
    out = []
    for name in PROTOCOL:
        f = getattr(cursor.Column, name, None)
        mod, qn = getattr(f, '__module__', None), getattr(f, '__qualname__', None)
        if f is None or not mod or not qn:
            raise py2mini.Untranslatable(f'Column.{name} is not a plain function: {f!r}')
        out.append((name, f'{mod}.{qn}'))
    return out


def extra_column():
    return ('\n(* the function the live class beanquery.cursor.Column resolves each method of the sequence protocol to *)\n'
            'Definition column_protocol : list (string * string) :=\n  ' +
            py2mini.glist([f'({py2mini.gstr(n)}, {py2mini.gstr(q)})' for n, q in protocol()]) + '.\n')


def register(groups):
    groups['column'] = ('SrcColumn.v', spec_column,
                        {'translator': src_api.ApiTranslator, 'prims': PRIMS, 'extra': extra_column})
