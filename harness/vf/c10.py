"""C10: cursor fetch protocol and Column sequence behaviour.
Correspondence: call histories on real cursors vs Model/Cursor.v (vm_compute)."""
import itertools

from . import core, impl
from .core import cZ, clist, copt
from .shrink import ddmin_batch

ASSUMPTIONS = [
    'rows are opaque values: the model is polymorphic in the row type and is run at Z (row = its x value)',
    'iter(cursor) is modelled as a Python callable-iterator over fetchone with sentinel None',
    'translator tie (C10_source_*): the PyMini interpreter (Model/PyMini.v) is the semantics of the translated methods; '
    'in Cursor.execute the parser, compiler and executor (and isinstance) are opaque pure callables identified by their '
    'qualified names in the generated refs table (the theorem is conditional on what their composition returns); '
    'Column._vars holds operator.attrgetter objects, assumed to read the property of that name (getters_ok); '
    'Column.__getitem__: group cursor ties it for integer keys; group column (src_column.py, Gen/SrcColumn.v: the same '
    'method translated alone with ApiTranslator, subscripts as the primitive "getitem") ties the slice branch for ALL '
    'slices (C10_source_column_slice) - trusted there: Model/PrimsColumn.v (a slice object is a record tagged '
    'builtins.slice; a tuple subscripted with it is Cursor.py_slice; tuple(list)); C10_source_column_protocol: the live '
    'class resolves __iter__/__contains__/__reversed__/index/count to the collections.abc.Sequence mix-ins, whose '
    'definition through __getitem__/__len__ is trusted standard-library behaviour; Column.__eq__ is not translated '
    '(correspondence only); Cursor.executemany calls self.execute, a state-changing call on the '
    'receiver the fragment cannot express: C10_source_executemany ties the SHAPE of its source (parse once, then '
    'self.execute(query, p) for every p in order) and proves that running the translated execute as that loop prescribes is '
    'the model\'s fold; Cursor.__iter__: builtins.iter is an opaque callable (the callable-iterator protocol is the model\'s '
    'NewIter/Next, validated by the correspondence)',
]

SIZES = [None, -2, -1, 0, 1, 2, 3, 5]


def gen_history(rng, maxlen):
    n = rng.randint(1, maxlen)
    ops = []
    niter = 0
    executed = rng.random() < 0.85
    if executed:
        ops.append(('execute', rng.choice([0, 1, 2, 3, 4, 6])))
    for _ in range(n):
        r = rng.random()
        if r < 0.18:
            ops.append(('fetchone',))
        elif r < 0.40:
            ops.append(('fetchmany', rng.choice(SIZES)))
        elif r < 0.50:
            ops.append(('fetchall',))
        elif r < 0.58:
            ops.append(('arraysize', rng.choice([0, 1, 2, 3, -1])))
        elif r < 0.66:
            ops.append(('newiter',))
            niter += 1
        elif r < 0.80 and niter:
            ops.append(('next', rng.randrange(niter)))
        elif r < 0.86:
            ops.append(('rowcount',))
        elif r < 0.92:
            ops.append(('rownumber',))
        elif r < 0.95:
            ops.append(('hasdesc',))
        elif rng.random() < 0.35:
            ops.append(('execfail',))       # round 8 (seed C10-m16): an execute that raises during evaluation
        else:
            ops.append(('execute', rng.choice([0, 1, 2, 3, 5])))
    return ops


def fix_handles(ops):
    """After shrinking, iterator handles must still refer to created iterators."""
    out, n = [], 0
    for o in ops:
        if o[0] == 'newiter':
            n += 1
        if o[0] == 'next' and o[1] >= n:
            continue
        out.append(o)
    return out


def _ensure_vfail():
    from beanquery import query_env
    if 'vfail' not in query_env.query_compile.FUNCTIONS:
        def vfail(x):
            raise RuntimeError('vfail')
        query_env.function([int], int, name='vfail')(vfail)


def _run_impl_raw(ops):
    table = impl.make_table('t', [('x', int)], [(i,) for i in range(8)])
    conn = impl.connection({'t': table})
    conn.cursor()  # an unrelated earlier cursor on the same connection
    curs = conn.cursor()
    other = conn.cursor()
    other.execute('SELECT x FROM #t')
    iters = []
    outs = []
    base = 0
    for o in ops:
        try:
            k = o[0]
            if k == 'execute':
                base += 10
                curs.execute(f'SELECT x + {base} AS x FROM #t WHERE x < {o[1]}')
                other.fetchone()
                r = [0]
            elif k == 'execfail':
                # parses and compiles, raises while the rows are evaluated (a harness function registered through the public
                # decorator raises on its first call); the unchanged cursor assigns its state only after execute_query returned
                _ensure_vfail()
                try:
                    curs.execute('SELECT vfail(x) AS x FROM #t')
                    r = [7]
                except (impl.beanquery.ParseError, impl.beanquery.CompilationError):
                    r = [8]
                except RuntimeError:
                    r = [6]
            elif k == 'fetchone':
                v = curs.fetchone()
                r = [0] if v is None else [1, v[0]]
            elif k == 'fetchmany':
                v = curs.fetchmany() if o[1] is None else curs.fetchmany(o[1])
                r = [2, [x[0] for x in v]]
            elif k == 'fetchall':
                r = [2, [x[0] for x in curs.fetchall()]]
            elif k == 'arraysize':
                curs.arraysize = o[1]
                r = [0]
            elif k == 'newiter':
                iters.append(iter(curs))
                r = [3, len(iters) - 1]
            elif k == 'next':
                try:
                    v = next(iters[o[1]])
                    r = [1, v[0]]
                except StopIteration:
                    r = [4]
            elif k == 'rowcount':
                r = [3, curs.rowcount]
            elif k == 'rownumber':
                r = [3, curs.rownumber]
            elif k == 'hasdesc':
                r = [5, 0 if curs.description is None else 1]
        except Exception as e:  # noqa: BLE001
            r = ['exception', type(e).__name__]
        outs.append(r)
    return outs


def run_impl(ops):
    """Outputs aligned with the model's: a failed execute (marker [6]) is NO step of the model (the cursor's state is assigned only
    after the query was evaluated), so its entry is dropped; an `execfail` that did not fail at evaluation time stays and mismatches."""
    return [r for o, r in zip(ops, _run_impl_raw(ops)) if not (o[0] == 'execfail' and r == [6])]


def model_expr(ops):
    items = []
    base = 0
    for o in ops:
        k = o[0]
        if k == 'execute':
            base += 10
            items.append('Execute ' + clist([cZ(base + i) for i in range(min(o[1], 8))]))
        elif k == 'fetchone':
            items.append('FetchOne')
        elif k == 'fetchmany':
            items.append('FetchMany ' + copt(o[1], cZ))
        elif k == 'fetchall':
            items.append('FetchAll')
        elif k == 'arraysize':
            items.append('SetArraysize ' + cZ(o[1]))
        elif k == 'newiter':
            items.append('NewIter')
        elif k == 'next':
            items.append(f'Next {o[1]}%nat')
        elif k == 'rowcount':
            items.append('RowCount')
        elif k == 'rownumber':
            items.append('RowNumber')
        elif k == 'hasdesc':
            items.append('HasDescription')
    return 'run_out ' + clist(items)


def show(ops):
    return ';'.join(o[0] + ('' if len(o) == 1 else f'({o[1]})') for o in ops)


def model_many(histories, tag='c10'):
    return core.coq_eval(tag, ['Model.Cursor'], [model_expr(h) for h in histories])


def disagree(ops):
    return run_impl(ops) != model_many([ops], tag='c10s')[0]


def disagree_many(cands):
    cands = [fix_handles(c) for c in cands]
    ms = model_many(cands, tag='c10s')
    return [run_impl(c) != m for c, m in zip(cands, ms)]


def gen_two(rng, n):
    """Histories over two result cursors obtained from conn.execute() (each execute returns a new result)."""
    ops = [(0, ('execute', rng.choice([2, 3, 4]))), (1, ('execute', rng.choice([1, 3, 5])))]
    for _ in range(n):
        k = rng.randrange(2)
        r = rng.random()
        if r < 0.3:
            ops.append((k, ('fetchone',)))
        elif r < 0.55:
            ops.append((k, ('fetchmany', rng.choice([None, 0, 1, 2]))))
        elif r < 0.65:
            ops.append((k, ('fetchall',)))
        elif r < 0.75:
            ops.append((k, ('rowcount',)))
        elif r < 0.85:
            ops.append((k, ('rownumber',)))
        elif r < 0.9:
            ops.append((k, ('hasdesc',)))
        else:
            ops.append((k, ('execute', rng.choice([0, 2, 4]))))
    return ops


def run_two_impl(ops):
    table = impl.make_table('t', [('x', int)], [(i,) for i in range(8)])
    conn = impl.connection({'t': table})
    curs = [None, None]
    base = [0, 100]
    outs = []
    for k, o in ops:
        try:
            if o[0] == 'execute':
                base[k] += 10
                curs[k] = conn.execute(f'SELECT x + {base[k]} AS x FROM #t WHERE x < {o[1]}')
                r = [0]
            elif o[0] == 'fetchone':
                v = curs[k].fetchone()
                r = [0] if v is None else [1, v[0]]
            elif o[0] == 'fetchmany':
                v = curs[k].fetchmany() if o[1] is None else curs[k].fetchmany(o[1])
                r = [2, [x[0] for x in v]]
            elif o[0] == 'fetchall':
                r = [2, [x[0] for x in curs[k].fetchall()]]
            elif o[0] == 'rowcount':
                r = [3, curs[k].rowcount]
            elif o[0] == 'rownumber':
                r = [3, curs[k].rownumber]
            else:
                r = [5, 0 if curs[k].description is None else 1]
        except Exception as e:  # noqa: BLE001
            r = ['exception', type(e).__name__]
        outs.append(r)
    return outs


def two_model_exprs(ops):
    """Each conn.execute() result is a fresh cursor: the model runs one independent cursor per result."""
    per = {0: [], 1: []}
    base = [0, 100]
    for k, o in ops:
        if o[0] == 'execute':
            base[k] += 10
            per[k].append('Execute ' + clist([cZ(base[k] + i) for i in range(min(o[1], 8))]))
        elif o[0] == 'fetchone':
            per[k].append('FetchOne')
        elif o[0] == 'fetchmany':
            per[k].append('FetchMany ' + copt(o[1], cZ))
        elif o[0] == 'fetchall':
            per[k].append('FetchAll')
        elif o[0] == 'rowcount':
            per[k].append('RowCount')
        elif o[0] == 'rownumber':
            per[k].append('RowNumber')
        else:
            per[k].append('HasDescription')
    return ['run_out ' + clist(per[0]), 'run_out ' + clist(per[1])]


def merge_two(ops, m0, m1):
    it = [iter(m0), iter(m1)]
    return [next(it[k]) for k, _ in ops]


def show_two(ops):
    return ';'.join(f'r{k}.' + o[0] + ('' if len(o) == 1 else f'({o[1]})') for k, o in ops)


def column_cases():
    """Column as a 7-item sequence: index, slice, len, iteration, equality."""
    conn = impl.connection({'t': impl.make_table('t', [('x', int), ('y', str)], [(1, 'a')])})
    curs = conn.execute('SELECT x, y FROM #t')
    col = curs.description[0]
    ref = (col.name, col.type_code, None, None, None, None, None)
    code = {id(None): 2}

    def enc(v):
        return 0 if v == 'x' and v is not None and v == col.name else (1 if v == col.type_code and v is not None else 2)
    exprs, impl_out, labels = [], [], []
    for i in range(-9, 10):
        exprs.append(f'index_out {cZ(i)}')
        labels.append(f'description[0][{i}]')
        try:
            impl_out.append([enc(col[i])])
        except IndexError:
            impl_out.append([])
        except Exception as e:  # noqa: BLE001
            impl_out.append(['exception', type(e).__name__])
    rng_vals = [None, -9, -8, -7, -3, -1, 0, 1, 2, 6, 7, 8]
    steps = [None, 1, 2, 3, -1, -2, 0]
    for a, b, s in itertools.product(rng_vals, rng_vals, steps):
        exprs.append(f'slice_out {copt(a, cZ)} {copt(b, cZ)} {copt(s, cZ)}')
        labels.append(f'description[0][{a}:{b}:{s}]')
        try:
            impl_out.append([[enc(v) for v in col[slice(a, b, s)]]])
        except ValueError:
            impl_out.append([])
        except Exception as e:  # noqa: BLE001
            impl_out.append(['exception', type(e).__name__])
    model = core.coq_eval('c10col', ['Model.Cursor'], exprs)
    bad = [(lab, i, m) for lab, i, m in zip(labels, impl_out, model) if i != m]
    # direct sequence facts (oracle = the 7-tuple the property names)
    direct = []
    try:
        if len(col) != 7:
            direct.append(('len(description[0])', len(col), 7))
        if tuple(iter(col)) != ref:
            direct.append(('tuple(iter(description[0]))', repr(tuple(iter(col))), repr(ref)))
        d2 = conn.execute('SELECT x, y FROM #t').description
        if not (d2[0] == col) or (d2[1] == col) or not (d2 == curs.description):
            direct.append(('description equality', 'mismatch', 'equal iff same name and type'))
        if col != ('x', int):
            direct.append(('Column == (name, type)', 'False', 'True'))
        if len(curs.description) != 2 or [c[0] for c in curs.description] != ['x', 'y']:
            direct.append(('description names', repr(curs.description), "['x','y']"))
        if [c[1] for c in curs.description] != [c.type_code for c in curs.description] or \
                curs.description[0][1] == curs.description[1][1]:
            direct.append(('type codes', '?', 'one per datatype'))
    except Exception as e:  # noqa: BLE001
        direct.append(('sequence protocol', repr(e), 'no exception'))
    return len(exprs) + 6, bad, direct


def run(tier, rng):
    violations = []
    n_hist = 1500 if tier == 'quick' else 12000
    maxlen = 12 if tier == 'quick' else 30
    hist = [gen_history(rng, maxlen) for _ in range(n_hist)]
    exhaustive = False
    if tier == 'thorough':
        # every history of length <= 4 after execute(2) over a compact alphabet
        alpha = [('fetchone',), ('fetchmany', None), ('fetchmany', 2), ('fetchmany', 0), ('fetchall',),
                 ('newiter',), ('next', 0), ('rowcount',), ('rownumber',), ('execute', 1), ('arraysize', 2)]
        for L in range(1, 5):
            for combo in itertools.product(alpha, repeat=L):
                h = fix_handles([('execute', 2)] + list(combo))
                hist.append(h)
        exhaustive = True
    # corpus of minimal histories first
    corpus = [
        [('execute', 2), ('fetchone',), ('rowcount',)],
        [('execute', 2), ('newiter',), ('next', 0), ('fetchone',)],
        [('execute', 3), ('fetchone',), ('newiter',), ('next', 0), ('rownumber',)],
        [('execute', 2), ('fetchall',), ('rowcount',), ('execute', 1), ('rownumber',), ('rowcount',)],
        [('rowcount',), ('fetchone',), ('fetchmany', None), ('fetchall',), ('hasdesc',)],
        # round 8 (seed C10-m15): an iterator advanced, the cursor re-executed, the OLD iterator advanced again
        [('execute', 4), ('newiter',), ('next', 0), ('execute', 3), ('next', 0), ('rownumber',), ('next', 0), ('fetchone',), ('next', 0)],
        [('execute', 2), ('newiter',), ('next', 0), ('next', 0), ('execute', 6), ('newiter',), ('next', 0), ('next', 1), ('next', 0), ('rownumber',)],
        # round 8 (seed C10-m16): partial fetch, an execute that raises during evaluation, the remaining rows
        [('execute', 4), ('fetchmany', 3), ('execfail',), ('rownumber',), ('rowcount',), ('fetchmany', 2), ('fetchone',), ('fetchall',), ('rownumber',)],
        [('execfail',), ('rowcount',), ('hasdesc',), ('fetchone',), ('execute', 3), ('fetchone',), ('execfail',), ('newiter',), ('next', 0), ('fetchall',), ('rownumber',), ('hasdesc',)],
    ]
    hist = corpus + hist
    impl_out = core.pmap(run_impl, hist)
    model_out = model_many(hist)
    distinct = set()
    nontrivial = 0
    kinds = {}
    for h, i, m in zip(hist, impl_out, model_out):
        key = show(h)
        if key not in distinct:
            distinct.add(key)
            if any(o[0] == 'execute' for o in h) and sum(o[0] in ('fetchone', 'fetchmany', 'fetchall', 'next') for o in h) >= 2:
                nontrivial += 1
        for o in h:
            kinds[o[0]] = kinds.get(o[0], 0) + 1
    seen_sig = set()
    for h, i, m in zip(hist, impl_out, model_out):
        if i != m:
            small = ddmin_batch(h, disagree_many) if len(seen_sig) < 3 else h
            small = fix_handles(small)
            sig = 'history:' + show(small)
            if sig in seen_sig:
                continue
            seen_sig.add(sig)
            violations.append(core.Violation(
                'cursor-history', f'cursor history {show(small)}: implementation {run_impl(small)} '
                f'but the DB-API model gives {model_many([small], tag="c10s")[0]}',
                {'history': small, 'impl': run_impl(small), 'model': model_many([small], tag='c10s')[0]},
                signature=sig))
            if len(seen_sig) >= 3:
                break
    # two live conn.execute() results
    two = [gen_two(rng, rng.randint(3, 10)) for _ in range(300 if tier == 'quick' else 3000)]
    two_impl = core.pmap(run_two_impl, two)
    flat = [e for t in two for e in two_model_exprs(t)]
    tm = core.coq_eval('c10two', ['Model.Cursor'], flat)
    for idx, (t, i) in enumerate(zip(two, two_impl)):
        m = merge_two(t, tm[2 * idx], tm[2 * idx + 1])
        if i != m and len(seen_sig) < 5:
            sig = 'two-results:' + show_two(t)
            seen_sig.add(sig)
            violations.append(core.Violation('two-live-results', f'two conn.execute() results used alternately {show_two(t)}: '
                                             f'implementation {i} but independent cursors give {m}',
                                             {'two': t, 'impl': i, 'model': m}, signature=sig))
    ncol, bad, direct = column_cases()
    for lab, i, m in bad[:1]:
        violations.append(core.Violation('column-sequence', f'{lab}: implementation {i}, 7-item sequence model {m}',
                                         {'expr': lab, 'impl': i, 'model': m, 'all_failing': [b[0] for b in bad][:50]},
                                         signature='column:' + ('slice' if ':' in lab else 'index')))
    for lab, got, want in direct:
        violations.append(core.Violation('column-sequence', f'{lab}: got {got}, expected {want}',
                                         {'expr': lab, 'got': got, 'expected': want}, signature='column:' + lab))
    cov = {
        'evaluations': len(hist) + ncol + len(two), 'two_live_result_histories': len(two),
        'distinct_nontrivial': nontrivial,
        'rule': 'random call histories (one PRNG) over execute/fetchone/fetchmany(n|default)/fetchall/arraysize/'
                'iter/next/rowcount/rownumber/description, plus (thorough) every history of length<=4 over an '
                '11-op alphabet after execute(2); non-trivial = distinct history with an execute and >=2 delivering calls; '
                'Column: every index -9..9 and every slice over 12x12x7 start/stop/step values',
        'samples': [show(h) for h in hist[5:11]],
        'traces_validated_against_impl': len(hist),
        'op_histogram': kinds,
        'column_cases': ncol,
        'exhaustive': exhaustive,
    }
    return {'coverage': cov, 'violations': violations}


def replay(rec):
    if 'history' in rec:
        h = [tuple(o) for o in rec['history']]
        return not disagree(h)
    ncol, bad, direct = column_cases()
    return not bad and not direct


def generate():
    """translator tie: regenerate coq/Gen/SrcCursor.v from the source of the imported code (py2mini)"""
    from . import gen_src
    out = gen_src.generate('cursor')
    out.update(gen_src.generate('column'))      # bld-misc: Column.__getitem__ with the subscript primitive
    return out
