"""C17: numberify. Correspondence: beanquery.numberify.numberify_results on generated result
tables holding real beancount Amount / Position / Inventory objects versus
Model/Numberify.v `numberify_out` on the same table (names, datatypes and every cell;
Decimals compared by as_tuple, i.e. sign, coefficient AND exponent)."""
import datetime
import decimal

from . import core, impl, values
from .core import cZ, clist, cbool, cpair, cstr
from .shrink import ddmin_batch

from beancount.core.amount import Amount
from beancount.core.position import Position, Cost
from beancount.core.inventory import Inventory
from beancount.core import display_context
import beanquery
from beanquery import numberify as bq_numberify

D = decimal.Decimal

ASSUMPTIONS = [
    'tables are well typed: every row has one cell per column; a cell of an Amount/Position/Inventory column is None or an '
    'instance of that datatype (anything else raises in Python; the model answers None and is not compared)',
    'Amount numbers are finite Decimals (never None/MISSING, NaN, Infinity); coefficients and sums stay far below the context '
    'precision of 28 digits, so Decimal addition is exact (generated: |coefficient| < 10^7, exponent in -6..3, <= 6 lots)',
    'the formatter is seen only through dformat.quantize(number, currency); in the theorems it is an arbitrary function; in the '
    'correspondence it is a real beancount DisplayContext().build() and the model uses Decimal.quantize(10^-digits, ROUND_HALF_EVEN) '
    'with the digits the harness fed to the DisplayContext (currency unknown to the context: number unchanged); '
    'quantized coefficients stay below the digits+12 precision limit of DisplayContext.quantize',
    'an Inventory is modelled by the list of its positions (dict values); currencies() is a set whose iteration order is '
    'hash dependent: proved irrelevant (C17_census_order_irrelevant)',
    'str comparison of currency names = lexicographic comparison of code points',
    'translator tie (C17_source_*): coq/Gen/SrcNumberify.v is regenerated from the source of beanquery/numberify.py on every '
    'run (harness/vf/src_numberify.py, rules R1-R8 of its docstring: truth values of objects, `continue`, defaultdict(int), '
    '`m[k] += v`, lambdas as synthetic functions, tuple-pattern comprehensions, calls of local names, CONVERTING_TYPES.get as '
    'generated data); trusted there: the PyMini semantics of the fragment (Model/PyMini.v), the encoding of Amount / Position / '
    'Inventory / Column / converter objects and the stated behaviour of every primitive in Model/PrimsNumberify.v (Amount.__bool__, '
    'Inventory.get_currency_units / currencies, dformat.quantize, defaultdict, sorted with an (int, str) key, str.format for the one '
    'template, calling an object = interpreting the translated __call__ of its class), and that calling a converter class / Column '
    'builds the object whose fields __init__ assigns (ctors_ok; the __init__ bodies themselves are translated and tied)',
]


def generate():
    """translator tie: regenerate coq/Gen/SrcNumberify.v from the source of the imported beanquery.numberify (py2mini +
    src_numberify); raises py2mini.Untranslatable when a tied function left the fragment (reported as translator-failed)"""
    from . import gen_src
    return gen_src.generate('numberify')


PLAIN = {'int': int, 'decimal': D, 'str': str, 'date': datetime.date, 'bool': bool}
PLAIN_CODE = {int: 0, D: 1, str: 2, datetime.date: 3, bool: 4}
AMOUNTLIKE = {'Amount': Amount, 'Position': Position, 'Inventory': Inventory}
DT_COQ = {'Amount': 'DAmount', 'Position': 'DPosition', 'Inventory': 'DInventory'}
DT_CODE = {Amount: 100, Position: 101, Inventory: 102}

CURRENCIES = ['USD', 'EUR', 'AAPL', 'JPY', 'US', 'USDX', 'A', 'CAD', 'Z']
NUMBERS = [D(s) for s in ('0', '0.00', '-0', '1', '1.5', '-1.5', '2.50', '100', '1E+2', '0.001', '0.005', '0.015', '0.025',
                          '-0.004', '3.333', '7E-4', '12345.678', '-2', '0.5', '-0.5', '2.5', '3.5', '1E+3', '-1.50', '10.00')]
NAMES = ['a', 'b', 'balance', 'sum(position)', 'x (USD)', 'p', '']


# ---------------------------------------------------------------- case representation
# A case is JSON-able:
#   cols: [(name, kind)]  kind in PLAIN or AMOUNTLIKE
#   rows: [[cell]]  cell: None | ['v', plain-json] | ['A', num, cur] | ['P', num, cur, cost|None] | ['I', [[num, cur, cost|None]...], raw]
#     cost = [num, cur, 'YYYY-MM-DD'];  raw=True builds the Inventory straight from a dict (keeps zero lots)
#   fmt: None | {'table': [(cur, [digits...], fixed)], 'precision': 'MOST_COMMON'|'MAXIMUM'}

def gen_number(rng):
    if rng.random() < 0.75:
        return str(rng.choice(NUMBERS))
    coef = rng.randint(-99999, 99999)
    return str(D(coef).scaleb(rng.randint(-4, 2)))


def gen_cost(rng, curs):
    if rng.random() < 0.4:
        return None
    return [str(rng.choice([D('10'), D('20'), D('10.5'), D('1')])), rng.choice(curs),
            datetime.date(2020, 1, rng.randint(1, 3)).isoformat()]


def gen_cell(rng, kind, curs, null_p):
    if rng.random() < null_p:
        return None
    if kind in PLAIN:
        v = values.gen_value(rng, PLAIN[kind], 0)
        return ['v', v.isoformat() if isinstance(v, datetime.date) else str(v) if isinstance(v, D) else v]
    cur = lambda: '' if rng.random() < 0.02 else rng.choice(curs)  # noqa: E731
    if kind == 'Amount':
        return ['A', gen_number(rng), cur()]
    if kind == 'Position':
        return ['P', gen_number(rng), cur(), gen_cost(rng, curs)]
    n = rng.choice([0, 0, 1, 1, 2, 2, 3, 4, 6])
    lots = []
    for _ in range(n):
        if lots and rng.random() < 0.35:
            # another lot of a currency already there (different or equal cost), sometimes cancelling it
            num, c, _ = rng.choice(lots)
            if rng.random() < 0.4:
                num = str(-D(num))
            else:
                num = gen_number(rng)
            lots.append([num, c, gen_cost(rng, curs)])
        else:
            lots.append([gen_number(rng), cur(), gen_cost(rng, curs)])
    return ['I', lots, rng.random() < 0.15]


def gen_case(rng):
    ncur = rng.randint(1, 4)
    curs = rng.sample(CURRENCIES, ncur)
    ncols = rng.randint(1, 5)
    cols = []
    for _ in range(ncols):
        kind = rng.choice(list(PLAIN)) if rng.random() < 0.35 else rng.choice(list(AMOUNTLIKE))
        cols.append((rng.choice(NAMES), kind))
    nrows = rng.randint(0, 6)
    null_p = rng.choice([0.0, 0.1, 0.25, 0.5])
    rows = [[gen_cell(rng, k, curs, null_p) for _, k in cols] for _ in range(nrows)]
    fmt = None
    if rng.random() < 0.6:
        table = []
        for c in curs + ['']:
            if rng.random() < 0.75:
                if rng.random() < 0.3:
                    table.append((c, [rng.randint(0, 4)], True))
                else:
                    table.append((c, [rng.randint(0, 4) for _ in range(rng.choice([1, 1, 2, 3]))], False))
        fmt = {'table': table, 'precision': rng.choice(['MOST_COMMON', 'MOST_COMMON', 'MAXIMUM'])}
    return {'cols': cols, 'rows': rows, 'fmt': fmt}


# ---------------------------------------------------------------- implementation side
def mk_cost(c):
    return None if c is None else Cost(D(c[0]), c[1], datetime.date.fromisoformat(c[2]), None)


def mk_cell(cell, kind):
    if cell is None:
        return None
    tag = cell[0]
    if tag == 'v':
        v = cell[1]
        if kind == 'decimal':
            return D(v)
        if kind == 'date':
            return datetime.date.fromisoformat(v)
        return v
    if tag == 'A':
        return Amount(D(cell[1]), cell[2])
    if tag == 'P':
        return Position(Amount(D(cell[1]), cell[2]), mk_cost(cell[3]))
    lots, raw = cell[1], cell[2]
    if raw:
        d = {}
        for num, cur, cost in lots:
            k = (cur, mk_cost(cost))
            d[k] = Position(Amount(D(num), cur), k[1])
        return Inventory(d)
    inv = Inventory()
    for num, cur, cost in lots:
        inv.add_amount(Amount(D(num), cur), mk_cost(cost))
    return inv


def fmt_digits(fmt):
    """Digits per currency the harness expects the DisplayContext to use (independent of beancount)."""
    out = []
    for cur, ds, fixed in fmt['table']:
        if fixed or fmt['precision'] == 'MAXIMUM':
            out.append((cur, max(ds) if not fixed else ds[0]))
        else:
            # most common; beancount breaks ties by ... keep ties out: use the first mode only if unique
            best = max(set(ds), key=lambda d: (ds.count(d), 0))
            out.append((cur, best))
    return out


def _normalise_fmt(fmt):
    """Remove ambiguous most-common ties from a generated table (keeps the harness independent of
    how beancount breaks them)."""
    if fmt is None:
        return None
    table = []
    for cur, ds, fixed in fmt['table']:
        ds = list(ds)
        if not fixed and fmt['precision'] != 'MAXIMUM':
            cnt = {d: ds.count(d) for d in ds}
            top = max(cnt.values())
            if sum(1 for v in cnt.values() if v == top) > 1:
                ds = ds[:1]
        table.append((cur, ds, fixed))
    return {'table': table, 'precision': fmt['precision']}


def mk_dformat(fmt):
    if fmt is None:
        return None
    dc = display_context.DisplayContext()
    for cur, ds, fixed in fmt['table']:
        if fixed:
            dc.set_fixed_precision(cur, ds[0])
        else:
            for d in ds:
                dc.update(D(1).scaleb(-d) * 7, cur)
    return dc.build(precision=getattr(display_context.Precision, fmt['precision']))


def build(case):
    desc = tuple(beanquery.Column(n, PLAIN.get(k) or AMOUNTLIKE[k]) for n, k in case['cols'])
    rows = [[mk_cell(c, k) for c, (_, k) in zip(r, case['cols'])] for r in case['rows']]
    return desc, rows, mk_dformat(case['fmt'])


def dtype_code(t):
    return PLAIN_CODE.get(t, DT_CODE.get(t, -1))


def run_impl(case):
    if 'ledger' in case:
        return ledger_run_impl(case)
    desc, rows, dformat = build(case)
    try:
        otypes, orows = bq_numberify.numberify_results(desc, rows, dformat)
    except Exception as e:  # noqa: BLE001
        return ['exception', type(e).__name__, str(e)[:200]]
    return [[[[[ord(ch) for ch in c.name], dtype_code(c.datatype)] for c in otypes],
             [[canon_cell(v) for v in r] for r in orows]]]


def canon_cell(v):
    if isinstance(v, Amount):
        return [100]
    if isinstance(v, Position):
        return [101]
    if isinstance(v, Inventory):
        return [102]
    return values.canon(v)


# ---------------------------------------------------------------- model side
def cdec(d):
    s, digits, e = d.as_tuple()
    assert isinstance(e, int), d
    return f'(mkdec {cbool(bool(s))} {int("".join(map(str, digits))) if digits else 0} {cZ(e)})'


def camt(a):
    return f'(mkamt {cdec(a.number)} {cstr(a.currency)})'


def cpos(p):
    c = p.cost
    cc = 'None' if c is None else f'(Some (mkcost {cdec(c.number)} {cstr(c.currency)} {c.date.toordinal()}))'
    return f'(mkpos {camt(p.units)} {cc})'


def ccell(v):
    """Gallina literal for an implementation-side cell (the objects actually passed to numberify)."""
    if isinstance(v, Amount):
        return f'(CAmount {camt(v)})'
    if isinstance(v, Position):
        return f'(CPosition {cpos(v)})'
    if isinstance(v, Inventory):
        return '(CInventory ' + clist([cpos(p) for p in v]) + ')'
    return f'(CPlain {values.to_coq(v)})'


def model_expr_raw(cols, rows, digits):
    """cols: [(name, kind)], rows: python objects as passed to numberify_results, digits: None | [(cur, n)]"""
    ccols = clist([cpair(cstr(n), DT_COQ.get(k) or f'(DPlain {PLAIN_CODE[PLAIN[k]]})') for n, k in cols])
    crow = clist([clist([ccell(v) for v in r]) for r in rows])
    fmt = 'None' if digits is None else '(Some ' + clist([cpair(cstr(c), cZ(d)) for c, d in digits]) + ')'
    return f'numberify_out {fmt} {ccols} {crow}'


def model_expr(case):
    if 'ledger' in case:
        return ledger_model_expr(case)
    _, rows, _ = build(case)
    return model_expr_raw(case['cols'], rows, None if case['fmt'] is None else fmt_digits(case['fmt']))


def model_many(cases, tag='c17'):
    return core.coq_eval(tag, ['Base.PyValue', 'Model.Numberify'], [model_expr(c) for c in cases], shard=150)


# ---------------------------------------------------------------- end to end: beanquery.query.run_query(numberify=True)
LEDGER_DIGITS = {'USD': 2, 'EUR': 2, 'JPY': 0, 'AAPL': 0, 'GOOG': 0}
QUERIES = [
    'SELECT account, sum(position) AS s GROUP BY account',
    'SELECT date, account, position, balance',
    'SELECT account, units(sum(position)) AS u, cost(sum(position)) AS c GROUP BY 1',
    'SELECT account, filter_currency(balance, cost_currency) AS b, weight',
    'SELECT year, sum(weight) AS w, count(*) AS n GROUP BY year ORDER BY year',
    'SELECT account, number, units(position) AS u, cost(position) AS c WHERE currency != "USD"',
    'SELECT payee, first(balance) AS f, last(balance) AS l GROUP BY payee',
]


def gen_ledger(rng):
    accts = ['Assets:Cash', 'Assets:Inv', 'Equity:Open', 'Expenses:Food', 'Income:Job']
    lines = [f'2019-01-01 open {a}' for a in accts]
    # four 2-digit USD numbers first, so that the most common USD precision stays 2 when the
    # odd 4-digit transaction below is present (its numbers must then come out quantized)
    lines += ['2019-06-01 * "p0" "seed"', '  Assets:Cash  100.00 USD', '  Equity:Open  -100.00 USD',
              '2019-06-02 * "p1" "seed"', '  Assets:Cash  1.50 USD', '  Income:Job  -1.50 USD']
    if rng.random() < 0.6:
        n = D(rng.randint(1, 99999)).scaleb(-4)
        lines += ['2019-07-01 * "p2" "odd precision"', f'  Expenses:Food  {n} USD', f'  Assets:Cash  {-n} USD']
    for k in range(rng.randint(1, 6)):
        date = datetime.date(2020, 1, 1) + datetime.timedelta(days=40 * k + rng.randint(0, 30))
        kind = rng.random()
        a, b = rng.sample(accts, 2)
        lines.append(f'{date.isoformat()} * "p{rng.randint(0, 2)}" "t{k}"')
        if kind < 0.4:
            cur = rng.choice(['USD', 'EUR', 'JPY'])
            d = LEDGER_DIGITS[cur]
            n = D(rng.randint(1, 99999)).scaleb(-d)
            lines += [f'  {a}  {n} {cur}', f'  {b}  {-n} {cur}']
        elif kind < 0.75:
            stock = rng.choice(['AAPL', 'GOOG'])
            units = rng.randint(1, 9)
            price = D(rng.randint(100, 9999)).scaleb(-2)
            lines += [f'  Assets:Inv  {units} {stock} {{{price} USD}}', f'  Assets:Cash  {-(units * price)} USD']
        else:
            n1 = D(rng.randint(1, 9999)).scaleb(-2)
            n2 = D(rng.randint(1, 99999))
            lines += [f'  {a}  {n1} USD', f'  {a}  {n2} JPY', f'  {b}  {-n1} USD', f'  {b}  {-n2} JPY']
    return '\n'.join(lines) + '\n'


def gen_ledger_case(rng):
    return {'ledger': gen_ledger(rng), 'query': rng.choice(QUERIES)}


_KIND_OF = {Amount: 'Amount', Position: 'Position', Inventory: 'Inventory', int: 'int', D: 'decimal', str: 'str',
            datetime.date: 'date', bool: 'bool'}


def _ledger_load(case):
    from beancount import loader
    entries, errors, options = loader.load_string(case['ledger'])
    assert not errors, errors
    return entries, options


def ledger_run_impl(case):
    from beanquery import query as bq_query
    entries, options = _ledger_load(case)
    try:
        otypes, orows = bq_query.run_query(entries, options, case['query'], numberify=True)
    except Exception as e:  # noqa: BLE001
        return ['exception', type(e).__name__, str(e)[:200]]
    return [[[[[ord(ch) for ch in c.name], dtype_code(c.datatype)] for c in otypes],
             [[canon_cell(v) for v in r] for r in orows]]]


def ledger_model_expr(case):
    """Model applied to the un-numberified result of the same query; digits as written in the ledger."""
    from beanquery import query as bq_query
    entries, options = _ledger_load(case)
    types, rows = bq_query.run_query(entries, options, case['query'], numberify=False)
    cols = [(c.name, _KIND_OF[c.datatype]) for c in types]
    used = [(c, n) for c, n in LEDGER_DIGITS.items() if f' {c}' in case['ledger']]
    return model_expr_raw(cols, [list(r) for r in rows], used)


# ---------------------------------------------------------------- exhaustive small family
def exhaustive_cases():
    """One amount-like column, 3 rows, every assignment of a small cell alphabet (census counts
    0..3 per currency, all tie patterns among the names US < USD < USDX and EUR), with and
    without a formatter."""
    import itertools
    out = []
    amt = [None, ['A', '1', 'USD'], ['A', '0', 'USD'], ['A', '2.5', 'US'], ['A', '-1', 'EUR'], ['A', '1', 'USDX']]
    pos = [None, ['P', '1', 'USD', None], ['P', '0', 'USD', None], ['P', '2.5', 'US', ['10', 'USD', '2020-01-01']],
           ['P', '-1', 'EUR', None], ['P', '1', 'USDX', None]]
    c1, c2 = ['10', 'USD', '2020-01-01'], ['20', 'USD', '2020-01-02']
    inv = [None, ['I', [], False], ['I', [['1', 'USD', None]], False], ['I', [['2.5', 'US', None]], False],
           ['I', [['1', 'USD', None], ['2', 'US', c1]], False], ['I', [['1', 'US', c1], ['2', 'US', c2]], False],
           ['I', [['5', 'EUR', c1], ['-5', 'EUR', c2], ['1', 'USDX', None]], False],
           ['I', [['0', 'USD', None], ['1', 'EUR', None]], True]]
    fmts = [None, {'table': [('USD', [2], False), ('US', [0], True)], 'precision': 'MOST_COMMON'}]
    for kind, alphabet in (('Amount', amt), ('Position', pos), ('Inventory', inv)):
        for cells in itertools.product(alphabet, repeat=3):
            for fmt in fmts:
                out.append({'cols': [('n', 'int'), ('x', kind)],
                            'rows': [[['v', i], c] for i, c in enumerate(cells)], 'fmt': fmt})
    return out


# ---------------------------------------------------------------- shrinking
def _with(case, **kw):
    c = dict(case)
    c.update(kw)
    return c


def shrink(case):
    if 'ledger' in case:
        return case

    def fails_many(cs):
        ms = model_many(cs, tag='c17s')
        return [run_impl(c) != m for c, m in zip(cs, ms)]

    if case['fmt'] is not None and fails_many([_with(case, fmt=None)])[0]:
        case = _with(case, fmt=None)
    if len(case['rows']) >= 2:
        rows = ddmin_batch(case['rows'], lambda cands: fails_many([_with(case, rows=r) for r in cands]))
        case = _with(case, rows=rows)
    if len(case['cols']) >= 2:
        idx = list(range(len(case['cols'])))

        def proj(ix):
            return _with(case, cols=[case['cols'][i] for i in ix], rows=[[r[i] for i in ix] for r in case['rows']])
        keep = ddmin_batch(idx, lambda cands: fails_many([proj(ix) for ix in cands]))
        case = proj(keep)
    # shrink the lots of inventories
    for ri, r in enumerate(case['rows']):
        for ci, cell in enumerate(r):
            if cell is not None and cell[0] == 'I' and len(cell[1]) >= 1:
                def with_lots(lots, ri=ri, ci=ci, cell=cell):
                    rows = [list(x) for x in case['rows']]
                    rows[ri][ci] = ['I', lots, cell[2]]
                    return _with(case, rows=rows)
                if fails_many([with_lots([])])[0]:
                    case = with_lots([])
                elif len(cell[1]) >= 2:
                    lots = ddmin_batch(cell[1], lambda cands: fails_many([with_lots(l) for l in cands]))
                    case = with_lots(lots)
    return case


def signature(case):
    if 'ledger' in case:
        return 'numberify-run_query:' + case['query'] + ' ledger=' + repr(case['ledger'])
    return 'numberify:cols=' + repr([tuple(c) for c in case['cols']]) + ' rows=' + repr(case['rows']) + \
        ' fmt=' + repr(case['fmt'])


CORPUS = [
    # the shape of numberify_test: amounts of several currencies
    {'cols': [('pos', 'Amount')], 'rows': [[['A', '100', 'USD']], [['A', '200', 'EUR']], [['A', '1.5', 'USD']], [None]], 'fmt': None},
    # NULL in each amount-like datatype (D9: filter_currency(balance, cost_currency) is NULL)
    {'cols': [('a', 'Amount')], 'rows': [[None]], 'fmt': None},
    {'cols': [('p', 'Position')], 'rows': [[None]], 'fmt': None},
    {'cols': [('balance', 'Inventory')], 'rows': [[None]], 'fmt': None},
    # two lots of one currency, a cancelling pair, a zero lot kept by a raw dict
    {'cols': [('d', 'date'), ('balance', 'Inventory'), ('n', 'int')],
     'rows': [[['v', '2020-01-01'], ['I', [['5', 'AAPL', ['10', 'USD', '2020-01-01']], ['2.5', 'AAPL', ['20', 'USD', '2020-01-02']],
                                          ['1E+2', 'USD', None]], False], ['v', 1]],
              [None, ['I', [['5', 'AAPL', ['10', 'USD', '2020-01-01']], ['-5', 'AAPL', ['20', 'USD', '2020-01-02']]], False], None],
              [['v', '2020-01-02'], ['I', [['0', 'JPY', None]], True], ['v', 3]],
              [['v', '2020-01-02'], ['I', [], False], ['v', 4]]],
     'fmt': {'table': [('USD', [2], False), ('AAPL', [0], True)], 'precision': 'MOST_COMMON'}},
    # census ties: equal counts ordered by name descending; prefixes
    {'cols': [('a', 'Amount')], 'rows': [[['A', '1', 'US']], [['A', '1', 'USD']], [['A', '1', 'USDX']], [['A', '1', 'A']]], 'fmt': None},
    # zero amount / zero position; quantize to zero in an inventory
    {'cols': [('a', 'Amount'), ('p', 'Position'), ('i', 'Inventory')],
     'rows': [[['A', '0.00', 'USD'], ['P', '0.00', 'USD', None], ['I', [['0.001', 'USD', None]], False]]],
     'fmt': {'table': [('USD', [2], False)], 'precision': 'MOST_COMMON'}},
]


def run(tier, rng):
    n = 2000 if tier == 'quick' else 30000
    nq = 40 if tier == 'quick' else 400
    ex = exhaustive_cases()
    cases = [dict(c) for c in CORPUS] + [gen_case(rng) for _ in range(n)] + ex
    for c in cases:
        c['fmt'] = _normalise_fmt(c['fmt'])
    ledger_cases = [gen_ledger_case(rng) for _ in range(nq)]
    impl_out = core.pmap(run_impl, cases) + core.pmap(run_impl, ledger_cases)
    model_out = model_many(cases + ledger_cases)
    ntable = len(cases)
    cases = cases + ledger_cases

    hist = {'column_kinds': {}, 'nrows': {}, 'ncols': {}, 'currencies_per_amountlike_column': {}, 'lots_per_inventory': {},
            'formatter': {'none': 0, 'MOST_COMMON': 0, 'MAXIMUM': 0},
            'null_cells_in_amountlike': {'Amount': 0, 'Position': 0, 'Inventory': 0},
            'empty_inventories': 0, 'inventories_with_repeated_currency': 0, 'inventory_currency_total_zero': 0,
            'zero_amounts': 0, 'zero_positions': 0, 'census_count_ties': 0, 'output_null_cells': 0, 'output_decimal_cells': 0,
            'cells_changed_by_quantize': 0, 'impl_exceptions': {}}
    distinct, nontrivial = set(), 0
    hist['run_query_numberify'] = {'cases': len(ledger_cases), 'by_query': {}, 'raised': 0}
    for c, i in zip(cases[ntable:], impl_out[ntable:]):
        h = hist['run_query_numberify']
        h['by_query'][c['query']] = h['by_query'].get(c['query'], 0) + 1
        h['raised'] += (i and i[0] == 'exception')
    for c, i in zip(cases[:ntable], impl_out[:ntable]):
        key = signature(c)
        if key in distinct:
            continue
        distinct.add(key)
        desc, rows, _ = build(c)
        hist['nrows'][len(rows)] = hist['nrows'].get(len(rows), 0) + 1
        hist['ncols'][len(desc)] = hist['ncols'].get(len(desc), 0) + 1
        hist['formatter'][c['fmt']['precision'] if c['fmt'] else 'none'] += 1
        amountlike = False
        for j, (_, k) in enumerate(c['cols']):
            hist['column_kinds'][k] = hist['column_kinds'].get(k, 0) + 1
            if k not in AMOUNTLIKE:
                continue
            amountlike = True
            counts = {}
            for r in rows:
                v = r[j]
                if v is None:
                    hist['null_cells_in_amountlike'][k] += 1
                    continue
                if k == 'Amount':
                    cs = [v.currency]
                    hist['zero_amounts'] += (v.number == 0)
                elif k == 'Position':
                    cs = [v.units.currency]
                    hist['zero_positions'] += (v.units.number == 0)
                else:
                    lots = list(v)
                    hist['lots_per_inventory'][len(lots)] = hist['lots_per_inventory'].get(len(lots), 0) + 1
                    hist['empty_inventories'] += (len(lots) == 0)
                    cs = [p.units.currency for p in lots]
                    hist['inventories_with_repeated_currency'] += (len(set(cs)) < len(cs))
                    for cu in set(cs):
                        hist['inventory_currency_total_zero'] += (sum(p.units.number for p in lots if p.units.currency == cu) == 0)
                for cu in set(cs):
                    counts[cu] = counts.get(cu, 0) + 1
            nc = len(counts)
            h = hist['currencies_per_amountlike_column']
            h[nc] = h.get(nc, 0) + 1
            hist['census_count_ties'] += (len(set(counts.values())) < len(counts))
        if isinstance(i, list) and i and i[0] == 'exception':
            hist['impl_exceptions'][i[1]] = hist['impl_exceptions'].get(i[1], 0) + 1
        else:
            for r in i[0][1]:
                for v in r:
                    hist['output_null_cells'] += (v == [0])
                    hist['output_decimal_cells'] += (v[0] == 3)
            if amountlike and rows:
                nontrivial += 1
    # how often does the formatter actually change a number (compare with the unformatted run)
    fmt_cases = [c for c in cases[:400] if 'ledger' not in c and c['fmt'] is not None]
    for c in fmt_cases:
        a, b = run_impl(c), run_impl(_with(c, fmt=None))
        if a != b:
            hist['cells_changed_by_quantize'] += 1

    violations, seen = [], set()
    for c, i, m in zip(cases, impl_out, model_out):
        if i != m:
            small = shrink(c) if len(seen) < 3 else c
            sig = signature(small)
            if sig in seen:
                continue
            seen.add(sig)
            si, sm = run_impl(small), model_many([small], tag='c17s')[0]
            violations.append(core.Violation(
                'numberify-differs',
                (f'run_query(numberify=True) {small["query"]!r} on ledger {small["ledger"]!r}: ' if 'ledger' in small else
                 f'numberify_results on columns {small["cols"]} rows {small["rows"]} formatter {small["fmt"]}: ') +
                f'implementation {describe(si)} ; model (units per currency) {describe(sm)}',
                {'case': small, 'impl': si, 'model': sm}, signature=sig))
            if len(seen) >= 3:
                break
    cov = {
        'evaluations': len(cases), 'distinct_nontrivial': nontrivial,
        'rule': 'random result tables: 1-5 columns (35% plain int/decimal/str/date/bool, else Amount/Position/Inventory; names incl. '
                'duplicates, empty, "x (USD)"), 0-6 rows, 1-4 currencies out of 9 (prefix-related names; 2% empty currency), NULL '
                'probability 0/0.1/0.25/0.5, inventories of 0-6 lots built by add_amount (repeated currencies with different/equal '
                'costs, cancelling lots) or 15% straight from a dict (zero lots kept), numbers from a pool with zeros, -0, exponents '
                '>0, half-way cases, or random; 60% with a real DisplayContext formatter (per currency: unknown / update()s / fixed '
                'precision, MOST_COMMON or MAXIMUM) ; plus a fixed corpus; plus EXHAUSTIVELY every 3-row table over a cell alphabet of 6 '
                '(Amount, Position) / 8 (Inventory) cells x {no formatter, formatter} (1888 tables, all census count/tie patterns '
                'over US<USD<USDX, EUR); plus end-to-end: beanquery.query.run_query(numberify=True) on generated ledgers x 7 '
                'queries against the model applied to the un-numberified result with the digits written in the ledger. Compared: output names, datatypes, every cell (Decimal by '
                'as_tuple). non-trivial = distinct cases with >=1 row and >=1 amount-like column that did not raise',
        'samples': [signature(c)[:400] for c in cases[len(CORPUS):len(CORPUS) + 4]] + [signature(c)[:400] for c in ledger_cases[:1]],
        'traces_validated_against_impl': len(cases),
        'histograms': hist, 'exhaustive': True, 'exhaustive_family_size': len(ex),
    }
    return {'coverage': cov, 'violations': violations}


def describe(res):
    if res == []:
        return 'raises (ill-typed table)'
    if res and res[0] == 'exception':
        return f'raises {res[1]}: {res[2]}'
    cols, rows = res[0]
    names = [''.join(map(chr, c[0])) for c in cols]
    return f'columns {names} rows {rows}'


def replay(rec):
    c = rec['case']
    if 'ledger' in c:
        return run_impl(c) == model_many([c], tag='c17s')[0]
    c['cols'] = [tuple(x) for x in c['cols']]
    if c['fmt'] is not None:
        c['fmt']['table'] = [tuple(x) for x in c['fmt']['table']]
    return run_impl(c) == model_many([c], tag='c17s')[0]
