"""Translator-based tie of the EXPRESSION-level typing path of the compiler (bld-compiler4): group `exprs` ->
coq/Gen/SrcExprs.v, owned by c04.py's generate() hook (see harness/PYMINI.md).

Translated on every run from the source of the IMPORTED beanquery.compiler (the handlers Compiler._compile dispatches
the AST classes to, found through the live singledispatch registry):

    compile_unaryop   Compiler._unaryop      compile_between   Compiler._between
    compile_binaryop  Compiler._binaryop     compile_function  Compiler._function      compile_inop  Compiler._inop

ExprTranslator extends src_compiler.SelectTranslator (rules R1-R9, K1-K14; K12 = state threading of `self.table`) by
rules that map a Python construct to a PyMini term built from the EXISTING constructors; what the primitives mean is
fixed in coq/Model/PrimsExprs.v (trusted, documented there):

X1 a call `f(a, ..)` of a LOCAL name or of the RESULT of a call (the class selected from the registry, the node just
   constructed, `function_lookup(..)(context, [x])`)  -> XPrim "apply" [f; a; ..]         (NumTranslator's R7)
X2 the registries OPERATORS / FUNCTIONS of beanquery.query_compile in value position (identified by IDENTITY with the
   live dicts)                    -> XPrim "global:beanquery.query_compile.OPERATORS" []  (resp. FUNCTIONS)
X3 `x = [self.m(e) for v in it]`, m a state-changing method (K12), as a whole assignment statement
                                  -> x = []; for $c in it: self.table, $e = self.m(self.table, e[v := $c]); x.append($e)
   (the comprehension variable is renamed to the reserved `$c`, so no name of the function is bound by the rewriting)
X4 `while True: BODY` followed by the statements AFTER, as the last statements of the function body, where every path
   through BODY ends in return / raise / continue / break (falling off the end of BODY = continue): unrolled
   UNROLL = 3 times.  `continue` is replaced by the next pass, `break` by AFTER, and a `continue` of the last pass by
   SExpr (XPrim "unroll:exhausted" []), a primitive NO primitive semantics defines (= Stuck).  An `if` one of whose
   branches contains a break / continue of this loop takes the rest of the pass into both branches.  That the guard is
   unreachable - the loop ends within three passes - is a theorem about the code (C04_source_binaryop_terminates): it
   rests on the casts of the registry never returning `object`.  No decreasing measure is checked structurally: the
   measure here (the number of untyped operands) depends on what the cast functions announce.
X5 `return self.m(a)`, m state-changing -> self.table, $r = self.m(self.table, a); return $r
X6 raise E(f'..{a}..{b}..'[, node]) -> as R1, the leading text being the TEMPLATE of the f-string: its constant parts
   with `{}` for every interpolation (three messages of this path start with the same constant `operator "`).

Everything else fails closed with py2mini.Untranslatable."""
import ast

from . import py2mini
from .py2mini import Untranslatable, glist, gstr
from .src_api import qualname
from .src_compiler import SelectTranslator, PRIMS_SELECT, _handler, _translate, threading_info

UNROLL = 3

PRIMS_EXPRS = PRIMS_SELECT + ('beanquery.query_compile.EvalConstant', 'beanquery.query_compile.EvalCoalesce',
                              'beanquery.parser.ast.Function', 'beanquery.parser.ast.Attribute')


def _has_loop_exit(stmts):
    """does a break / continue belonging to the ENCLOSING loop occur in these statements?"""
    for s in stmts:
        if isinstance(s, (ast.Break, ast.Continue)):
            return True
        if isinstance(s, ast.If) and (_has_loop_exit(s.body) or _has_loop_exit(s.orelse)):
            return True
        if isinstance(s, (ast.Try, ast.With)):
            raise Untranslatable('try / with inside `while True`')
    return False


class ExprTranslator(SelectTranslator):
    def registry_name(self, e):
        """X2"""
        if isinstance(e, ast.Name) and e.id not in self.locals and e.id not in self.alias:
            from beanquery import query_compile as qc
            try:
                obj = self.resolve_free(e.id)
            except Untranslatable:
                return None
            if obj is qc.OPERATORS:
                return 'beanquery.query_compile.OPERATORS'
            if obj is qc.FUNCTIONS:
                return 'beanquery.query_compile.FUNCTIONS'
        return None

    def expr(self, e):
        reg = self.registry_name(e)
        if reg is not None:                                                                            # X2
            return f'(XPrim {gstr("global:" + reg)} [])'
        if isinstance(e, ast.Call) and not e.keywords and not any(isinstance(a, ast.Starred) for a in e.args) \
                and ((isinstance(e.func, ast.Name) and e.func.id in self.locals and e.func.id not in self.alias)
                     or isinstance(e.func, ast.Call)):                                                 # X1
            return f'(XPrim "apply" {glist([self.expr(e.func)] + [self.expr(a) for a in e.args])})'
        return super().expr(e)

    # ------------------------------------------------------------------ statements
    def items(self, body):
        """the translated statements of a block, as a list (X4 at its end)"""
        out = []
        body = list(body)
        for i, s in enumerate(body):
            if i == 0 and isinstance(s, ast.Expr) and isinstance(s.value, ast.Constant) \
                    and isinstance(s.value.value, str):
                continue
            if isinstance(s, ast.While):                                                               # X4
                if not (isinstance(s.test, ast.Constant) and s.test.value is True) or s.orelse:
                    raise Untranslatable('while loop other than `while True:` without else')
                if self.in_loop or getattr(self, 'depth', 0) != 0:
                    raise Untranslatable('`while True` that is not at the top level of the function body')
                self.unrolled = getattr(self, 'unrolled', 0) + 1
                return out + self.passes(list(s.body), body[i + 1:], UNROLL)
            if self.in_loop and isinstance(s, ast.If) and not s.orelse and s.body \
                    and isinstance(s.body[-1], ast.Continue):                                          # K7
                rest = body[i + 1:]
                out.append(f'(SIf {self.expr(s.test)} {self.block(s.body[:-1])} {self.block(rest)})')
                return out
            out.append(self.stmt(s))
        return out

    def block(self, body):
        return glist(self.items(body))

    def nested(self, body):
        self.depth = getattr(self, 'depth', 0) + 1
        try:
            return self.items(body)
        finally:
            self.depth -= 1

    def passes(self, loop_body, after, n):
        """X4: the statements of one pass through `loop_body` with n passes left (this one included)"""
        def cont():
            if n <= 1:
                return ['(SExpr (XPrim "unroll:exhausted" []))']
            return self.passes(loop_body, after, n - 1)

        def go(stmts):
            if not stmts:
                return cont()
            s, rest = stmts[0], stmts[1:]
            if isinstance(s, ast.Continue):
                return cont()
            if isinstance(s, ast.Break):
                return self.nested(after)
            if isinstance(s, (ast.Return, ast.Raise)):
                return [self.stmt(s)]
            if isinstance(s, ast.While):
                raise Untranslatable('nested while')
            if isinstance(s, ast.If) and (_has_loop_exit(s.body) or _has_loop_exit(s.orelse)):
                return [f'(SIf {self.expr(s.test)} {glist(go(list(s.body) + rest))} {glist(go(list(s.orelse) + rest))})']
            self.depth = getattr(self, 'depth', 0) + 1
            try:
                head = self.stmt(s)
            finally:
                self.depth -= 1
            return [head] + go(rest)

        return go(list(loop_body))

    def stmt(self, s):
        if isinstance(s, ast.If):
            # keep track of the nesting depth so that X4 is only admitted at the top level
            self.depth = getattr(self, 'depth', 0) + 1
            try:
                return f'(SIf {self.expr(s.test)} {self.block(s.body)} {self.block(s.orelse)})'
            finally:
                self.depth -= 1
        if isinstance(s, ast.Assign) and len(s.targets) == 1 and isinstance(s.targets[0], ast.Name) \
                and isinstance(s.value, ast.ListComp) and len(s.value.generators) == 1 \
                and self.threaded_call(s.value.elt):                                                   # X3
            g = s.value.generators[0]
            if g.ifs or g.is_async or not isinstance(g.target, ast.Name):
                raise Untranslatable('comprehension over a state-changing method with a condition / pattern')
            if any(self.threaded_call(n) for a in s.value.elt.args for n in ast.walk(a)):
                raise Untranslatable('nested state-changing calls')
            x = self.target(s.targets[0])
            it = self.expr(g.iter)
            self.locals.update({'$c', '$e'})
            saved = dict(self.alias)
            self.alias[g.target.id] = '(XName "$c")'
            try:
                call = self.thread(s.value.elt, '(TName "$e")')
            finally:
                self.alias = saved
            return (f'(SAssign {x} (XList [])); (SFor "$c" {it} [{call}; '
                    f'(SExpr (XMethod {x} "append" [(XName "$e")]))])')
        if isinstance(s, ast.Return) and s.value is not None and self.threaded_call(s.value):           # X5
            self.locals.add('$r')
            return self.thread(s.value, '(TName "$r")') + '; (SReturn (Some (XName "$r")))'
        if isinstance(s, ast.Raise) and isinstance(s.exc, ast.Call) and 1 <= len(s.exc.args) <= 2 \
                and not s.exc.keywords and s.cause is None and isinstance(s.exc.args[0], ast.JoinedStr):  # X6
            if len(s.exc.args) == 2 and not isinstance(s.exc.args[1], (ast.Name, ast.Attribute)):
                raise Untranslatable('raise E(msg, <expression>)')
            m = s.exc.args[0]
            template = ''.join(v.value if isinstance(v, ast.Constant) else '{}' for v in m.values)
            cls = qualname(self.static(s.exc.func))
            return f'(SExpr (XPrim "raise" [{self.strconst(cls)}; {self.strconst(template)}; {self.expr(m)}]))'
        return super().stmt(s)


class ExprGroup:
    """spec items: (coq_name, function object, origin)"""
    info = {}

    @staticmethod
    def translate_all(spec, prims=()):
        import inspect
        from beanquery import compiler
        state, threaded = threading_info(compiler.Compiler)
        ExprTranslator.STATE, ExprTranslator.THREADED = tuple(state), frozenset(threaded)
        refs = py2mini.Refs()
        defs, info, unrolled = [], {}, []
        for name, fn, origin in spec:
            try:
                tr = ExprTranslator(fn, refs, prims=prims)
                term, defaults = _translate(tr)
            except Untranslatable as e:
                raise Untranslatable(f'{origin}: {e}') from e
            defs.append((name, origin + '; parameters: ' + ', '.join(tr.params), term, defaults))
            info[name] = {'origin': origin, 'lines': len(inspect.getsource(fn).splitlines())}
            if getattr(tr, 'unrolled', 0):
                unrolled.append(name)
        ExprGroup.info = {'state': list(state), 'unrolled': unrolled, 'passes': UNROLL}
        text = py2mini.render(defs, refs)
        text += ('\n(* K12: attributes of the compiler threaded through the calls on self (src_compiler.threading_info on the '
                 'live class) *)\n'
                 'Definition threaded_state : list string := ' + glist([gstr(a) for a in state]) + '.\n'
                 '(* X4: the functions whose `while True:` was unrolled, and the number of passes *)\n'
                 'Definition unrolled_functions : list string := ' + glist([gstr(a) for a in unrolled]) + '.\n'
                 f'Definition unroll_passes : nat := {UNROLL}.\n')
        return text, info


def spec_exprs():
    from beanquery import compiler
    K = compiler.Compiler
    a = compiler.ast
    h_in, h_notin = _handler(K, a.In, '_inop'), _handler(K, a.NotIn, '_inop')
    if h_in is not h_notin:
        raise Untranslatable('ast.In and ast.NotIn are not compiled by the same handler')
    return [
        ('compile_unaryop', _handler(K, a.UnaryOp, '_unaryop'), 'beanquery.compiler.Compiler._unaryop'),
        ('compile_between', _handler(K, a.Between, '_between'), 'beanquery.compiler.Compiler._between'),
        ('compile_inop', h_in, 'beanquery.compiler.Compiler._inop (the handler of ast.In and ast.NotIn)'),
        ('compile_binaryop', _handler(K, a.BinaryOp, '_binaryop'), 'beanquery.compiler.Compiler._binaryop'),
        ('compile_function', _handler(K, a.Function, '_function'), 'beanquery.compiler.Compiler._function'),
    ]


def register(groups):
    groups['exprs'] = ('SrcExprs.v', spec_exprs, {'translator': ExprGroup, 'prims': PRIMS_EXPRS})
