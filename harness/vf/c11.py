"""C11: the Beancount tables (entries, postings, typed directive tables, accounts,
commodities) present the loaded directives faithfully and completely.

Correspondence: ledgers are produced two ways -- (a) beancount.core.data directives
constructed directly and attached with the public API
(beanquery.connect('beancount:', entries=..., errors=..., options=...)), (b) ledger
text written under /tmp/C11 and loaded by the Beancount loader
(beanquery.connect('beancount:<file>')).  The entries the connection holds are
serialised to a Gallina ledger literal; `SELECT <every column> FROM #<every table>`,
the metadata function family and ORDER BY on typed tables are run on the
implementation and compared cell for cell with Model/Tables.v (vm_compute)."""
import base64
import datetime
import decimal
import os
import pickle
import re
import shutil
import traceback

from . import core, impl, gen_registry
from .core import cZ, clist, cbool, copt
from .shrink import ddmin_batch

import beanquery  # noqa: E402
from beancount.core import data, amount, position, inventory  # noqa: E402
from beancount.core.compare import hash_entry  # noqa: E402
from beancount.parser import options as bc_options  # noqa: E402
from beancount.parser.grammar import ValueType  # noqa: E402

D = decimal.Decimal
EXTRA_TARGETS = ['Proofs/RegistryTie.vo']
TMP = '/tmp/C11/ledgers'

ASSUMPTIONS = [
    'tie by translation, group envledger (C11_source_open_date .. C11_source_any_meta, Gen/SrcEnvLedger.v): dict.get and attribute reads on directives are the primitives of Model/PrimsEnvLedger.v / PrimsLedger.v; context.tables[\'accounts\'].accounts and [\'commodities\'].commodities are parameters holding the dicts the model builds (accounts_iter, commodities_dict); getitem operands are opaque children; that the compiler rewrites meta/entry_meta/any_meta into these getitem forms is checked by the correspondence run, not by the translation',
    'the property starts from the entries the connection holds: Beancount\'s parser, booking, padding and '
    'validation (upstream of the tables) are not modelled; text ledgers only diversify the inputs',
    'the id column is compared against beancount.core.compare.hash_entry of the row\'s own directive, carried '
    'into the model as data (MD5 is not modelled): the check shows the id is that of the right directive',
    'balance: the model yields the list of positions (units, cost) of the rows up to the current one; their '
    'aggregation into an Inventory is done with beancount\'s Inventory.add_amount on both sides (inventory '
    'arithmetic is property C12); balance is compared on queries without WHERE',
    'Decimal values are compared exactly (sign, coefficient, exponent of as_tuple()), weight uses the bit-exact '
    'Decimal multiplication of Base/Decimal.v (prec 28, ROUND_HALF_EVEN); sets are compared as sorted lists; '
    'dates as ordinals; Amount/Cost/Position/directives as tuples of their fields; Custom.values are not modelled '
    '(no table exposes them)',
    'bulk comparison is per (table, column): a 48-bit multiplicative hash (Tables.hash_out, same function in the '
    'harness) of the column\'s canonical cells, the exception kind when the column raises, balance cell by cell; a '
    'differing column is re-run with the cell-by-cell output (run_all_out) to locate and report the row',
    'what a statement with FROM OPEN/CLOSE/CLEAR qualifiers itself returns (BeanTable.prepare -> summarize) is '
    'property C13 and is not compared here; such statements are only run between two readings of the tables, which '
    'must not depend on the statements executed before on the connection',
    'other_accounts excludes the posting by object identity in the code and by position in the model: ledgers '
    'never hold the same Posting object twice in one transaction (equal-valued distinct postings are generated)',
    'translator tie (C11_source_*): PyMini semantics (Model/PyMini.v), the translator (py2mini.py, src_ledger.py: '
    '`x.a = v` on a local is a functional update, so a yielded Row is the Row AT THE YIELD) and the primitives of '
    'Model/PrimsLedger.v (objects as attribute lists, isinstance = class identity, Row(...) = row0) are trusted; '
    'self.prepare() is opaque (returns the entries; C13); the namedtuple field names/order of the encoding are '
    'checked against the imported Beancount classes on every run',
]

TABLE_ORDER = ['entries', 'postings', 'transactions', 'prices', 'balances', 'notes', 'events', 'documents',
               'accounts', 'commodities']
ERR = {1: 'KeyError', 2: 'ValueError', 3: 'AttributeError'}

# --------------------------------------------------------------------------
# canonical nested-list form of implementation values (= parse_sexp of Tables.o_cell)

def c_str(s):
    assert isinstance(s, str), repr(s)
    return [ord(c) for c in s]


def c_dec(d):
    assert isinstance(d, D) and d.is_finite(), repr(d)
    s, digits, e = d.as_tuple()
    return [int(bool(s)), int(''.join(map(str, digits))) if digits else 0, e]


def c_opt(f, v):
    return [] if v is None else [f(v)]


def c_amount(a):
    assert isinstance(a, amount.Amount), repr(a)
    return [c_dec(a.number), c_str(a.currency)]


def c_cost(c):
    assert isinstance(c, position.Cost), repr(c)
    return [c_dec(c.number), c_str(c.currency), c_opt(lambda d: d.toordinal(), c.date), c_opt(c_str, c.label)]


def c_strs(l):
    return [c_str(x) for x in l]


def c_set(s):
    return c_strs(sorted(s))


def c_tol(d):
    return [[c_str(k), c_dec(v)] for k, v in d.items()]


def c_mvalue(v):
    if v is None:
        return [0]
    if isinstance(v, bool):
        return [6, int(v)]
    if isinstance(v, str):
        return [2, c_str(v)]
    if isinstance(v, int):
        return [3, v]
    if isinstance(v, D):
        return [5, c_dec(v)]
    if isinstance(v, datetime.date):
        return [4, v.toordinal()]
    if isinstance(v, amount.Amount):
        return [9, c_amount(v)]
    if isinstance(v, dict):
        return [12, c_tol(v)]
    return ['unmodelled-metadata-value', type(v).__name__, repr(v)]


def c_meta(m):
    return [[c_str(k), c_mvalue(v)] for k, v in m.items()]


def c_posting(p):
    return [c_str(p.account), c_amount(p.units), c_opt(c_cost, p.cost), c_opt(c_amount, p.price),
            c_opt(c_str, p.flag), c_opt(c_meta, p.meta)]


def booking_str(b):
    return b if isinstance(b, str) else b.value


KIND = {data.Transaction: 0, data.Open: 1, data.Close: 2, data.Commodity: 3, data.Pad: 4, data.Balance: 5,
        data.Note: 6, data.Event: 7, data.Query: 8, data.Price: 9, data.Document: 10, data.Custom: 11}


def c_oset(s):
    return c_opt(c_set, s)


def c_directive(e):
    k = KIND[type(e)]
    head = [k, c_str(hash_entry(e)), c_meta(e.meta), e.date.toordinal()]
    if k == 0:
        return head + [c_opt(c_str, e.flag), c_opt(c_str, e.payee), c_opt(c_str, e.narration), c_set(e.tags),
                       c_set(e.links), [c_posting(p) for p in e.postings]]
    if k == 1:
        return head + [c_str(e.account), c_opt(c_strs, e.currencies), c_opt(lambda b: c_str(booking_str(b)), e.booking)]
    if k == 2:
        return head + [c_str(e.account)]
    if k == 3:
        return head + [c_str(e.currency)]
    if k == 4:
        return head + [c_str(e.account), c_str(e.source_account)]
    if k == 5:
        return head + [c_str(e.account), c_amount(e.amount), c_opt(c_dec, e.tolerance), c_opt(c_amount, e.diff_amount)]
    if k == 6:
        return head + [c_str(e.account), c_str(e.comment), c_oset(e.tags), c_oset(e.links)]
    if k == 7:
        return head + [c_str(e.type), c_str(e.description)]
    if k == 8:
        return head + [c_str(e.name), c_str(e.query_string)]
    if k == 9:
        return head + [c_str(e.currency), c_amount(e.amount)]
    if k == 10:
        return head + [c_str(e.account), c_str(e.filename), c_oset(e.tags), c_oset(e.links)]
    return head + [c_str(e.type)]


def inv_canon(inv):
    return sorted([c_amount(p.units), c_opt(c_cost, p.cost)] for p in inv)


def c_cell(v, dictkind=11):
    """An implementation result cell -> the list form of Tables.o_cell."""
    if v is None:
        return [0]
    if isinstance(v, bool):
        return [6, int(v)]
    if isinstance(v, str):
        return [2, c_str(v)]
    if isinstance(v, int):
        return [3, v]
    if isinstance(v, D):
        return [5, c_dec(v)]
    if isinstance(v, datetime.date):
        return [4, v.toordinal()]
    if isinstance(v, (set, frozenset)):
        return [7, c_set(v)]
    if isinstance(v, list):
        return [8, c_strs(v)]
    if isinstance(v, amount.Amount):
        return [9, c_amount(v)]
    if isinstance(v, position.Position):
        return [10, c_amount(v.units), c_opt(c_cost, v.cost)]
    if isinstance(v, inventory.Inventory):
        return [14, inv_canon(v)]
    if isinstance(v, dict):
        return [11, c_meta(v)] if dictkind == 11 else [12, c_tol(v)]
    if type(v) in KIND:
        return [13, c_directive(v)]
    return ['unmodelled-cell', type(v).__name__, repr(v)]


def d_dec(l):
    s, c, e = l
    return D((s, tuple(int(x) for x in str(c)), e))


def d_str(l):
    return ''.join(chr(c) for c in l)


def d_amount(l):
    return amount.Amount(d_dec(l[0]), d_str(l[1]))


def d_cost(l):
    return position.Cost(d_dec(l[0]), d_str(l[1]), datetime.date.fromordinal(l[2][0]) if l[2] else None,
                         d_str(l[3][0]) if l[3] else None)


def model_cell_canon(c):
    """Model cell -> comparable form: the running balance (list of positions) is summed into an
    Inventory by beancount, as the implementation's context.balance is."""
    if isinstance(c, list) and c and c[0] == 14:
        inv = inventory.Inventory()
        for u, co in c[1]:
            inv.add_amount(d_amount(u), d_cost(co[0]) if co else None)
        return [14, inv_canon(inv)]
    return c


# --------------------------------------------------------------------------
# entries -> Gallina ledger literal (strings interned in a let-prelude)

class Interner:
    def __init__(self):
        self.names = {}
        self.defs = []

    def s(self, text):
        assert isinstance(text, str), repr(text)
        n = self.names.get(text)
        if n is None:
            n = f's{len(self.names)}'
            self.names[text] = n
            body = clist([str(ord(c)) for c in text]) if text else '(@nil Z)'
            self.defs.append(f'Definition {n} : list Z := {body}.')
        return n


def g_dec(d):
    s, c, e = c_dec(d)
    return f'(mkdec {cbool(s)} {c} {cZ(e)})'


def g_amount(a, I):
    return f'(mkamount {g_dec(a.number)} {I.s(a.currency)})'


def g_cost(c, I):
    assert isinstance(c, position.Cost), repr(c)
    return (f'(mkcost {g_dec(c.number)} {I.s(c.currency)} {copt(c.date, lambda d: str(d.toordinal()))} '
            f'{copt(c.label, I.s)})')


def g_mvalue(v, I):
    if v is None:
        return 'MNone'
    if isinstance(v, bool):
        return f'(MBool {cbool(v)})'
    if isinstance(v, str):
        return f'(MStr {I.s(v)})'
    if isinstance(v, int):
        return f'(MInt {cZ(v)})'
    if isinstance(v, D):
        return f'(MDec {g_dec(v)})'
    if isinstance(v, datetime.date):
        return f'(MDate {v.toordinal()})'
    if isinstance(v, amount.Amount):
        return f'(MAmount {g_amount(v, I)})'
    if isinstance(v, dict):
        return '(MTol ' + clist([f'({I.s(k)}, {g_dec(x)})' for k, x in v.items()]) + ')'
    raise TypeError(f'metadata value of a type the model does not have: {v!r}')


def g_meta(m, I):
    return clist([f'({I.s(k)}, {g_mvalue(v, I)})' for k, v in m.items()])


def g_strs(l, I):
    return clist([I.s(x) for x in l])


def g_posting(p, I):
    return (f'(mkposting {I.s(p.account)} {g_amount(p.units, I)} {copt(p.cost, lambda c: g_cost(c, I))} '
            f'{copt(p.price, lambda a: g_amount(a, I))} {copt(p.flag, I.s)} {copt(p.meta, lambda m: g_meta(m, I))})')


def g_oset(s, I):
    return copt(s, lambda x: g_strs(sorted(x), I))


def g_directive(e, I):
    k = KIND[type(e)]
    head = f'{I.s(hash_entry(e))} {g_meta(e.meta, I)} {e.date.toordinal()}'
    if k == 0:
        return (f'(Transaction {head} {copt(e.flag, I.s)} {copt(e.payee, I.s)} {copt(e.narration, I.s)} '
                f'{g_strs(sorted(e.tags), I)} {g_strs(sorted(e.links), I)} '
                f'{clist([g_posting(p, I) for p in e.postings])})')
    if k == 1:
        return (f'(Open {head} {I.s(e.account)} {copt(e.currencies, lambda l: g_strs(l, I))} '
                f'{copt(e.booking, lambda b: I.s(booking_str(b)))})')
    if k == 2:
        return f'(Close {head} {I.s(e.account)})'
    if k == 3:
        return f'(Commodity {head} {I.s(e.currency)})'
    if k == 4:
        return f'(Pad {head} {I.s(e.account)} {I.s(e.source_account)})'
    if k == 5:
        return (f'(Balance {head} {I.s(e.account)} {g_amount(e.amount, I)} {copt(e.tolerance, g_dec)} '
                f'{copt(e.diff_amount, lambda a: g_amount(a, I))})')
    if k == 6:
        return f'(Note {head} {I.s(e.account)} {I.s(e.comment)} {g_oset(e.tags, I)} {g_oset(e.links, I)})'
    if k == 7:
        return f'(Event {head} {I.s(e.type)} {I.s(e.description)})'
    if k == 8:
        return f'(Query {head} {I.s(e.name)} {I.s(e.query_string)})'
    if k == 9:
        return f'(Price {head} {I.s(e.currency)} {g_amount(e.amount, I)})'
    if k == 10:
        return f'(Document {head} {I.s(e.account)} {I.s(e.filename)} {g_oset(e.tags, I)} {g_oset(e.links, I)})'
    return f'(Custom {head} {I.s(e.type)})'


def model_expr(entries, keys):
    """-> (definitions, ledger and keys): the interned strings become top-level definitions."""
    I = Interner()
    ds = [g_directive(e, I) for e in entries]
    ks = [I.s(k) for k in keys]
    return (I.defs, clist(ds) + ' ' + clist(ks))


def _big_stack():
    import resource
    soft, hard = resource.getrlimit(resource.RLIMIT_STACK)
    resource.setrlimit(resource.RLIMIT_STACK, (hard, hard))


def _run_shard(args):
    import re
    import subprocess
    path, n = args
    p = subprocess.run(['timeout', '1200', 'coqc', '-Q', core.COQ, 'Verif'] + core.COQ_WARN + [path],
                       stdout=subprocess.PIPE, stderr=subprocess.PIPE, text=True, preexec_fn=_big_stack)
    if p.returncode != 0:
        raise RuntimeError(f'coqc failed on {path}:\n{p.stdout[-1000:]}\n{p.stderr[-3000:]}')
    res = re.findall(r'^\s*= "([^"]*)"\s*$', p.stdout, re.M)
    if len(res) != n:
        raise RuntimeError(f'{path}: expected {n} results, got {len(res)}')
    return [core.parse_sexp(r) for r in res]


def coq_eval_ledgers(tag, exprs, fn, shard=6):
    """Like core.coq_eval, for (definitions, expression) pairs; the long result strings need a deep
    native stack in coqc (the S-expression of a ledger's tables is tens of thousands of characters)."""
    from concurrent.futures import ThreadPoolExecutor
    if not exprs:
        return []
    d = os.path.join(core.BUILD, 'cases', tag)
    shutil.rmtree(d, ignore_errors=True)
    os.makedirs(d)
    hdr = core.HEADER.format(imports='\n'.join(f'From Verif Require Import {i}.' for i in
                                               ['Base.PyValue', 'Model.Ledger', 'Model.Tables']))
    jobs = []
    for k in range(0, len(exprs), shard):
        part = exprs[k:k + shard]
        path = os.path.join(d, f'cases_{k // shard:04d}.v')
        with open(path, 'w') as f:
            f.write(hdr)
            for i, (defs, e) in enumerate(part):
                f.write(f'Module C{i}.\n')
                for dd in defs:
                    f.write(dd + '\n')
                f.write(f'Eval vm_compute in show ({fn} {e}).\nEnd C{i}.\n')
        jobs.append((path, len(part)))
    with ThreadPoolExecutor(core.NCPU) as ex:
        parts = list(ex.map(_run_shard, jobs))
    shutil.rmtree(d, ignore_errors=True)
    return [r for p in parts for r in p]


# --------------------------------------------------------------------------
# generators

ACCOUNTS = ['Assets:Cash', 'Assets:Bank', 'Expenses:Food', 'Income:Job', 'Equity:Open', 'Liabilities:Card',
            'Assets:Inv']
CURRENCIES = ['USD', 'EUR', 'HOOL', 'CAD']
NUMBERS = [D('100.00'), D('-10.5'), D('0'), D('-0.0'), D('1E+2'), D('1.234567890123456789'), D('3.333'), D('7'),
           D('-42.10'), D('12345678901234567890.123456789'), D('0.00000001'), D('2'), D('5.00')]
TEXTS = ['', 'Payee', 'Lunch | dinner', 'Café ☕', 'a "quoted" one', 'x', 'Groceries', ' | ']
TAGS = ['trip', 'food', 'a-tag', 'Z']
LINKS = ['inv-1', 'inv-2', 'ref']
MKEYS = ['kk', 'note', 'ref', 'amt', 'dd', 'flag-k', 'filename', 'lineno']
LOOKUP = ['kk', 'note', 'ref', 'amt', 'dd', 'nokey', 'filename', 'lineno', '__tolerances__']
FLAGS = ['*', '!', 'P', 'S']


def gen_date(rng):
    r = rng.random()
    if r < 0.1:
        return rng.choice([datetime.date(2020, 2, 29), datetime.date(2019, 12, 31), datetime.date(2020, 1, 1),
                           datetime.date(2000, 2, 29), datetime.date(1900, 3, 1), datetime.date(2100, 12, 31),
                           datetime.date(1970, 1, 1)])
    if r < 0.15:
        return datetime.date.fromordinal(rng.randint(1, 3652059))
    return datetime.date(rng.randint(1990, 2030), rng.randint(1, 12), rng.randint(1, 28))


def gen_mvalue(rng):
    r = rng.randrange(9)
    if r == 0:
        return None
    if r == 1:
        return rng.choice(TEXTS)
    if r == 2:
        return rng.choice(NUMBERS)
    if r == 3:
        return gen_date(rng)
    if r == 4:
        return rng.random() < 0.5
    if r == 5:
        return amount.Amount(rng.choice(NUMBERS), rng.choice(CURRENCIES))
    if r == 6:
        return rng.choice(ACCOUNTS)
    if r == 7:
        return rng.randint(-3, 1000)
    return rng.choice(TAGS + CURRENCIES)


def gen_meta(rng, lineno, fn, sloppy):
    m = {}
    if not (sloppy and rng.random() < 0.3):
        m['filename'] = fn
    if not (sloppy and rng.random() < 0.3):
        m['lineno'] = lineno
    for _ in range(rng.choice([0, 0, 1, 1, 2, 4])):
        k = rng.choice(MKEYS[:6])
        m[k] = gen_mvalue(rng)
    if rng.random() < 0.1:
        m['__tolerances__'] = {c: rng.choice(NUMBERS) for c in rng.sample(CURRENCIES, rng.randint(0, 2))}
    return m


def gen_amount(rng):
    return amount.Amount(rng.choice(NUMBERS), rng.choice(CURRENCIES))


def gen_posting(rng, lineno, fn, sloppy):
    cost = None
    if rng.random() < 0.35:
        cost = position.Cost(rng.choice(NUMBERS), rng.choice(CURRENCIES),
                             gen_date(rng) if rng.random() < 0.8 else None,
                             rng.choice([None, None, 'lot-1', '']))
    price = gen_amount(rng) if rng.random() < 0.3 else None
    r = rng.random()
    meta = None if r < 0.3 else gen_meta(rng, lineno, fn, sloppy)
    return data.Posting(rng.choice(ACCOUNTS), gen_amount(rng), cost, price, rng.choice([None, None, '!', '*']), meta)


def gen_oset(rng, pool):
    r = rng.random()
    if r < 0.2:
        return None
    return frozenset(rng.sample(pool, rng.randint(0, len(pool))))


def gen_constructed(rng):
    """Directives built directly from beancount.core.data, in arbitrary (not date) order."""
    fn = rng.choice(['/tmp/C11/x.beancount', '<string>', 'a b.bean'])
    sloppy = rng.random() < 0.06     # some metadata dicts lack filename/lineno (KeyError cases)
    n = rng.choice([0, 1, 2, 3, 5, 8, 12, 16])
    entries = []
    for i in range(n):
        lineno = rng.randint(1, 500)
        meta = gen_meta(rng, lineno, fn, sloppy)
        date = gen_date(rng)
        r = rng.random()
        if r < 0.42:
            np_ = rng.choice([0, 1, 1, 2, 2, 2, 3, 4, 6])
            ps = [gen_posting(rng, lineno + j + 1, fn, sloppy) for j in range(np_)]
            if ps and rng.random() < 0.25:      # an equal-valued (not identical) twin posting
                ps.insert(rng.randrange(len(ps) + 1), data.Posting(*rng.choice(ps)))
            entries.append(data.Transaction(
                meta, date, rng.choice(FLAGS + [None] if rng.random() < 0.1 else FLAGS),
                rng.choice([None, None] + TEXTS), rng.choice(TEXTS + [None] if rng.random() < 0.1 else TEXTS),
                frozenset(rng.sample(TAGS, rng.randint(0, 3))), frozenset(rng.sample(LINKS, rng.randint(0, 2))), ps))
        elif r < 0.54:
            entries.append(data.Open(meta, date, rng.choice(ACCOUNTS),
                                     rng.choice([None, [], ['USD'], ['USD', 'EUR']]),
                                     rng.choice([None, None, data.Booking.STRICT, data.Booking.FIFO])))
        elif r < 0.62:
            entries.append(data.Close(meta, date, rng.choice(ACCOUNTS)))
        elif r < 0.70:
            entries.append(data.Commodity(meta, date, rng.choice(CURRENCIES)))
        elif r < 0.73:
            entries.append(data.Pad(meta, date, rng.choice(ACCOUNTS), rng.choice(ACCOUNTS)))
        elif r < 0.79:
            entries.append(data.Balance(meta, date, rng.choice(ACCOUNTS), gen_amount(rng),
                                        rng.choice([None, D('0.01'), D('0')]),
                                        rng.choice([None, None, gen_amount(rng)])))
        elif r < 0.85:
            entries.append(data.Note(meta, date, rng.choice(ACCOUNTS), rng.choice(TEXTS), gen_oset(rng, TAGS),
                                     gen_oset(rng, LINKS)))
        elif r < 0.89:
            entries.append(data.Event(meta, date, rng.choice(['location', 'employer', 'x']), rng.choice(TEXTS)))
        elif r < 0.91:
            entries.append(data.Query(meta, date, rng.choice(['q1', 'q2']), 'SELECT 1'))
        elif r < 0.95:
            entries.append(data.Price(meta, date, rng.choice(CURRENCIES), gen_amount(rng)))
        elif r < 0.985:
            entries.append(data.Document(meta, date, rng.choice(ACCOUNTS), rng.choice(['/d/a.pdf', '/d/b.pdf', 'z']),
                                         gen_oset(rng, TAGS), gen_oset(rng, LINKS)))
        else:
            entries.append(data.Custom(meta, date, 'budget', [ValueType('x', str)]))
    # legal duplicates: a second directive with the SAME key fields (date, account / commodity pair / event type ...)
    # as an earlier one, elsewhere in the list: every directive of the ledger has its own row in its table
    if entries and rng.random() < 0.55:
        for _ in range(rng.choice([1, 1, 2, 3])):
            e = rng.choice(entries)
            entries.insert(rng.randrange(len(entries) + 1), gen_twin(rng, e, fn, sloppy))
    return entries


def gen_twin(rng, e, fn, sloppy):
    """A directive with the same date and key fields as `e` (same account, same commodity and quote currency, same
    event type, same document ...); metadata and the non-key value (number of a price / balance, comment of a note,
    description of an event) are sometimes different, sometimes equal (an equal-valued, not identical, directive)."""
    meta = gen_meta(rng, rng.randint(1, 500), fn, sloppy) if rng.random() < 0.7 else dict(e.meta)
    same = rng.random() < 0.4
    if isinstance(e, data.Price) and not same:
        return e._replace(meta=meta, amount=amount.Amount(rng.choice(NUMBERS), e.amount.currency))
    if isinstance(e, data.Balance) and not same:
        return e._replace(meta=meta, amount=amount.Amount(rng.choice(NUMBERS), e.amount.currency))
    if isinstance(e, data.Note) and not same:
        return e._replace(meta=meta, comment=rng.choice(TEXTS))
    if isinstance(e, data.Event) and not same:
        return e._replace(meta=meta, description=rng.choice(TEXTS))
    if isinstance(e, data.Transaction) and not same:
        return e._replace(meta=meta, postings=list(e.postings))
    return e._replace(meta=meta)


def q(s):
    return '"' + s.replace('\\', '\\\\').replace('"', '\\"') + '"'


def t_mvalue(rng):
    r = rng.randrange(9)
    if r == 0:
        return ''
    if r == 1:
        return q(rng.choice(TEXTS))
    if r == 2:
        return format(rng.choice(NUMBERS[:5] + NUMBERS[6:9]), 'f')
    if r == 3:
        return datetime.date(rng.randint(1990, 2030), rng.randint(1, 12), rng.randint(1, 28)).isoformat()
    if r == 4:
        return rng.choice(['TRUE', 'FALSE'])
    if r == 5:
        return f'{format(rng.choice(NUMBERS[6:9]), "f")} {rng.choice(CURRENCIES)}'
    if r == 6:
        return rng.choice(ACCOUNTS)
    if r == 7:
        return '#' + rng.choice(TAGS)
    return rng.choice(CURRENCIES)


def t_meta(rng, indent):
    out = []
    keys = rng.sample(MKEYS[:6], rng.choice([0, 0, 1, 2, 3]))
    for k in keys:
        out.append(f'{indent}{k}: {t_mvalue(rng)}')
    return out


def tnum(rng):
    return format(rng.choice([D('100.00'), D('10.5'), D('3.333'), D('7'), D('42.10'), D('2'), D('5.00'), D('0.5')]), 'f')


def gen_text(rng):
    """Ledger text for the Beancount loader: opens, commodities with metadata, pad + balance,
    transactions with costs / prices / tags / links / metadata of every kind, and the other directives."""
    lines = ['option "operating_currency" "USD"']
    if rng.random() < 0.3:
        lines.append('option "title" "C11"')
    y = 2019
    opened = rng.sample(ACCOUNTS, rng.randint(3, len(ACCOUNTS)))
    for c in rng.sample(CURRENCIES, rng.randint(0, 4)):
        lines.append(f'{y}-01-01 commodity {c}')
        lines += t_meta(rng, '  ')
        if rng.random() < 0.15:
            lines.append(f'{y}-01-02 commodity {c}')     # duplicate commodity directive
            lines += t_meta(rng, '  ')
    for a in opened:
        cur = rng.choice(['', '', ' USD', ' USD,EUR'])
        bk = rng.choice(['', '', ' "STRICT"', ' "FIFO"']) if cur else ''
        lines.append(f'{y}-01-{rng.randint(1, 5):02d} open {a}{cur}{bk}')
        lines += t_meta(rng, '  ')
        if rng.random() < 0.1:
            lines.append(f'{y}-01-{rng.randint(1, 9):02d} open {a}')   # duplicate open
    n = rng.choice([0, 1, 3, 6, 10])
    pending = []     # repeated directives (same date and key fields as an earlier one), written further down
    for i in range(n):
        start = len(lines)
        dt = datetime.date(rng.randint(2019, 2021), rng.randint(1, 12), rng.randint(1, 28)).isoformat()
        a, b = rng.sample(opened, 2)
        r = rng.random()
        if r < 0.5:
            flag = rng.choice(['*', '!', 'txn'])
            head = f'{dt} {flag}'
            if rng.random() < 0.5:
                head += ' ' + q(rng.choice(TEXTS))
            head += ' ' + q(rng.choice(TEXTS))
            for t in rng.sample(TAGS, rng.randint(0, 2)):
                head += ' #' + t
            for t in rng.sample(LINKS, rng.randint(0, 2)):
                head += ' ^' + t
            lines.append(head)
            lines += t_meta(rng, '  ')
            kind = rng.random()
            pf = rng.choice(['', '', '! '])
            if kind < 0.3:
                lines.append(f'  {pf}{a}  {tnum(rng)} HOOL {{{tnum(rng)} USD}}')
            elif kind < 0.45:
                lines.append(f'  {pf}{a}  {tnum(rng)} HOOL {{{tnum(rng)} USD, {dt}, "lot"}} @ {tnum(rng)} USD')
            elif kind < 0.6:
                lines.append(f'  {pf}{a}  {tnum(rng)} EUR @ {tnum(rng)} USD')
            elif kind < 0.7:
                lines.append(f'  {pf}{a}  {tnum(rng)} EUR @@ {tnum(rng)} USD')
            elif kind < 0.8:
                lines.append(f'  {pf}{a}  -{tnum(rng)} HOOL {{}}')
            else:
                lines.append(f'  {pf}{a}  -{tnum(rng)} USD')
                if rng.random() < 0.4:
                    lines += t_meta(rng, '    ')
                    lines.append(f'  {rng.choice(opened)}  {tnum(rng)} USD')
            lines += t_meta(rng, '    ')
            lines.append(f'  {b}')
            lines += t_meta(rng, '    ')
        elif r < 0.62:
            lines.append(f'{dt} pad {a} {b}')
            d2 = (datetime.date.fromisoformat(dt) + datetime.timedelta(days=rng.randint(1, 40))).isoformat()
            tol = rng.choice(['', '', ' ~ 0.01'])
            lines.append(f'{d2} balance {a} {tnum(rng)}{tol} {rng.choice(["USD", "EUR"])}')
            lines += t_meta(rng, '  ')
        elif r < 0.68:
            lines.append(f'{dt} balance {a} {tnum(rng)} USD')
        elif r < 0.76:
            hd = f'{dt} note {a} {q(rng.choice(TEXTS))}'
            for t in rng.sample(TAGS, rng.randint(0, 2)):
                hd += ' #' + t
            lines.append(hd)
            lines += t_meta(rng, '  ')
        elif r < 0.82:
            lines.append(f'{dt} event {q(rng.choice(["location", "employer"]))} {q(rng.choice(TEXTS))}')
        elif r < 0.88:
            lines.append(f'{dt} price {rng.choice(CURRENCIES)} {tnum(rng)} USD')
            lines += t_meta(rng, '  ')
        elif r < 0.92:
            lines.append(f'{dt} document {a} "/tmp/C11/doc{rng.randint(1, 3)}.pdf" #{rng.choice(TAGS)}')
        elif r < 0.95:
            lines.append(f'{dt} query "q{i}" "SELECT account"')
        elif r < 0.97:
            lines.append(f'{dt} custom "budget" {a} "monthly" 10.00 USD TRUE')
        else:
            lines.append(f'2022-01-01 close {a}')
        if rng.random() < 0.3:
            # the same directive once more (legal: two prices of a commodity pair / balance assertions / notes /
            # events / documents on one day, identical transactions), half of the time with another number
            blk = list(lines[start:])
            if rng.random() < 0.6:
                blk[0] = re.sub(r'^(\S+ (?:price \S+|balance \S+)) [0-9.]+', lambda m: f'{m.group(1)} {tnum(rng)}', blk[0])
            pending.append(blk)
        if pending and rng.random() < 0.5:
            lines += pending.pop(0)
    for blk in pending:
        lines += blk
    return '\n'.join(lines) + '\n'


# --------------------------------------------------------------------------
# implementation side

PARSED = {}


def run_query(conn, query):
    try:
        ast = PARSED.get(query)
        if ast is None:
            ast = PARSED[query] = conn.parse(query)
        return [list(r) for r in conn.execute(ast).fetchall()]
    except Exception as e:  # noqa: BLE001
        return ('exception', type(e).__name__, str(e)[:200])


def select_columns(conn, table, cols):
    """SELECT all columns at once; when that raises, column by column: -> {col: [cells] | ('exception', ...)}"""
    res = run_query(conn, 'SELECT ' + ', '.join(cols) + f' FROM #{table}')
    if isinstance(res, list):
        return {c: [c_cell(r[i]) for r in res] for i, c in enumerate(cols)}
    out = {}
    for c in cols:
        res = run_query(conn, f'SELECT {c} FROM #{table}')
        out[c] = [c_cell(r[0]) for r in res] if isinstance(res, list) else res
    return out


def meta_queries(keys):
    pt = []
    for k in keys:
        pt += [f"meta('{k}')", f"entry_meta('{k}')", f"any_meta('{k}')", f"open_meta(account, '{k}')",
               f"commodity_meta(currency, '{k}')"]
    pt += ['open_date(account)', 'close_date(account)', 'open_meta(account)', 'currency_meta(currency)']
    return [
        ('postings', pt),
        ('entries', [f"meta('{k}')" for k in keys]),
        ('transactions', [f"meta['{k}']" for k in keys]),
        ('accounts', [f"open_meta(account, '{k}')" for k in keys] + ['open_date(account)', 'close_date(account)']),
        ('commodities', [f"currency_meta(name, '{k}')" for k in keys]),
    ]


ORDER_QUERIES = [
    'SELECT account FROM #notes ORDER BY comment',
    'SELECT comment FROM #notes ORDER BY account',
    'SELECT type FROM #events ORDER BY description',
    'SELECT account FROM #documents ORDER BY filename',
    'SELECT date FROM #balances ORDER BY account',
]


# Statements whose FROM clause carries OPEN / CLOSE / CLEAR qualifiers (or a plain FROM expression), run on the
# SAME connection between two comparisons of the tables: the tables must stay a function of the ledger alone.
SESSION_DATES = ['2019-06-01', '2020-01-01', '2020-07-01', '2021-01-01', '2000-01-01', '2031-01-01']
SESSION_POOL = (
    [f'SELECT date, account FROM OPEN ON {a} CLOSE ON {b} CLEAR' for a, b in
     [('2019-06-01', '2020-07-01'), ('2020-01-01', '2021-01-01'), ('2000-01-01', '2031-01-01')]]
    + [f'SELECT account, sum(position) FROM OPEN ON {a} GROUP BY account' for a in SESSION_DATES[:4]]
    + [f'SELECT date, account FROM CLOSE ON {a}' for a in SESSION_DATES[:4]]
    + ['SELECT account FROM CLOSE', 'SELECT account, number FROM CLEAR', 'SELECT account FROM year >= 2020 CLOSE CLEAR',
       'BALANCES FROM OPEN ON 2020-01-01', 'BALANCES FROM CLOSE ON 2020-07-01 CLEAR', 'JOURNAL FROM CLOSE ON 2021-01-01',
       'JOURNAL "Assets" FROM OPEN ON 2019-06-01 CLOSE', 'PRINT FROM CLOSE ON 2020-07-01', 'PRINT FROM OPEN ON 2020-01-01 CLEAR',
       'SELECT date FROM year = 2020', 'SELECT date WHERE number > 0'])


def gen_session(rng):
    return [rng.choice(SESSION_POOL) for _ in range(rng.choice([1, 1, 2, 3]))]


def connect_case(case):
    if case['mode'] == 'text':
        os.makedirs(TMP, exist_ok=True)
        path = os.path.join(TMP, f"l{case['id']}_{os.getpid()}.beancount")
        with open(path, 'w') as f:
            f.write(case['text'])
        try:
            conn = beanquery.connect('beancount:' + path)
        finally:
            os.unlink(path)
    else:
        opts = dict(bc_options.OPTIONS_DEFAULTS)
        conn = beanquery.connect('beancount:', entries=case['entries'], errors=[], options=opts)
    return conn


def prewarm():
    """Parse every (constant) query text once, before the worker processes are forked."""
    conn = beanquery.connect('beancount:', entries=[], errors=[], options=dict(bc_options.OPTIONS_DEFAULTS))
    for t in TABLE_ORDER:
        run_query(conn, 'SELECT ' + ', '.join(conn.tables[t].columns) + f' FROM #{t}')
    for t, targets in meta_queries(LOOKUP):
        run_query(conn, 'SELECT ' + ', '.join(targets) + f' FROM #{t}')
    for qq in ORDER_QUERIES:
        run_query(conn, qq)
    for qq in SESSION_POOL:
        run_query(conn, qq)
    run_query(conn, 'SELECT ' + ', '.join(conn.tables['postings'].columns))


def directive_key(e):
    """date + the fields that identify what a directive is about (not its value, not its metadata)"""
    if isinstance(e, data.Price):
        return (e.date, e.currency, e.amount.currency)
    if isinstance(e, data.Transaction):
        return (e.date, e.flag, e.payee, e.narration, tuple((p.account, p.units) for p in e.postings))
    if isinstance(e, data.Event):
        return (e.date, e.type)
    if isinstance(e, data.Document):
        return (e.date, e.account, e.filename)
    if isinstance(e, data.Balance):
        return (e.date, e.account, e.amount.currency)
    if isinstance(e, data.Commodity):
        return (e.date, e.currency)
    if isinstance(e, data.Query):
        return (e.date, e.name)
    return (e.date, getattr(e, 'account', None))


def repeated_keys(entries):
    """directive type -> number of keys (see directive_key) carried by two or more directives of the ledger"""
    groups = {}
    for e in entries:
        k = (type(e).__name__, directive_key(e))
        groups[k] = groups.get(k, 0) + 1
    out = {}
    for (t, _), n in groups.items():
        if n >= 2:
            out[t] = out.get(t, 0) + 1
    return out


def run_impl(case):
    """-> dict(expr=<model input>, impl=<observations: canonical cells per column>, stats)"""
    try:
        conn = connect_case(case)
        entries = conn.tables['entries'].entries
        keys = case['keys']
        obs = {}
        for t in TABLE_ORDER:
            cols = list(conn.tables[t].columns)
            got = select_columns(conn, t, cols)
            for c in cols:
                obs[f'#{t}.{c}'] = got[c]
        for t, targets in meta_queries(keys):
            res = run_query(conn, 'SELECT ' + ', '.join(targets) + f' FROM #{t}')
            for i, tg in enumerate(targets):
                if isinstance(res, list):
                    dk = 12 if '__tolerances__' in tg else 11
                    obs[f'#{t}: {tg}'] = [c_cell(r[i], dk) for r in res]
                else:
                    obs[f'#{t}: {tg}'] = res
        for qq in ORDER_QUERIES:
            res = run_query(conn, qq)
            obs[qq] = [c_cell(r[0]) for r in res] if isinstance(res, list) else res
        # statement sequences: after every qualified statement of the session, the postings table (by name and as
        # the default table of a query without FROM) and the entries table are read again on the same connection
        replicas = {}
        session_errors = 0
        for si, stmt in enumerate(case.get('session', [])):
            if isinstance(run_query(conn, stmt), tuple):
                session_errors += 1
            pcols = list(conn.tables['postings'].columns)
            ecols = list(conn.tables['entries'].columns)
            if si % 2 == 0:
                res = run_query(conn, 'SELECT ' + ', '.join(pcols))
                how = 'default table, no FROM clause'
            else:
                res = run_query(conn, 'SELECT ' + ', '.join(pcols) + ' FROM #postings')
                how = 'FROM #postings'
            if isinstance(res, list):
                got = {c: [c_cell(r[i]) for r in res] for i, c in enumerate(pcols)}
            elif si % 2 == 1:
                got = select_columns(conn, 'postings', pcols)
            else:
                got = {}
                for c in pcols:
                    r1 = run_query(conn, f'SELECT {c}')
                    got[c] = [c_cell(r[0]) for r in r1] if isinstance(r1, list) else r1
            egot = select_columns(conn, 'entries', ecols)
            for t, cols, g, h in (('postings', pcols, got, how), ('entries', ecols, egot, 'FROM #entries')):
                for c in cols:
                    key = f'#{t}.{c} ({h}) after statement {si + 1} of the session [{"; ".join(case["session"][:si + 1])}]'
                    obs[key] = g[c]
                    replicas.setdefault(f'#{t}.{c}', []).append(key)
        obs['__replicas__'] = replicas
        txns = [e for e in entries if isinstance(e, data.Transaction)]
        posts = [p for e in txns for p in e.postings]
        stats = {
            'entries': len(entries),
            'postings': len(posts),
            'kinds': sorted({type(e).__name__ for e in entries}),
            'postings_without_meta': sum(1 for p in posts if p.meta is None),
            'costs': sum(1 for p in posts if p.cost),
            'prices': sum(1 for p in posts if p.price),
            'max_postings': max([len(e.postings) for e in txns] or [0]),
            'meta_value_types': sorted({type(v).__name__ for e in entries for v in e.meta.values()} |
                                       {type(v).__name__ for p in posts if p.meta for v in p.meta.values()}),
            'errors': len(conn.errors),
            'exception_columns': sorted(k for k, v in obs.items() if isinstance(v, tuple) and ' after ' not in k),
            'cells': sum(len(v) for v in obs.values() if isinstance(v, list)),
            'session': list(case.get('session', [])),
            'session_statement_errors': session_errors,
            'repeated_keys': repeated_keys(entries),
        }
        return {'expr': model_expr(entries, keys), 'impl': obs, 'stats': stats}
    except Exception:  # noqa: BLE001
        return {'harness_error': traceback.format_exc()}


# --------------------------------------------------------------------------
# comparison

MASK = (1 << 48) - 1


def hash_nested(o, acc=0):
    """Tables.hash_out over the nested-list form; None when the form holds something the model cannot produce."""
    if isinstance(o, bool) or isinstance(o, str):
        return None
    if isinstance(o, int):
        return ((acc << 5) + acc + o + o) & MASK
    acc = ((acc << 5) + acc + 2000007) & MASK
    for x in o:
        acc = hash_nested(x, acc)
        if acc is None:
            return None
    return ((acc << 5) + acc + 2000067) & MASK


def where_list(cols_by_table, keys):
    """The places compared, in the order of the model's output."""
    tw = [[f'#{t}.{c}' for c in cols_by_table[t]] for t in TABLE_ORDER]
    mw = [[f'#{t}: {tg}' for tg in targets] for t, targets in meta_queries(keys)]
    return tw, mw, list(ORDER_QUERIES)


def schema_columns():
    conn = beanquery.connect('beancount:', entries=[], errors=[], options=dict(bc_options.OPTIONS_DEFAULTS))
    return {t: list(conn.tables[t].columns) for t in TABLE_ORDER}


def check_summary(got, m):
    """One place: implementation cells (or exception) against the model's column summary."""
    if m[0] == 1:
        return isinstance(got, tuple) and got[1] == ERR[m[1]]
    if isinstance(got, tuple):
        return False
    if m[0] == 2:
        return got == [model_cell_canon(c) for c in m[1]]
    return hash_nested(got) == m[1]


def compare_hashed(obs, model, keys, cols_by_table):
    tw, mw, ow = where_list(cols_by_table, keys)
    mt, mm, mo = model
    bad = []
    for ws, ms in list(zip(tw, mt)) + list(zip(mw, mm)):
        if len(ws) != len(ms):      # the live table has columns the model does not know (or the converse)
            bad.append('schema:' + (ws[0].split('.')[0].split(':')[0] if ws else '?'))
            continue
        for w, m in zip(ws, ms):
            if not check_summary(obs[w], m):
                bad.append(w)
            for w2 in obs['__replicas__'].get(w, []):
                if not check_summary(obs[w2], m):
                    bad.append(w2)
    for w, m in zip(ow, mo):
        if not check_summary(obs[w], m):
            bad.append(w)
    return bad


def pretty(c):
    """Readable rendering of a canonical cell (for violation summaries)."""
    try:
        t = c[0]
        if t == 0:
            return 'NULL'
        if t == 1:
            return f'<{ERR.get(c[1], c[1])}>'
        if t == 2:
            return repr(d_str(c[1]))
        if t in (3,):
            return str(c[1])
        if t == 4:
            return datetime.date.fromordinal(c[1]).isoformat()
        if t == 5:
            return f'Decimal({str(d_dec(c[1]))!r})'
        if t == 6:
            return str(bool(c[1]))
        if t == 7:
            return '{' + ', '.join(repr(d_str(x)) for x in c[1]) + '}'
        if t == 8:
            return '[' + ', '.join(repr(d_str(x)) for x in c[1]) + ']'
        if t == 9:
            return str(d_amount(c[1]))
        if t == 10:
            return f'Position({d_amount(c[1])}, {d_cost(c[2][0]) if c[2] else None})'
        if t == 11:
            return '{' + ', '.join(f'{d_str(k)!r}: {pretty(v)}' for k, v in c[1]) + '}'
        if t == 14:
            return 'Inventory(' + ', '.join(f'{d_amount(u)} {{{d_cost(co[0]) if co else ""}}}' for u, co in c[1]) + ')'
    except Exception:  # noqa: BLE001
        pass
    return str(c)


def expected_column(cells):
    """Model cells of one column -> what a SELECT of that column must give: the exception when one row raises."""
    for c in cells:
        if c[0] == 1:
            return ('exception', ERR[c[1]])
    return [model_cell_canon(c) for c in cells]


def compare_full(obs, model, keys, cols_by_table):
    """-> {where: (implementation, model, first differing row)} from the cell-by-cell output run_all_out."""
    tw, mw, ow = where_list(cols_by_table, keys)
    mtables, mmetas, morders = model
    diffs = {}

    def one(w, exp, top=True):
        if top:
            for w2 in obs['__replicas__'].get(w, []):
                one(w2, exp, False)
        g = obs[w]
        if isinstance(g, tuple):
            g = ('exception', g[1])
        if g != exp:
            row = None
            if isinstance(g, list) and isinstance(exp, list):
                row = next((i for i, (a, b) in enumerate(zip(g, exp)) if a != b), min(len(g), len(exp)))
                diffs[w] = (f'{len(g)} rows, row {row}: {pretty(g[row]) if row < len(g) else "<absent>"}',
                            f'{len(exp)} rows, row {row}: {pretty(exp[row]) if row < len(exp) else "<absent>"}')
            else:
                diffs[w] = (str(g)[:400], str(exp)[:400])
    for ws, rows in list(zip(tw, mtables)) + list(zip(mw, mmetas)):
        for ci, w in enumerate(ws):
            one(w, expected_column([r[ci] for r in rows]))
    for w, col in zip(ow, morders):
        one(w, expected_column(col))
    return diffs


COLS = {}


def eval_cases(cases, tag='c11', full=False):
    """Run implementation and model on the cases.
    hashed: -> [(list of differing places, info)]; full: -> [({place: (impl, model)}, info)]"""
    if not COLS:
        COLS.update(schema_columns())
        prewarm()
    outs = core.pmap(run_impl, cases)
    bad = [o for o in outs if 'harness_error' in o]
    if bad:
        raise RuntimeError('implementation-side harness error:\n' + bad[0]['harness_error'])
    models = coq_eval_ledgers(tag, [o['expr'] for o in outs], 'run_all_out' if full else 'run_hashed_out')
    cmp_ = compare_full if full else compare_hashed
    return [(cmp_(o['impl'], m, c['keys'], COLS), o) for c, o, m in zip(cases, outs, models)]


def mk_cases(rng, n_con, n_text):
    cases = []
    for i in range(n_con):
        cases.append({'mode': 'constructed', 'id': i, 'entries': gen_constructed(rng), 'keys': list(LOOKUP),
                      'session': gen_session(rng)})
    for i in range(n_text):
        cases.append({'mode': 'text', 'id': i, 'text': gen_text(rng), 'keys': list(LOOKUP), 'session': gen_session(rng)})
    return cases


def describe(case):
    if case['mode'] == 'text':
        return case['text']
    return '\n'.join(repr(e) for e in case['entries'])


def shrink_case(case, where):
    """Remove directives (constructed) or lines (text) while the same place still differs."""
    def still(cands):
        return [where in d for d, _ in eval_cases(cands, tag='c11s')]
    if case['mode'] == 'constructed':
        small = ddmin_batch(case['entries'], lambda cs: still([dict(case, entries=c) for c in cs]))
        for i, e in enumerate(small):      # then postings of each remaining transaction
            if isinstance(e, data.Transaction) and len(e.postings) > 1:
                def with_postings(ps, i=i, e=e):
                    return dict(case, entries=small[:i] + [e._replace(postings=list(ps))] + small[i + 1:])
                ps = ddmin_batch(e.postings, lambda cs: still([with_postings(c) for c in cs]), max_rounds=10)
                small = small[:i] + [e._replace(postings=list(ps))] + small[i + 1:]
        return dict(case, entries=small)
    lines = case['text'].split('\n')
    small = ddmin_batch(lines, lambda cs: still([dict(case, text='\n'.join(c) + '\n') for c in cs]), max_rounds=25)
    return dict(case, text='\n'.join(small) + '\n')


def signature_of(where):
    if ' after statement ' in where:
        return 'differs:' + where.split('.')[0] + ' after earlier statements on the same connection'
    return 'differs:' + where


def bump(h, k, n=1):
    h[k] = h.get(k, 0) + n


def run(tier, rng):
    n_con, n_text = (140, 80) if tier == "quick" else (2000, 1000)
    cases = mk_cases(rng, n_con, n_text)
    violations = []
    hist = {'entries_per_ledger': {}, 'max_postings_per_transaction': {}, 'ledgers_with_directive_type': {},
            'ledgers_with_metadata_value_type': {}, 'mode': {}, 'columns_raising': {}, 'session_statements': {},
            'session_length': {}, 'ledgers_with_repeated_directive_key': {}, 'repeated_directive_keys': {}}
    tot = {'postings': 0, 'postings_without_meta': 0, 'costs': 0, 'prices': 0, 'entries': 0, 'loader_errors': 0,
           'cells_compared': 0, 'session_statements_raising': 0}
    nontrivial = 0
    seen = set()
    CH = 480
    for k in range(0, len(cases), CH):
        chunk = cases[k:k + CH]
        res = eval_cases(chunk)
        for case, (bad, o) in zip(chunk, res):
            st = o['stats']
            b = min(st['entries'], 28) // 4 * 4
            bump(hist['entries_per_ledger'], f'{b}-{b + 3}' if b < 28 else '28+')
            bump(hist['max_postings_per_transaction'], str(st['max_postings']))
            bump(hist['mode'], case['mode'])
            for kk in st['kinds']:
                bump(hist['ledgers_with_directive_type'], kk)
            for kk in st['meta_value_types']:
                bump(hist['ledgers_with_metadata_value_type'], kk)
            for kk in st['exception_columns']:
                bump(hist['columns_raising'], kk)
            for kk in st['session']:
                bump(hist['session_statements'], kk)
            bump(hist['session_length'], str(len(st['session'])))
            for kk, nn in st['repeated_keys'].items():
                bump(hist['ledgers_with_repeated_directive_key'], kk)
                bump(hist['repeated_directive_keys'], kk, nn)
            tot['session_statements_raising'] += st['session_statement_errors']
            tot['postings'] += st['postings']
            tot['entries'] += st['entries']
            tot['postings_without_meta'] += st['postings_without_meta']
            tot['costs'] += st['costs']
            tot['prices'] += st['prices']
            tot['loader_errors'] += st['errors']
            tot['cells_compared'] += st['cells']
            if st['postings'] >= 2 and len(st['kinds']) >= 2:
                nontrivial += 1
            for where in bad:
                sig = signature_of(where)
                if sig in seen or len(seen) >= 3:
                    continue
                seen.add(sig)
                if where.startswith('schema:'):
                    t = where[len('schema:'):]
                    violations.append(core.Violation(
                        'schema-differs', f'the columns of {t} in the code are not those of the model: '
                        f'{COLS.get(t[1:])} (see Proofs/TablesProofs.v live_schema_covered)',
                        {'table': t, 'columns': COLS.get(t[1:])}, signature=sig, found_input=False))
                    continue
                small = shrink_case(case, where)
                full = eval_cases([small], tag='c11s', full=True)[0][0]
                g, e = full.get(where, ('(hash of the column differs)', '(hash of the column differs)'))
                violations.append(core.Violation(
                    'table-differs',
                    f'{where}: implementation gives {g} but the model of the directives gives {e}; '
                    f'ledger: {describe(small)[:700]}',
                    {'case': {'mode': small['mode'], 'keys': small['keys'], 'text': small.get('text'),
                              'session': small.get('session', []),
                              'entries_repr': describe(small),
                              'entries_pickle': (base64.b64encode(pickle.dumps(small['entries'])).decode()
                                                 if small['mode'] != 'text' else None)},
                     'where': where, 'impl': g, 'model': e},
                    signature=sig))
    cov = {
        'evaluations': len(cases),
        'distinct_nontrivial': nontrivial,
        'rule': 'ledgers from one PRNG: constructed beancount.core.data directives (any order, every directive type, '
                '0..7 postings, postings with meta=None, equal-valued twin postings, costs with/without date and label, '
                'prices, every metadata value type, duplicate open/close/commodity directives, repeated directives of every '
                'type = same date and key fields (two prices of one commodity pair on one day, two balance assertions / '
                'notes / events / documents / pads with the same key, equal-valued transactions) with equal or different '
                'values and metadata, at arbitrary distance, a few metadata dicts '
                'without filename/lineno) attached via connect(entries=...), and ledger text (opens, commodities with '
                'metadata, pad+balance, costs, prices, tags, links, metadata) through the Beancount loader; per ledger: '
                'SELECT of every column of all 10 tables, the meta/entry_meta/any_meta/open_meta/commodity_meta/'
                'open_date/close_date family on 9 keys (present and missing), 5 ORDER BY queries on typed tables; then a '
                'session of 1-3 statements on the SAME connection drawn from 24 statements with FROM OPEN ON / CLOSE [ON] / '
                'CLEAR qualifiers or plain FROM/WHERE (SELECT, BALANCES, JOURNAL, PRINT), after each of which every column of '
                'the postings table (alternately as default table without FROM clause and FROM #postings) and of the entries '
                'table is read again and must still equal the model of the ledger; '
                'every column compared with the model by a 48-bit hash of its cells (balance cell by cell), a '
                'differing column is re-run cell by cell; non-trivial = ledger with >= 2 postings and >= 2 directive types',
        'samples': [describe(c)[:400] for c in cases[3:5] + cases[n_con:n_con + 2]],
        'traces_validated_against_impl': len(cases),
        'totals': tot,
        'histograms': hist,
        'places_compared_per_ledger': sum(len(v) for v in COLS.values()) + sum(len(t) for _, t in meta_queries(LOOKUP))
        + len(ORDER_QUERIES),
    }
    shutil.rmtree(TMP, ignore_errors=True)
    return {'coverage': cov, 'violations': violations}


# the attribute names Model/PrimsLedger.v's directive_fields / enc_posting / enc_amount / enc_cost give the encoded
# namedtuples (in declaration order; "$hash" stands for compare.hash_entry and is not an attribute)
LEDGER_ENCODING_FIELDS = {
    'Transaction': ('meta', 'date', 'flag', 'payee', 'narration', 'tags', 'links', 'postings'),
    'Open': ('meta', 'date', 'account', 'currencies', 'booking'),
    'Close': ('meta', 'date', 'account'),
    'Commodity': ('meta', 'date', 'currency'),
    'Pad': ('meta', 'date', 'account', 'source_account'),
    'Balance': ('meta', 'date', 'account', 'amount', 'tolerance', 'diff_amount'),
    'Note': ('meta', 'date', 'account', 'comment', 'tags', 'links'),
    'Event': ('meta', 'date', 'type', 'description'),
    'Query': ('meta', 'date', 'name', 'query_string'),
    'Price': ('meta', 'date', 'currency', 'amount'),
    'Document': ('meta', 'date', 'account', 'filename', 'tags', 'links'),
    'Custom': ('meta', 'date', 'type'),          # Custom.values is not modelled
    'Posting': ('account', 'units', 'cost', 'price', 'flag', 'meta'),
}


def _encoding_census():
    """what the translator tie assumes of the Beancount classes, checked on the imported ones: field names and
    order of the namedtuples as encoded in Model/PrimsLedger.v; isinstance on directives is class identity (no
    directive class derives from another one)"""
    classes = {n: getattr(data, n) for n in LEDGER_ENCODING_FIELDS}
    bad = {}
    for n, want in LEDGER_ENCODING_FIELDS.items():
        got = tuple(f for f in classes[n]._fields if not (n == 'Custom' and f == 'values'))
        if got != want:
            bad[n] = got
    dirs = [c for n, c in classes.items() if n != 'Posting']
    sub = [(a.__name__, b.__name__) for a in dirs for b in dirs if a is not b and issubclass(a, b)]
    if bad or sub:
        raise RuntimeError(f'Beancount classes differ from the encoding of Model/PrimsLedger.v: fields {bad}, '
                           f'subclassing {sub}')
    return {'namedtuples_checked': len(classes), 'directive_classes_unrelated': True}


def generate():
    out = dict(gen_registry.generate() or {})
    # translator tie: regenerate coq/Gen/SrcLedgerTables.v from the source of the imported iterators (py2mini)
    from . import gen_src
    out.update(gen_src.generate('ledger_tables'))
    out['src_ledger_tables_encoding'] = _encoding_census()
    # group `envledger` (C11_source_open_date .. C11_source_any_meta): the same generated file as C12's hook writes
    # (atomic write of identical text), so that C11 alone re-checks the metadata functions against the current source
    from . import src_envledger
    out.update(gen_src.generate('envledger'))
    out.update(src_envledger.report())
    return out


def replay(rec):
    if 'case' not in rec:      # schema / harness records carry no ledger: re-run a small batch
        import random
        res = eval_cases(mk_cases(random.Random(0), 8, 4), tag='c11r')
        return not any(d for d, _ in res)
    case = rec['case']
    if case['mode'] != 'text':
        entries = pickle.loads(base64.b64decode(case['entries_pickle']))
        case = {'mode': 'constructed', 'id': 0, 'entries': entries, 'keys': case['keys'],
                'session': case.get('session', [])}
    else:
        case = {'mode': 'text', 'id': 0, 'text': case['text'], 'keys': case['keys'], 'session': case.get('session', [])}
    diffs, _ = eval_cases([case], tag='c11r', full=True)[0]
    for w, (g, e) in diffs.items():
        core.log(f'  differs: {w}: implementation {g} | model {e}')
    return not diffs
