"""C06: parsing inverts printing; shipped parser = grammar.

Ties of the Coq development (Model/Ast Lexer Parser Printer, Proofs/ParserProofs, Properties/C06) to /repo:
 (i)   generate(): coq/Gen/Grammar.v is re-derived on every run from tatsu.compile(bql.ebnf) rule objects; the
       kernel checks Gen.grammar = Model.grammar (the structure Model/Parser.v was written against).
 (ii)  tatsu.to_python_sourcecode(bql.ebnf) must equal the shipped parser/parser.py byte for byte.
 (iii) three-way differential: random concrete-syntax trees are printed BY THE COQ PRINTER (round 1, vm_compute),
       the tokens are rendered here with random keyword/identifier case, literal spellings, whitespace and comments,
       and the text is parsed by beanquery.parser.parse, by a parser built in-process from bql.ebnf, and by the Coq
       parser (round 2, vm_compute); all three must give the erased tree.  A second stream of mutated texts compares
       the two TatSu parsers exactly (AST or exception class) and measures the fidelity of the Coq parser.
ASTs are compared through a type-tagged serialisation (dataclass == equates 1 / True / Decimal(1))."""
import datetime
import decimal
import os

from . import core, impl  # noqa: F401  (impl puts /repo on sys.path)
from .core import clist

import tatsu  # noqa: E402
import beanquery.parser as bqp  # noqa: E402
from beanquery.parser import ast as A  # noqa: E402

D = decimal.Decimal
EBNF = os.path.join(core.REPO, 'beanquery', 'parser', 'bql.ebnf')
PARSER_PY = os.path.join(core.REPO, 'beanquery', 'parser', 'parser.py')

ASSUMPTIONS = [
    'TatSu 5.7.4 runtime (PEG ordered choice, cut, seed-growing left recursion, memoisation, Buffer.next_token) is '
    'modelled by the hand-written Gallina lexer+parser; validated by the three-way differential, not verified',
    'lexer/parser split: a context-free lexer stands for the scannerless parser; texts where they can differ '
    '(`%s` glued to a following word, a non-ASCII digit, ...) are outside the printer image and measured on the mutation stream',
    'a date-shaped literal that is not a calendar date fails the date rule (FailedSemantics); the text is then read by the '
    'following alternatives (2020-13-45 is 2020 - 13 - 45); modelled in the lexer',
    'character level is proved (C06_lex_roundtrip / C06_text_roundtrip) for the spelling relation of Model/Spelling.v (incl. either '
    'quote character for strings); the renderer additionally drops a zero integer part of decimals (.5 for 0.5: tested only)',
    'alphabet: any code point except surrogates inside string literals (constants, list elements, subscript keys, JOURNAL patterns: '
    'BMP and astral, non-NFC, controls), code points of the BMP elsewhere; Unicode decimal digits other than 0-9 (accepted by \\d) are '
    'not generated outside strings; mutated texts containing astral code points are left out of the mutated stream',
    'the in-process parser is tatsu.compile(bql.ebnf) run with BQLSemantics; TatSu passes rule parameters of an interpreted '
    'grammar as one string "Neg::UnaryOp", the harness adapter keeps the first component (as the generated code does)',
    'PEG stream: Model/Peg.v is a generic interpreter of the regenerated grammar value (proved sound w.r.t. a declarative PEG '
    'semantics with cut / greedy closures / seed-growing left recursion, for every grammar); that this semantics IS TatSu 5.7.4\'s '
    'is validated by the four-way differential, not verified; character classes are ASCII, regular expressions are matched by '
    'one hand-written matcher per pattern text (an unknown pattern text fails closed)',
    'concurrent stream: the interleaving of the threads is the interpreter\'s (barrier per burst, sys.setswitchinterval(1e-6)); '
    'the oracle is the serial parse of the same text in the same process; a replay repeats the recorded burst 25 times',
    'translator tie of the semantic actions (bld-sem; group semantics: harness/vf/src_semantics.py -> Gen/SrcSemantics.v, '
    'Proofs/SrcSemantics.v, C06_source_*): every function of the live class BQLSemantics, parser.parse and ParseError.__init__ are '
    'translated on every run (rules S1-S7 on top of ApiTranslator: a bare object() sentinel as an opaque reference compared '
    'with `is`; `raise X from y` as `raise X`; an exception in tail position as the returned marker ("$raised", X) so that the '
    'payload is part of the result; `except E as x` binds x to the primitive "caught:E" of the locals the try body reads '
    '(PyMini is deterministic); C(args) for a class as the record ("$new", C, args); E[k] on an Enum; f(**d)). TRUSTED in '
    'Model/PrimsSemantics.v: the lexical classes are the patterns of bql.ebnf written with Lexer.v\'s scanners (ASCII digits); on '
    'a text of its class int() is Lexer.digits_val, decimal.Decimal() is PegActions.dec_of (all digits, exponent = - fraction '
    'digits, no context), strptime(.., "%Y-%m-%d").date() is Dates.mk_date of the three digit groups else ValueError, str.lower is '
    'Lexer.lower on ASCII, rstrip, s[1:-1] is PyMini\'s slice; outside the class the primitives are Stuck (no theorem); TatSu: '
    'BQLParser().parse(text, semantics=BQLSemantics()) on NEWLY built objects is an oracle of the text (any other receiver: '
    'Stuck), the raised exception carries tokenizer.text = the text given, item, pos; line_info().line and str(exc) are '
    'uninterpreted; that a class call yields a fresh object each time is Python\'s; how TatSu dispatches a rule to the method of '
    'its name (else _default) with the rule parameters is TatSu\'s (C06_source_dispatch ties the method NAMES of the live class)',
]
EXTRA_TARGETS = ['Model/PegActions.vo']

# ---------------------------------------------------------------------------------------------------------------
# trees (mirror of Model/Ast.v):  lit / expr / fromc / stmt as nested tuples

ARITH = ['Add', 'Sub', 'Mul', 'Div', 'Mod']
CMP = ['Lt', 'Le', 'Gt', 'Ge', 'Eq', 'Ne', 'In', 'NotIn', 'Match', 'NotMatch']
NAMES = ['a', 'b', 'x', 'account', 'date', 'open', 'close', 'clear', 'on', 'at', 'between', 'null_x', 'not_y',
         'true_v', 'in_x', 's', 'sum', '_u', 'x1', 'is_z', 'or_1', 'asc_x', 'selected', 'nulls', 'and_', 'from_x']
FNAMES = ['f', 'sum', 'count', 'null', 'coalesce', 'open', 'root', 'year', 'between', 'not_f']
STRS = ['', 'a', 'Assets:Cash', 'it"s', "it's", 'x y', 'é€', 'a\nb', '%s', '/* c */', '; x', 'NULL', "''", '""']
# (fix-F) string contents that any TEXT-level treatment of the statement (Unicode normalisation, case folding, newline
# translation, stripping, tab expansion, escape processing, dropping of invisible characters) would alter: a string literal
# denotes exactly the code points between its quotes.  Strings travel as code-point lists: the Coq side needs no Unicode tables.
USTRS = [
    ('decomposed', 'Cafe\u0301'), ('precomposed', 'Caf\u00e9'),                          # NFD / NFC spellings of one word: two ASTs
    ('combining-order', 'a\u0307\u0323'), ('combining-order-canonical', 'a\u0323\u0307'),
    ('singleton', '\u212b'), ('singleton', '\u2126 10k'), ('singleton', '273\u212a'), ('singleton-target', '\u00c5 \u03a9 K'),
    ('hangul-jamo', '\u1112\u1161\u11ab'), ('hangul-syllable', '\ud55c'),
    ('composition-excluded', '\u0958'), ('composition-excluded', '\u0915\u093c'), ('composition-excluded-astral', '\U0001d15e'),
    ('compatibility', 'of\ufb01ce'), ('compatibility', '\uff21\uff11'), ('compatibility', 'm\u00b2'), ('compatibility-astral', '\U0001d400\U0001d7d8'),
    ('case-folding', 'Stra\u00dfe \u0130stanbul \u03c3\u03c2'),
    ('astral', 'pay \U0001f600'), ('astral-zwj', '\U0001f468\u200d\U0001f469'),
    ('rtl', '\u05e9\u05dc\u05d5\u05dd'), ('rtl-mark', '\u0633\u0644\u0627\u0645\u200f!'), ('bidi-control', 'a\u202eb\u202c'),
    ('invisible', 'a\u200cb'), ('invisible', 'co\u00adop'), ('invisible', '\ufeffx'), ('invisible', 'x\u200b'),
    ('nbsp', 'a\u00a0b'), ('space-at-the-edges', '\u00a0x\u00a0'), ('space-at-the-edges', ' x '), ('space-at-the-edges', '\tx\n'),
    ('tab', 'a\tb'), ('carriage-return', 'a\rb'), ('carriage-return', 'a\r\nb'), ('line-separator', 'a\u2028b\u2029'), ('line-separator', 'a\u0085b'),
    ('control', 'a\x01\x7fb'), ('control', 'a\x00b'), ('control', '\x1c\x0c\x0b'),
    ('backslash', 'a\\nb\\'), ('backslash', '\\u00e9'), ('percent', '100%% %(x)s'),
    ('non-ascii-digit', '\u0663'), ('quote-lookalike', '\u2019\u201c\u02bc'),
]
UPIECES = [u for _, u in USTRS] + ['a', ' ', 'Assets:', 'x', 'E\u0301', '\u0041\u030a']


def gen_str(rng):
    """content of a string literal / subscript key / JOURNAL pattern"""
    r = rng.random()
    if r < 0.55:
        return rng.choice(STRS)
    if r < 0.85:
        return rng.choice(USTRS)[1]
    return ''.join(rng.choice(UPIECES) for _ in range(rng.randint(2, 3)))


def str_classes(u):
    """classification for the coverage histogram only (unicodedata is never an oracle)"""
    import unicodedata
    out = []
    if all(ord(c) < 128 for c in u):
        return (['ascii'] + (['ascii:control-character-or-blank-edge'] if u != u.strip() or any(ord(c) < 32 or ord(c) == 127 for c in u) else [])
                + (['ascii:backslash'] if '\\' in u else []))
    out.append('non-ascii')
    if unicodedata.normalize('NFC', u) != u:
        out.append('not-NFC')
    if unicodedata.normalize('NFKC', u) != u:
        out.append('not-NFKC')
    if unicodedata.normalize('NFD', u) != u:
        out.append('not-NFD')
    if any(ord(c) >= 0x10000 for c in u):
        out.append('astral')
    if any(unicodedata.combining(c) for c in u):
        out.append('combining-mark')
    if any(unicodedata.bidirectional(c) in ('R', 'AL', 'RLE', 'RLO', 'PDF') for c in u):
        out.append('right-to-left')
    if any(unicodedata.category(c) == 'Cf' for c in u):
        out.append('format-character')
    if u.lower().upper() != u.upper() or u.casefold() != u.lower():
        out.append('case-folding-sensitive')
    return out


def tree_strings(e, out):
    """every string content (constants, list elements, subscript keys, JOURNAL patterns) of a generated tree"""
    if isinstance(e, tuple) and e and isinstance(e[0], str):
        if e[0] == 'str' and len(e) == 2:
            out.append(e[1])
        elif e[0] == 'sub':
            out.append(e[2])
            tree_strings(e[1], out)
            return
        elif e[0] == 'journal':
            if e[1] is not None:
                out.append(e[1])
            tree_strings(e[3], out)
            return
        for x in e[1:]:
            tree_strings(x, out)
    elif isinstance(e, (list, tuple)):
        for x in e:
            tree_strings(x, out)


def cstr(s):
    return clist([str(ord(c)) for c in s])


def lvl(e):
    k = e[0]
    if k == 'select':
        return 0
    if k == 'or':
        return 1
    if k == 'and':
        return 2
    if k == 'not':
        return 3
    if k in ('cmp', 'isnull', 'isnotnull', 'between'):
        return 4
    if k == 'arith':
        return 5 if e[1] in ('Add', 'Sub') else 6
    if k in ('neg', 'paren', 'uplus'):
        return 7
    if k in ('attr', 'sub'):
        return 8
    return 9


def long_coef(rng):
    """29..40 significant digits, no trailing-zero shortcut: the last digits carry the information"""
    n = rng.randint(29, 40)
    digits = [rng.randint(1, 9)] + [rng.randint(0, 9) for _ in range(n - 2)] + [rng.randint(1, 9)]
    return int(''.join(map(str, digits)))


def gen_lit(rng):
    r = rng.random()
    if r < 0.1:
        return ('null',)
    if r < 0.2:
        return ('bool', rng.random() < 0.5)
    if r < 0.45:
        if rng.random() < 0.25:
            return ('int', long_coef(rng))
        return ('int', rng.choice([0, 1, 2, 7, 10, 42, 2020, 123456789, 10 ** 20 + 3]))
    if r < 0.65:
        if rng.random() < 0.35:      # more significant digits than the default decimal context keeps (28)
            return ('dec', long_coef(rng), rng.choice([0, 1, 2, 17, 28, 29, 33, 40, 45]))
        return ('dec', rng.choice([0, 5, 15, 150, 1005, 314159]), rng.choice([0, 1, 2, 3, 7]))
    if r < 0.8:
        y = rng.choice([1, 999, 1970, 2000, 2020, 2024, 9999])
        m = rng.randint(1, 12)
        dim = [31, 29 if (y % 4 == 0 and (y % 100 != 0 or y % 400 == 0)) else 28, 31, 30, 31, 30, 31, 31, 30, 31, 30, 31][m - 1]
        return ('date', y, m, rng.choice([1, dim, rng.randint(1, dim)]))
    return ('str', gen_str(rng))


def gen_primary(rng, depth):
    r = rng.random()
    if depth <= 0 or r < 0.45:
        k = rng.random()
        if k < 0.45:
            return ('col', rng.choice(NAMES))
        if k < 0.7:
            return ('const', gen_lit(rng))
        if k < 0.8:
            return ('list', [gen_lit(rng) for _ in range(rng.randint(1, 3))])
        if k < 0.88:
            return ('place', rng.choice(['', 'p', 'name_1', 'open']))
        if k < 0.94:
            return ('funcstar', rng.choice(FNAMES))
        return ('func', rng.choice(FNAMES), [])
    if r < 0.65:
        return ('func', rng.choice(FNAMES), [gen_expr(rng, depth - 1) for _ in range(rng.randint(0, 3))])
    if r < 0.85:
        return ('attr', gen_primary(rng, depth - 1), rng.choice(NAMES + ['null']))
    return ('sub', gen_primary(rng, depth - 1), gen_str(rng))


def gen_expr(rng, depth, sel_depth=1):
    if depth <= 0:
        return gen_primary(rng, 0)
    r = rng.random()
    d = depth - 1
    if r < 0.18:
        return gen_primary(rng, depth)
    if r < 0.36:
        return ('arith', rng.choice(ARITH), gen_expr(rng, d, sel_depth), gen_expr(rng, d, sel_depth))
    if r < 0.5:
        return ('cmp', rng.choice(CMP), gen_expr(rng, d, sel_depth), gen_expr(rng, d, sel_depth))
    if r < 0.56:
        return ('neg', gen_expr(rng, d, sel_depth))
    if r < 0.62:
        return ('not', gen_expr(rng, d, sel_depth))
    if r < 0.66:
        return ('isnull', gen_expr(rng, d, sel_depth))
    if r < 0.70:
        return ('isnotnull', gen_expr(rng, d, sel_depth))
    if r < 0.75:
        return ('between', gen_expr(rng, d, sel_depth), gen_expr(rng, d, sel_depth), gen_expr(rng, d, sel_depth))
    if r < 0.82:
        return ('and', [gen_expr(rng, d, sel_depth) for _ in range(rng.randint(2, 3))])
    if r < 0.89:
        return ('or', [gen_expr(rng, d, sel_depth) for _ in range(rng.randint(2, 3))])
    if r < 0.94:
        return ('paren', gen_expr(rng, d, sel_depth))
    if r < 0.97:
        e = gen_primary(rng, 0)
        return ('uplus', e)
    if sel_depth > 0:
        return gen_select(rng, min(d, 1), sel_depth - 1)
    return gen_primary(rng, depth)


def gen_date(rng):
    lit = ('null',)
    while lit[0] != 'date':
        lit = gen_lit(rng)
    return lit[1:]


def gen_from(rng, depth, sel_depth, only_from=False):
    r = rng.random()
    if not only_from and r < 0.2:
        return ('table', rng.choice(['', 't', 'Postings', 'x_1']))
    if not only_from and r < 0.3 and sel_depth > 0:
        return ('subq', gen_select(rng, depth, sel_depth - 1))
    e = gen_expr(rng, depth, sel_depth) if rng.random() < 0.75 else None
    o = gen_date(rng) if rng.random() < 0.3 else None
    c = rng.choice([None, None, ('some', None), ('some', gen_date(rng))])
    cl = rng.random() < 0.3
    if e is None and o is None and c is None and not cl:
        cl = True
    return ('from', e, o, c, cl)


def gen_gcol(rng, depth, sel_depth):
    if rng.random() < 0.3:
        return ('int', rng.choice([0, 1, 2, 12]))
    return ('expr', gen_expr(rng, depth, sel_depth))


def gen_select(rng, depth, sel_depth=1):
    targets = None if rng.random() < 0.15 else [
        (gen_expr(rng, depth, sel_depth), rng.choice([None, None, 'n', 'total', 'open', 'null']))
        for _ in range(rng.randint(1, 3))]
    fr = gen_from(rng, depth, sel_depth) if rng.random() < 0.55 else None
    wh = gen_expr(rng, depth, sel_depth) if rng.random() < 0.4 else None
    gr = None
    if rng.random() < 0.35:
        gr = ([gen_gcol(rng, depth, sel_depth) for _ in range(rng.randint(1, 3))],
              gen_expr(rng, depth, sel_depth) if rng.random() < 0.4 else None)
    od = [(gen_gcol(rng, depth, sel_depth), rng.random() < 0.4) for _ in range(rng.randint(1, 3))] \
        if rng.random() < 0.35 else []

    def pcol():
        return ('int', rng.randint(1, 3)) if rng.random() < 0.5 else ('name', rng.choice(NAMES + ['null']))
    pv = (pcol(), pcol()) if rng.random() < 0.15 else None
    lim = rng.choice([0, 1, 10, 10 ** 12]) if rng.random() < 0.25 else None
    return ('select', rng.random() < 0.2, targets, fr, wh, gr, od, pv, lim)


def gen_stmt(rng, depth):
    r = rng.random()
    if r < 0.7:
        return ('select', gen_select(rng, depth))
    sf = rng.choice([None, 'cost', 'units', 'open'])
    fr = gen_from(rng, depth, 1, only_from=True) if rng.random() < 0.6 else None
    if r < 0.82:
        return ('balances', sf, fr, gen_expr(rng, depth) if rng.random() < 0.5 else None)
    if r < 0.94:
        return ('journal', rng.choice([None, 'Assets:Cash', "it's", '', gen_str(rng), gen_str(rng)]), sf, fr)
    return ('print', fr)


# --- Gallina rendering -------------------------------------------------------------------------------------------

def c_lit(l):
    k = l[0]
    if k == 'null':
        return 'LNull'
    if k == 'bool':
        return f'(LBool {"true" if l[1] else "false"})'
    if k == 'int':
        return f'(LInt {l[1]}%N)'
    if k == 'dec':
        return f'(LDec {l[1]}%N {l[2]}%nat)'
    if k == 'date':
        return f'(LDate {l[1]}%N {l[2]}%N {l[3]}%N)'
    return f'(LStr {cstr(l[1])})'


def c_opt(x, f):
    return 'None' if x is None else f'(Some {f(x)})'


def c_date(d):
    return f'({d[0]}%N, {d[1]}%N, {d[2]}%N)'


def c_gcol(g):
    return f'(inl {g[1]}%N)' if g[0] == 'int' else f'(inr {c_expr(g[1])})'


def c_pcol(g):
    return f'(inl {g[1]}%N)' if g[0] == 'int' else f'(inr {cstr(g[1])})'


def c_from(f):
    if f[0] == 'table':
        return f'(FTable {cstr(f[1])})'
    if f[0] == 'subq':
        return f'(FSub {c_expr(f[1])})'
    _, e, o, c, cl = f
    cc = 'None' if c is None else ('(Some None)' if c[1] is None else f'(Some (Some {c_date(c[1])}))')
    return f'(FFrom {c_opt(e, c_expr)} {c_opt(o, c_date)} {cc} {"true" if cl else "false"})'


def c_expr(e):
    k = e[0]
    if k == 'const':
        return f'(EConst {c_lit(e[1])})'
    if k == 'list':
        return f'(EList {clist([c_lit(x) for x in e[1]])})'
    if k == 'col':
        return f'(EColumn {cstr(e[1])})'
    if k == 'func':
        return f'(EFunc {cstr(e[1])} {clist([c_expr(x) for x in e[2]])})'
    if k == 'funcstar':
        return f'(EFuncStar {cstr(e[1])})'
    if k == 'place':
        return f'(EPlace {cstr(e[1])})'
    if k == 'attr':
        return f'(EAttr {c_expr(e[1])} {cstr(e[2])})'
    if k == 'sub':
        return f'(ESubscript {c_expr(e[1])} {cstr(e[2])})'
    if k in ('neg', 'not', 'isnull', 'isnotnull', 'paren', 'uplus'):
        c = {'neg': 'ENeg', 'not': 'ENot', 'isnull': 'EIsNull', 'isnotnull': 'EIsNotNull', 'paren': 'EParen',
             'uplus': 'EUPlus'}[k]
        return f'({c} {c_expr(e[1])})'
    if k == 'arith':
        return f'(EArith {e[1]} {c_expr(e[2])} {c_expr(e[3])})'
    if k == 'cmp':
        return f'(ECmp {e[1]} {c_expr(e[2])} {c_expr(e[3])})'
    if k == 'between':
        return f'(EBetween {c_expr(e[1])} {c_expr(e[2])} {c_expr(e[3])})'
    if k in ('and', 'or'):
        return f'({"EAnd" if k == "and" else "EOr"} {clist([c_expr(x) for x in e[1]])})'
    if k == 'select':
        _, d, t, f, w, g, o, p, lim = e
        ts = 'None' if t is None else '(Some ' + clist([f'({c_expr(x)}, {c_opt(n, cstr)})' for x, n in t]) + ')'
        gs = 'None' if g is None else f'(Some ({clist([c_gcol(x) for x in g[0]])}, {c_opt(g[1], c_expr)}))'
        os_ = clist([f'({c_gcol(x)}, {"true" if dsc else "false"})' for x, dsc in o])
        ps = 'None' if p is None else f'(Some ({c_pcol(p[0])}, {c_pcol(p[1])}))'
        return (f'(ESelect {"true" if d else "false"} {ts} {c_opt(f, c_from)} {c_opt(w, c_expr)} {gs} {os_} {ps} '
                f'{c_opt(lim, lambda n: f"{n}%N")})')
    raise ValueError(k)


def c_stmt(s):
    k = s[0]
    if k == 'select':
        return f'(SSelect {c_expr(s[1])})'
    if k == 'balances':
        return f'(SBalances {c_opt(s[1], cstr)} {c_opt(s[2], c_from)} {c_opt(s[3], c_expr)})'
    if k == 'journal':
        return f'(SJournal {c_opt(s[1], cstr)} {c_opt(s[2], cstr)} {c_opt(s[3], c_from)})'
    return f'(SPrint {c_opt(s[1], c_from)})'


# --- serialisation (mirror of Model/AstOut.v), on erased trees ---------------------------------------------------

def s_str(s):
    return [ord(c) for c in s]


def s_opt(x, f):
    return [] if x is None else [f(x)]


def s_lit(l):
    k = l[0]
    if k == 'null':
        return [0]
    if k == 'bool':
        return [1, int(l[1])]
    if k == 'int':
        return [2, l[1]]
    if k == 'dec':
        return [3, l[1], l[2]]
    if k == 'date':
        return [4, l[1], l[2], l[3]]
    return [5, s_str(l[1])]


def s_gcol(g):
    return [0, g[1]] if g[0] == 'int' else [1, s_expr(g[1])]


def s_pcol(g):
    return [0, g[1]] if g[0] == 'int' else [1, s_str(g[1])]


def s_from(f):
    if f[0] == 'table':
        return [0, s_str(f[1])]
    if f[0] == 'subq':
        return [1, s_expr(f[1])]
    _, e, o, c, cl = f
    return [2, s_opt(e, s_expr), s_opt(o, list), [] if c is None else [s_opt(c[1], list)], int(cl)]


def s_expr(e):
    k = e[0]
    if k in ('paren', 'uplus'):
        return s_expr(e[1])
    if k == 'const':
        return [0, s_lit(e[1])]
    if k == 'list':
        return [1, [s_lit(x) for x in e[1]]]
    if k == 'col':
        return [2, s_str(e[1])]
    if k == 'func':
        return [3, s_str(e[1]), [s_expr(x) for x in e[2]]]
    if k == 'funcstar':
        return [4, s_str(e[1])]
    if k == 'place':
        return [5, s_str(e[1])]
    if k == 'attr':
        return [6, s_expr(e[1]), s_str(e[2])]
    if k == 'sub':
        return [7, s_expr(e[1]), s_str(e[2])]
    if k == 'neg':
        return [8, s_expr(e[1])]
    if k == 'arith':
        return [9, ARITH.index(e[1]), s_expr(e[2]), s_expr(e[3])]
    if k == 'cmp':
        return [10, CMP.index(e[1]), s_expr(e[2]), s_expr(e[3])]
    if k == 'isnull':
        return [11, s_expr(e[1])]
    if k == 'isnotnull':
        return [12, s_expr(e[1])]
    if k == 'between':
        return [13, s_expr(e[1]), s_expr(e[2]), s_expr(e[3])]
    if k == 'not':
        return [14, s_expr(e[1])]
    if k == 'and':
        return [15, [s_expr(x) for x in e[1]]]
    if k == 'or':
        return [16, [s_expr(x) for x in e[1]]]
    _, d, t, f, w, g, o, p, lim = e
    return [17, int(d),
            s_opt(t, lambda tl: [[s_expr(x), s_opt(n, s_str)] for x, n in tl]),
            s_opt(f, s_from), s_opt(w, s_expr),
            s_opt(g, lambda gg: [[s_gcol(x) for x in gg[0]], s_opt(gg[1], s_expr)]),
            [[s_gcol(x), int(dsc)] for x, dsc in o],
            s_opt(p, lambda pp: [s_pcol(pp[0]), s_pcol(pp[1])]),
            s_opt(lim, int)]


def s_stmt(s):
    k = s[0]
    if k == 'select':
        return [0, s_expr(s[1])]
    if k == 'balances':
        return [1, s_opt(s[1], s_str), s_opt(s[2], s_from), s_opt(s[3], s_expr)]
    if k == 'journal':
        return [2, s_opt(s[1], s_str), s_opt(s[2], s_str), s_opt(s[3], s_from)]
    return [3, s_opt(s[1], s_from)]


# --- serialisation of ast.py nodes (strict about Python types) ---------------------------------------------------

class Odd(Exception):
    pass


def a_str(x):
    if type(x) is not str:
        raise Odd(f'expected str, got {x!r}')
    return s_str(x)


def a_lit(v):
    if v is None:
        return [0]
    if type(v) is bool:
        return [1, int(v)]
    if type(v) is int:
        return [2, v]
    if type(v) is D:
        sign, digits, exp = v.as_tuple()
        if sign or not isinstance(exp, int) or exp > 0:
            raise Odd(f'decimal {v!r}')
        return [3, int(''.join(map(str, digits))), -exp]
    if type(v) is datetime.date:
        return [4, v.year, v.month, v.day]
    if type(v) is str:
        return [5, s_str(v)]
    raise Odd(f'literal {v!r}')


BIN = {A.Add: (9, 0), A.Sub: (9, 1), A.Mul: (9, 2), A.Div: (9, 3), A.Mod: (9, 4),
       A.Less: (10, 0), A.LessEq: (10, 1), A.Greater: (10, 2), A.GreaterEq: (10, 3), A.Equal: (10, 4),
       A.NotEqual: (10, 5), A.In: (10, 6), A.NotIn: (10, 7), A.Match: (10, 8), A.NotMatch: (10, 9)}


def a_gcol(x):
    if type(x) is int:
        return [0, x]
    return [1, a_expr(x)]


def a_pcol(x):
    if type(x) is int:
        return [0, x]
    if type(x) is A.Column:
        return [1, a_str(x.name)]
    raise Odd(f'pivot column {x!r}')


def a_date(d):
    if type(d) is not datetime.date:
        raise Odd(f'date {d!r}')
    return [d.year, d.month, d.day]


def a_flag(x):
    if x is True:
        return 1
    if x is None:
        return 0
    raise Odd(f'flag {x!r}')


def a_from(f):
    t = type(f)
    if t is A.Table:
        return [0, a_str(f.name)]
    if t is A.Select:
        return [1, a_expr(f)]
    if t is A.From:
        c = [] if f.close is None else ([[]] if f.close is True else [[a_date(f.close)]])
        return [2, s_opt(f.expression, a_expr), s_opt(f.open, a_date), c, a_flag(f.clear)]
    raise Odd(f'from clause {f!r}')


def a_expr(n):
    t = type(n)
    if t is A.Constant:
        if isinstance(n.value, list):
            return [1, [a_lit(x) for x in n.value]]
        return [0, a_lit(n.value)]
    if t is A.Column:
        return [2, a_str(n.name)]
    if t is A.Function:
        if not isinstance(n.operands, list):
            raise Odd(f'operands {n.operands!r}')
        if len(n.operands) == 1 and type(n.operands[0]) is A.Asterisk:
            return [4, a_str(n.fname)]
        return [3, a_str(n.fname), [a_expr(x) for x in n.operands]]
    if t is A.Placeholder:
        return [5, a_str(n.name)]
    if t is A.Attribute:
        return [6, a_expr(n.operand), a_str(n.name)]
    if t is A.Subscript:
        return [7, a_expr(n.operand), a_str(n.key)]
    if t is A.Neg:
        return [8, a_expr(n.operand)]
    if t in BIN:
        return [BIN[t][0], BIN[t][1], a_expr(n.left), a_expr(n.right)]
    if t is A.IsNull:
        return [11, a_expr(n.operand)]
    if t is A.IsNotNull:
        return [12, a_expr(n.operand)]
    if t is A.Between:
        return [13, a_expr(n.operand), a_expr(n.lower), a_expr(n.upper)]
    if t is A.Not:
        return [14, a_expr(n.operand)]
    if t in (A.And, A.Or):
        if not isinstance(n.args, list):
            raise Odd(f'args {n.args!r}')
        return [15 if t is A.And else 16, [a_expr(x) for x in n.args]]
    if t is A.Select:
        if type(n.targets) is A.Asterisk:
            tg = []
        else:
            tg = [[[a_expr(x.expression), s_opt(x.name, a_str)] for x in n.targets]]
            if not all(type(x) is A.Target for x in n.targets):
                raise Odd('targets')
        g = n.group_by
        if g is not None and type(g) is not A.GroupBy:
            raise Odd('group_by')
        od = []
        for o in (n.order_by or []):
            if type(o) is not A.OrderBy or type(o.ordering) is not A.Ordering:
                raise Odd(f'order_by {o!r}')
            od.append([a_gcol(o.column), int(o.ordering == A.Ordering.DESC)])
        if n.order_by is not None and not n.order_by:
            raise Odd('empty order_by')
        pv = n.pivot_by
        if pv is not None and (type(pv) is not A.PivotBy or len(pv.columns) != 2):
            raise Odd('pivot_by')
        if n.limit is not None and type(n.limit) is not int:
            raise Odd('limit')
        return [17, a_flag(n.distinct), tg, s_opt(n.from_clause, a_from), s_opt(n.where_clause, a_expr),
                s_opt(g, lambda gg: [[a_gcol(x) for x in gg.columns], s_opt(gg.having, a_expr)]),
                od, s_opt(pv, lambda p: [a_pcol(p.columns[0]), a_pcol(p.columns[1])]), s_opt(n.limit, int)]
    raise Odd(f'node {n!r}')


def a_only_from(f):
    if type(f) is not A.From:
        raise Odd(f'from {f!r}')
    return a_from(f)


def a_stmt(n):
    t = type(n)
    if t is A.Select:
        return [0, a_expr(n)]
    if t is A.Balances:
        return [1, s_opt(n.summary_func, a_str), s_opt(n.from_clause, a_only_from), s_opt(n.where_clause, a_expr)]
    if t is A.Journal:
        return [2, s_opt(n.account, a_str), s_opt(n.summary_func, a_str), s_opt(n.from_clause, a_only_from)]
    if t is A.Print:
        return [3, s_opt(n.from_clause, a_only_from)]
    raise Odd(f'statement {n!r}')


# --- the two TatSu parsers --------------------------------------------------------------------------------------

class FreshSemantics(bqp.BQLSemantics):
    def _default(self, value, typename=None, *rest):
        if typename is not None:
            typename = typename.split('::')[0]
        return super()._default(value, typename)


_FRESH = None


def fresh_model():
    global _FRESH
    if _FRESH is None:
        with open(EBNF) as f:
            _FRESH = tatsu.compile(f.read())
    return _FRESH


def run_impl(text):
    try:
        return ['ok', a_stmt(bqp.parse(text))]
    except bqp.ParseError:
        return ['exc', 'ParseError']
    except Odd as e:
        return ['odd', str(e)[:200]]
    except Exception as e:  # noqa: BLE001
        return ['exc', type(e).__name__]


def run_fresh(text):
    try:
        return ['ok', a_stmt(fresh_model().parse(text, semantics=FreshSemantics()))]
    except tatsu.exceptions.ParseError:
        return ['exc', 'ParseError']
    except Odd as e:
        return ['odd', str(e)[:200]]
    except Exception as e:  # noqa: BLE001
        return ['exc', type(e).__name__]


def run_both(text):
    return run_impl(text), run_fresh(text)


# --- token rendering with random concrete choices ---------------------------------------------------------------

KW = ['AND', 'AS', 'ASC', 'BY', 'DESC', 'DISTINCT', 'FALSE', 'FROM', 'GROUP', 'HAVING', 'IN', 'IS', 'LIMIT', 'NOT',
      'OR', 'ORDER', 'PIVOT', 'SELECT', 'TRUE', 'WHERE', 'BALANCES', 'JOURNAL', 'PRINT']
PUNCT = {9: '(', 10: ')', 11: '[', 12: ']', 13: ',', 14: '.', 15: '*', 16: '/', 17: '%', 18: '+', 19: '-', 20: '<',
         21: '<=', 22: '>', 23: '>=', 24: '=', 25: '!=', 26: '~', 27: '!~'}
GAPS = [' ', ' ', ' ', '  ', '\n', '\t', ' \r\n ', '/* c */', ' /* a*b / ** */ ', '; eol comment\n', '\x0c', '\xa0',
        '/**/', ' ', ' ;\n']


def recase(s, rng, mode):
    if mode == 0:
        return s
    if mode == 1:
        return s.lower()
    if mode == 2:
        return s.upper()
    return ''.join(c.upper() if rng.random() < 0.5 else c.lower() for c in s)


def tok_text(t, rng, canonical=False):
    tag = t[0]
    mode = 0 if canonical else rng.choice([0, 0, 1, 2, 3])
    if tag == 0:
        return recase(KW[t[1]], rng, mode)
    if tag == 1:
        return recase(''.join(map(chr, t[1])), rng, mode)
    if tag == 2:
        return ('' if canonical or rng.random() < 0.8 else '0' * rng.choice([1, 2, 3, 30])) + str(t[1])
    if tag == 3:
        _, lead, m, sc = t
        ds = str(m).rjust(sc + 1, '0')
        ip, fp = (ds[:-sc], ds[-sc:]) if sc else (ds, '')
        if not canonical and sc and int(ip) == 0 and rng.random() < 0.4:
            ip = ''
        elif not canonical and rng.random() < 0.15:
            ip = '0' * rng.choice([1, 1, 2, 31]) + ip
        return ip + '.' + fp
    if tag == 4:
        return '%04d-%02d-%02d' % (t[1], t[2], t[3])
    if tag == 5:
        s = ''.join(map(chr, t[1]))
        q = '"' if "'" in s else "'"
        if not canonical and '"' not in s and "'" not in s and rng.random() < 0.5:
            q = '"'
        return q + s + q
    if tag == 6:
        return '#' + ''.join(map(chr, t[1]))
    if tag == 7:
        return '%s' if canonical or rng.random() < 0.8 else '%S'
    if tag == 8:
        name = recase(''.join(map(chr, t[1])), rng, mode)
        if canonical:
            return '%(' + name + ')s'
        return '%(' + rng.choice(['', '', ' ', '/*c*/']) + name + rng.choice(['', '', ' ']) + ')' + rng.choice('sS')
    return PUNCT[tag]


def isword(c):
    return c == '_' or (c.isascii() and c.isalnum())


def needs_space(a, b):
    la, fb = a[-1], b[0]
    return ((isword(la) and isword(fb)) or (la == '.' and fb.isdigit()) or (la.isdigit() and fb == '.')
            or (la == '#' and isword(fb)) or (la in '<>' and fb == '=') or (la == '/' and fb == '*')
            or (la == '%' and fb in 'sS(') or (la.isdigit() and fb == '-'))


def render(tokens, rng, canonical=False):
    parts = [tok_text(t, rng, canonical) for t in tokens]
    if canonical:
        return ' '.join(parts)
    style = rng.random()
    out = [rng.choice(['', '', ' ', '\n', '/* lead */ ', '; first line\n'])]
    for i, p in enumerate(parts):
        if i:
            need = needs_space(parts[i - 1], p)
            if style < 0.25:      # as tight as possible
                gap = ' ' if need else ''
            elif style < 0.6:     # plain
                gap = ' ' if need or rng.random() < 0.8 else ''
            else:                 # noisy
                gap = rng.choice(GAPS) if need or rng.random() < 0.7 else ''
            out.append(gap)
        out.append(p)
    out.append(rng.choice(['', '', ' ', '\n', ';', ' ; trailing', ' /* end */', ';\n']))
    return ''.join(out)


# --- the renderer's spacing rule against the proved one ----------------------------------------------------------

SPACE_REPS = [
    ('TKw KNOT', 'NOT'), ('TKw KSELECT', 'select'), ('TId [115]', 's'), ('TId [115; 117; 109]', 'Sum'),
    ('TId [95; 120]', '_x'), ('TId [97]', 'a'), ('TInt 7%N', '7'), ('TInt 2020%N', '2020'),
    ('TDec true 15%N 1%nat', '1.5'), ('TDec true 1%N 0%nat', '1.'), ('TDec false 5%N 1%nat', '.5'),
    ('TDate 2020%N 1%N 2%N', '2020-01-02'), ('TStr [120]', "'x'"), ('TStr [120]', '"x"'),
    ('TTable []', '#'), ('TTable [116]', '#t'), ('TPlaceS', '%s'), ('TPlaceS', '%S'), ('TPlaceN [112]', '%(p)s'),
    ('TPlaceN [112]', '%( P )S'),
] + [(c, PUNCT[k]) for c, k in [('TLP', 9), ('TRP', 10), ('TLB', 11), ('TRB', 12), ('TComma', 13), ('TDot', 14),
                                 ('TStar', 15), ('TSlash', 16), ('TPercent', 17), ('TPlus', 18), ('TMinus', 19),
                                 ('TLt', 20), ('TLe', 21), ('TGt', 22), ('TGe', 23), ('TEq', 24), ('TNe', 25),
                                 ('TTilde', 26), ('TNotTilde', 27)]]


def needs_space_mirror():
    """C06_text_roundtrip covers a text only if separators are non-empty wherever the Coq predicate needs_space
    holds: the renderer's own rule must be at least as strict, on every pair of token kinds."""
    pairs = [(a, b) for a in SPACE_REPS for b in SPACE_REPS]
    outs = core.coq_eval('c06n', ['Model.Ast', 'Model.Lexer', 'Model.Spelling'],
                         [f'o_bool (needs_space ({a[0]}) ({b[0]}))' for a, b in pairs], shard=400)
    loose, strict = [], 0
    for (a, b), o in zip(pairs, outs):
        py = needs_space(a[1], b[1])
        if o == 1 and not py:
            loose.append((a[1], b[1]))
        elif o == 0 and py:
            strict += 1
    return len(pairs), loose, strict


# --- mutations --------------------------------------------------------------------------------------------------

MUT_TOKENS = KW + ['(', ')', ',', '.', '*', '/', '%', '+', '-', '<', '<=', '>', '>=', '=', '!=', '~', '!~', '[', ']',
                   'NULL', 'BETWEEN', 'OPEN', 'ON', 'CLOSE', 'CLEAR', 'AT', '%s', '%(x)s', '1', '1.5', '.5',
                   '2020-01-01', '2020-13-01', "'s'", '"d"', 'x', 'f(', '#t', '#', ';', '/*', '*/', '_', '!', ':']
MUT_CHARS = ' \n()[],.*/%+-<>=!~\'"#;_0123456789abcsSxX\xe9\xa0'


def mutate(text, rng):
    n = rng.randint(1, 3)
    for _ in range(n):
        r = rng.random()
        if r < 0.2 and text:
            i = rng.randrange(len(text))
            text = text[:i] + text[i + 1:]
        elif r < 0.4:
            i = rng.randint(0, len(text))
            text = text[:i] + rng.choice(MUT_CHARS) + text[i:]
        elif r < 0.5 and text:
            i = rng.randrange(len(text))
            text = text[:i] + rng.choice(MUT_CHARS) + text[i + 1:]
        else:
            ws = text.split(' ')
            k = rng.random()
            i = rng.randrange(len(ws))
            if k < 0.3:
                ws.insert(i, rng.choice(MUT_TOKENS))
            elif k < 0.55:
                ws[i] = rng.choice(MUT_TOKENS)
            elif k < 0.75:
                del ws[i]
            elif k < 0.9 and len(ws) > 1:
                j = rng.randrange(len(ws))
                ws[i], ws[j] = ws[j], ws[i]
            else:
                ws.insert(i, ws[i])
            text = ' '.join(ws)
    return text


# hand-written texts at the edges of the lexical grammar (both accepted and rejected ones)
CORPUS = [
    'SELECT f(,a)', 'SELECT f(a,)', 'SELECT (1,,2)', 'SELECT (,1)', 'SELECT (1)', 'SELECT ((1,2))', 'SELECT a %s',
    'SELECT a %s + 1', 'SELECT a%b', 'SELECT a %(b)s', 'SELECT %sum', 'SELECT 1as x', 'SELECT Select', 'SELECT null',
    'SELECT null(x)', 'SELECT nullx', 'SELECT null_x', 'SELECT not_cleared', 'SELECT true_value', 'SELECT_x',
    'SELECT a AND_b', 'SELECT a FROM open', 'SELECT a FROM open_x', 'SELECT a FROM open ON 2020-01-01',
    'SELECT a FROM x OPEN foo', 'SELECT a FROM x CLOSE ON foo', 'SELECT a FROM x CLOSE', 'SELECT a FROM CLOSE CLEAR',
    'SELECT a FROM #', 'SELECT a FROM # foo', 'SELECT a FROM (SELECT b)', 'SELECT a FROM (SELECT b) + 1',
    'SELECT a FROM ((SELECT b) + 1)', 'SELECT a FROM SELECT b', 'SELECT SELECT a FROM t', 'SELECT 1 + SELECT 2',
    'SELECT 1; SELECT 2', ';SELECT 1', '; x \nSELECT 1', 'SELECT +a', 'SELECT +a.b', 'SELECT +(a)', 'SELECT - - a',
    'SELECT 1.foo', 'SELECT 1 .foo', 'SELECT 1.5.foo', 'SELECT (a).foo', 'SELECT 2020-13-45', 'SELECT 2020-10-101',
    'SELECT 12020-10-10', 'SELECT 2020-10-10-5', 'SELECT 1-2020-10-10', 'SELECT 0000-01-01', 'SELECT 2020-02-30',
    'SELECT 2024-02-29', 'SELECT 2023-02-29', 'SELECT 1900-02-29', 'SELECT 2000-02-29',
    'SELECT a GROUP BY 1 + x', 'SELECT a GROUP BY 1.5', 'SELECT a GROUP BY .5', 'SELECT a GROUP BY 2020-10-10',
    'SELECT a GROUP BY (1 + x)', 'SELECT a ORDER BY 1 + x', 'SELECT a ORDER BY x ASC, y DESC', 'SELECT a PIVOT BY a.b, c',
    'SELECT a PIVOT BY null, 1', 'SELECT a LIMIT 007', 'SELECT a LIMIT 1.5', 'SELECT a, *', 'SELECT a,', 'SELECT *',
    'BALANCES AT select', 'BALANCES AT', 'JOURNAL AT x FROM y', 'JOURNAL "a" "b"', 'PRINT FROM #t', 'PRINT x',
    'SELECT a NOT x', 'SELECT a IS nullx', 'SELECT a < b < c', 'SELECT a < = b', 'SELECT a ! = b', 'SELECT a = = b',
    'SELECT a BETWEEN b', 'SELECT a BETWEEN b AND', 'SELECT a BETWEEN b AND c AND d', 'SELECT a between b AND c',
    "SELECT 'it''s'", 'SELECT "a', 'SELECT 1.5e3', 'SELECT 1 /* unterminated', 'SELECT 1 /*/ 2', 'SELECT 1 /*/ */ + 2',
    'SELECT a AS select', 'SELECT a.B', 'SELECT a . b [ "k" ]', "SELECT a['k']['l']", 'SELECT a[1]', 'SELECT a IN(1,2)',
    'SELECT %(select)s', 'SELECT %( x', 'SELECT %S', 'SELECT %(x)S', 'SELECT a.5', 'SELECT 1..5', 'SELECT 1 .5',
    'SELECT a\xa0b', 'SELECT\xa01', 'SELECT ٣', 'SELECT "٣"', '', ' ', 'SELECT', 'SELECT DISTINCT', 'SELECT DISTINCT *',
    'SELECT a FROM b WHERE c GROUP BY d HAVING e ORDER BY f PIVOT BY g, h LIMIT 1',
    'SELECT a LIMIT 1 FROM b', 'SELECT a WHERE b FROM c', 'SELECT a FROM x OPEN ON 2020-01-01 CLOSE ON 2021-01-01 CLEAR',
    'SELECT a FROM x CLEAR CLOSE', 'SELECT a FROM OPEN ON 2020-01-01 x', 'SELECT count(*), f(*, a)', 'SELECT f(*)',
    'SELECT TRUE(x)', 'SELECT a AND', 'SELECT a OR', 'SELECT NOT', 'SELECT a +', 'SELECT a + )', 'SELECT (a', 'SELECT a)',
]


# corpus texts the lexer/parser factoring is known not to cover (counted as model infidelity, not as violations)
CORPUS_OUTSIDE_MODEL = {'SELECT ٣'}


# --- the depth-2 matrix ------------------------------------------------------------------------------------------

def leaf(i):
    return ('col', 'abcdefgh'[i])


def children():
    out = [('col', 'x'), ('const', ('int', 1)), ('const', ('dec', 15, 1)), ('const', ('date', 2020, 1, 2)),
           ('const', ('str', 's')), ('const', ('null',)), ('const', ('bool', True)), ('list', [('int', 1), ('int', 2)]),
           ('func', 'f', [leaf(4)]), ('funcstar', 'count'), ('place', ''), ('place', 'p'),
           ('attr', leaf(4), 'n'), ('sub', leaf(4), 'k'), ('neg', leaf(4)), ('not', leaf(4)),
           ('isnull', leaf(4)), ('isnotnull', leaf(4)), ('between', leaf(4), leaf(5), leaf(6)),
           ('and', [leaf(4), leaf(5)]), ('or', [leaf(4), leaf(5)]), ('paren', leaf(4)), ('uplus', leaf(4)),
           ('select', False, [(leaf(4), None)], None, None, None, [], None, None)]
    out += [('arith', op, leaf(4), leaf(5)) for op in ARITH]
    out += [('cmp', op, leaf(4), leaf(5)) for op in CMP]
    return out


def parents():
    ps = [('neg', lambda c: ('neg', c)), ('not', lambda c: ('not', c)), ('isnull', lambda c: ('isnull', c)),
          ('isnotnull', lambda c: ('isnotnull', c)), ('paren', lambda c: ('paren', c)),
          ('between.0', lambda c: ('between', c, leaf(1), leaf(2))), ('between.1', lambda c: ('between', leaf(0), c, leaf(2))),
          ('between.2', lambda c: ('between', leaf(0), leaf(1), c)),
          ('and.0', lambda c: ('and', [c, leaf(1)])), ('and.1', lambda c: ('and', [leaf(0), c, leaf(2)])),
          ('and.2', lambda c: ('and', [leaf(0), leaf(1), c])),
          ('or.0', lambda c: ('or', [c, leaf(1)])), ('or.1', lambda c: ('or', [leaf(0), c, leaf(2)])),
          ('or.2', lambda c: ('or', [leaf(0), leaf(1), c])),
          ('func.0', lambda c: ('func', 'g', [c, leaf(1)])), ('func.1', lambda c: ('func', 'g', [leaf(0), c]))]
    for op in ARITH:
        ps.append((f'{op}.l', lambda c, op=op: ('arith', op, c, leaf(1))))
        ps.append((f'{op}.r', lambda c, op=op: ('arith', op, leaf(0), c)))
    for op in CMP:
        ps.append((f'{op}.l', lambda c, op=op: ('cmp', op, c, leaf(1))))
        ps.append((f'{op}.r', lambda c, op=op: ('cmp', op, leaf(0), c)))
    return ps


def long_literal_cases():
    """decimal and integer literals with 29..40 significant digits (beyond the 28 of the default decimal context), long
    fractions, pairs that differ only in the last digit: in targets, WHERE, lists, under unary minus, in GROUP BY /
    ORDER BY / HAVING / function arguments; compared digit for digit through the AST serialisation."""
    one = 10 ** 29
    pairs = [(one + 1, 29), (one + 2, 29), (10 ** 39 + 7, 0), (10 ** 39 + 8, 0), (int('9' * 29), 28), (int('9' * 30), 1),
             (int('123456789' * 4 + '1234'), 40), (int('123456789' * 4 + '1235'), 40), (5, 45), (10 ** 28 + 1, 45)]
    lits = [('dec', m, sc) for m, sc in pairs] + [('int', 10 ** 29 + 1), ('int', 10 ** 29 + 2), ('int', int('9' * 40))]
    out = []
    sel = lambda t=None, f=None, w=None, g=None, o=(): ('select', False, t or [(leaf(7), None)], f, w, g, list(o), None, None)
    for i, l in enumerate(lits):
        c = ('const', l)
        other = ('const', lits[(i + 1) % len(lits)])
        out.append((f'long:target:{i}', ('select', sel(t=[(c, None), (('neg', c), 'n')]))))
        out.append((f'long:where:{i}', ('select', sel(w=('cmp', 'Eq', c, other)))))
        out.append((f'long:list:{i}', ('select', sel(w=('cmp', 'In', leaf(0), ('list', [l, lits[(i + 1) % len(lits)], ('null',)]))))))
        out.append((f'long:arith:{i}', ('select', sel(t=[(('arith', 'Sub', ('neg', c), ('arith', 'Mul', other, c)), None)],
                                                      g=([('expr', ('paren', c))], ('cmp', 'Lt', c, other)),
                                                      o=[(('expr', ('func', 'abs', [c])), True)]))))
        out.append((f'long:balances:{i}', ('balances', None, ('from', ('between', leaf(0), c, other), None, None, False), c)))
    return out


def unicode_literal_cases():
    """(fix-F) every string of USTRS in every place the grammar has a string: constant (target, WHERE operand, function
    argument, pattern of ~), list element (first and later), subscript key, JOURNAL pattern (alone, with AT, with FROM); each
    case also carries ANOTHER string of the pool (its neighbour: the NFC / NFD twin, the canonical order, the
    singleton's target ...), so that two strings a text-level treatment would identify stand in one statement."""
    out = []
    sel = lambda t=None, f=None, w=None, g=None, o=(): ('select', False, t or [(leaf(7), None)], f, w, g, list(o), None, None)
    n = len(USTRS)
    for i, (cls, u) in enumerate(USTRS):
        v = USTRS[(i + 1) % n][1]
        c, c2 = ('const', ('str', u)), ('const', ('str', v))
        out.append((f'unicode:{cls}:target:{i}', ('select', sel(t=[(c, None), (c2, 'n')]))))
        out.append((f'unicode:{cls}:where:{i}', ('select', sel(w=('or', [('cmp', 'Eq', leaf(0), c), ('cmp', 'Match', leaf(1), c2)])))))
        out.append((f'unicode:{cls}:list:{i}', ('select', sel(w=('cmp', 'In', leaf(0), ('list', [('str', u), ('str', v), ('null',), ('str', u)]))))))
        out.append((f'unicode:{cls}:key:{i}', ('select', sel(t=[(('sub', ('sub', leaf(2), u), v), None), (('func', 'f', [c, ('sub', leaf(3), u)]), None)]))))
        sf = [None, 'cost', 'units'][i % 3]
        fr = [None, ('from', ('cmp', 'NotMatch', leaf(0), c2), None, None, False), ('from', None, (2020, 1, 2), ('some', None), True)][(i // 3) % 3]
        out.append((f'unicode:{cls}:journal:{i}', ('journal', u, sf, fr)))
        out.append((f'unicode:{cls}:balances:{i}', ('balances', sf, ('from', ('cmp', 'Eq', ('sub', leaf(0), u), c2), None, None, False), ('cmp', 'Match', leaf(1), c))))
    return out


def matrix():
    """every parent operator x child form x operand position; attribute / subscript / unary plus only over
    the children the grammar can express there"""
    cases = []
    for pname, mk in parents():
        for c in children():
            cases.append((f'{pname}<-{c[0]}{":" + c[1] if c[0] in ("arith", "cmp") else ""}', mk(c)))
    for c in children():
        if lvl(c) >= 8:
            cases.append((f'attr<-{c[0]}', ('attr', c, 'n')))
            cases.append((f'sub<-{c[0]}', ('sub', c, 'k')))
        if lvl(c) == 9:
            cases.append((f'uplus<-{c[0]}', ('uplus', c)))
    out = []
    for i, (name, e) in enumerate(cases):
        pos = i % 6
        sel = lambda t=None, f=None, w=None, g=None, o=(), **kw: ('select', False, t or [(leaf(7), None)], f, w, g, list(o), None, None)
        if pos == 0:
            st = ('select', sel(t=[(e, None)]))
        elif pos == 1:
            st = ('select', sel(w=e))
        elif pos == 2:
            st = ('select', sel(f=('from', e, None, None, False)))
        elif pos == 3:
            st = ('select', sel(g=([('expr', e)], e)))
        elif pos == 4:
            st = ('select', sel(o=[(('expr', e), True)]))
        else:
            st = ('balances', None, ('from', e, None, ('some', None), False), e)
        out.append((name, st))
    return out


# --- grammar introspection -> coq/Gen/Grammar.v ----------------------------------------------------------------

def q(s):
    return '"' + str(s).replace('"', '""') + '"'


def g_exp(x):
    from tatsu import grammars as G
    t = type(x)
    if t is G.Token:
        return f'GTok {q(x.token)}'
    if t is G.Pattern:
        return f'GPat {q(x.pattern)}'
    if t is G.RuleRef:
        return f'GRef {q(x.name)}'
    if t is G.Sequence:
        return 'GSeq ' + clist([g_exp(s) for s in x.sequence])
    if t is G.Choice:
        return 'GChoice ' + clist([g_exp(o) for o in x.options])
    if t is G.Option:
        return g_exp(x.exp)
    if t is G.Optional:
        return f'GOpt ({g_exp(x.exp)})'
    if t is G.Closure:
        return f'GClos ({g_exp(x.exp)})'
    if t is G.PositiveClosure:
        return f'GPClos ({g_exp(x.exp)})'
    if t in (G.Gather, G.PositiveGather, G.Join, G.PositiveJoin):
        c = 'GGather' if t in (G.Gather, G.PositiveGather) else 'GJoin'
        pos = 'true' if t in (G.PositiveGather, G.PositiveJoin) else 'false'
        return f'{c} {pos} ({g_exp(x.sep)}) ({g_exp(x.exp)})'
    if t is G.Named:
        return f'GNamed {q(x.name)} ({g_exp(x.exp)})'
    if t is G.NamedList:
        return f'GNamedL {q(x.name)} ({g_exp(x.exp)})'
    if t is G.Override:
        return f'GOver ({g_exp(x.exp)})'
    if t is G.OverrideList:
        return f'GOverL ({g_exp(x.exp)})'
    if t is G.Cut:
        return 'GCut'
    if t is G.Constant:
        return f'GConst {q(x.literal)}'
    if t is G.Lookahead:
        return f'GLook ({g_exp(x.exp)})'
    if t is G.NegativeLookahead:
        return f'GNLook ({g_exp(x.exp)})'
    if t is G.Void:
        return 'GVoid'
    if t is G.EOF:
        return 'GEof'
    if t is G.Group:
        return f'GGroup ({g_exp(x.exp)})'
    if t is G.EmptyClosure:
        return 'GEmptyClos'
    return f'GOther {q(t.__name__)}'


def grammar_term():
    with open(EBNF) as f:
        text = f.read()
    model = tatsu.compile(text)
    dirs = clist([f'({q(k)}, {q(v)})' for k, v in sorted(model.directives.items())])
    kws = clist([q(k) for k in model.keywords])
    rules = []
    for r in model.rules:
        params = clist([q(p) for p in (r.params or [])])
        rules.append(f'  ({q(r.name)}, {params}, {"true" if r.is_name else "false"}, {"true" if r.is_leftrec else "false"},\n'
                     f'   {g_exp(r.exp)})')
    return (f'({dirs},\n {kws},\n [\n' + ';\n'.join(rules) + '\n ])'), len(model.rules), text


GEN_HEADER = '''(* GENERATED by harness/vf/c06.py generate() from tatsu.compile(/repo/beanquery/parser/bql.ebnf).
   Do not edit: regenerated on every run; Proofs/ParserProofs.v proves Gen.Grammar.grammar = Model.Grammar.grammar. *)
From Coq Require Import String List.
Import ListNotations.
From Verif Require Import Model.Grammar.
Open Scope string_scope.

Definition grammar : grammar_t :=
'''


def generate():
    term, nrules, _ = grammar_term()
    core.write_if_changed(os.path.join(core.COQ, 'Gen', 'Grammar.v'), GEN_HEADER + term + '.\n')
    out = {'grammar_rules_introspected': nrules}
    # bld-sem: translator tie of the semantic actions (BQLSemantics, parse) -> Gen/SrcSemantics.v; fails closed
    from . import gen_src
    out.update(gen_src.generate('semantics'))
    return out


# --- stream "text-to-rows": statement TEXT -> lex -> parse -> to_cstmt -> compile -> lower -> exec, all inside Coq ----

def observe_t2r(case):
    """implementation side: conn.execute(TEXT).fetchall() + description datatypes (builder-C05's end-to-end observer,
    but the statement is handed over as text)"""
    from . import c05, values
    import beanquery
    e_ = c05.env()
    conn = e_['conn']
    rows = [c05.dec_row(r) for r in case['rows']]
    conn.tables['v'] = impl.make_table('v', [(c, c05.E2E_PY[t]) for c, t in c05.E2E_COLS], rows)
    rec = {'phase': None, 'result': None, 'msg': None}
    try:
        curs = conn.execute(case['text'], c05.py_params(case.get('params')))
        types = [[ord(c) for c in c05.tname(col.datatype)] for col in curs.description]
        rec.update(phase='ok', result=[0, types, values.canon_rows(curs.fetchall())])
    except beanquery.ParseError as e:
        rec.update(phase='parse', result=[4], msg=str(e)[:200])
    except beanquery.ProgrammingError as e:
        rec.update(phase='compile', result=[1, c05.kind_of(e)], msg=str(e)[:200])
    except Exception as e:  # noqa: BLE001
        rec.update(phase='raise', result=[2], msg=repr(e)[:200])
    return rec


def text_to_rows(tier, rng):
    from . import c05, values
    cases = c05.e2e_cases(tier, rng)
    fixed = [c for c in cases if c['rule'] == 'e2e:fixed']
    lib = [c for c in cases if c['rule'].startswith('e2e:lib')]      # bld-link: statements over the C18 library functions
    rand = [c for c in cases if c['rule'] != 'e2e:fixed' and not c['rule'].startswith('e2e:lib')]
    if tier == 'quick':
        rand = rand[:280]
        lib = lib[:120]
    cases = rand + lib + fixed
    # the same statements respelled: upper/lower keywords, extra blanks and a comment (the front end must not care)
    for c in list(rand[:40]):
        t = c['text']
        cases.append(dict(c, text='/* respelled */ ' + t.replace(' FROM ', '\n  from ').replace('SELECT ', 'select  ') + ' ; end',
                          rule=c['rule'] + ':respelled'))
    outside = ['PRINT', 'SELECT a FROM year = 2020', "SELECT b['\u00e9'] FROM #v", 'BALANCES', 'SELECT a FROM #nosuch',
               "SELECT a FROM #v WHERE b = 'caf\u00e9' ORDER BY a", 'SELECT 1 +']
    cases += [dict(stream='t2r', rule='t2r:outside', text=t, params=None, rows=fixed[0]['rows']) for t in outside]
    recs = core.pmap(observe_t2r, cases)
    sc = '(' + c05.e2e_schema_coq() + ' :: ' + c05.schema_coq() + ')'
    exprs = []
    for c in cases:
        rows = values.rows_to_coq([c05.dec_row(x) for x in c['rows']])
        exprs.append(f'(run_text_out {sc} [("v", {rows})] {c05.c_params(c.get("params"))} {cstr(c["text"])})')
    models = core.coq_eval('c06t', ['Base.PyValue', 'Model.Compile', 'Model.Link', 'Model.Front'], exprs, shard=40)
    hist = {'impl_phase': {}, 'model': {}, 'not_lowerable_stage': {}}
    violations = {}
    compared = rows_compared = 0
    names = {0: 'rows', 1: 'rejected-by-compiler', 2: 'raises', 3: 'not-lowerable', 4: 'does-not-parse', 5: 'not-translatable'}
    for c, r, m in zip(cases, recs, models):
        hist['impl_phase'][r['phase']] = hist['impl_phase'].get(r['phase'], 0) + 1
        hist['model'][names[m[0]]] = hist['model'].get(names[m[0]], 0) + 1
        if m[0] == 3:
            hist['not_lowerable_stage'][str(m[1])] = hist['not_lowerable_stage'].get(str(m[1]), 0) + 1
            continue
        if m[0] == 5:
            continue
        compared += 1
        if m[0] == 0 and r['phase'] == 'ok':
            rows_compared += 1
        if c05.norm(m) != c05.norm(r['result']):
            short = c['text'] if len(c['text']) < 200 else c['text'][:197] + '...'
            sig = 'text-to-rows:' + short
            if sig not in violations and len(violations) < 3:
                violations[sig] = core.Violation(
                    'text-to-rows', f'{short!r} params={c.get("params")} over rows {c["rows"]}: conn.execute(text) '
                    f'{c05.describe_e2e(r["result"], r["msg"])} but lex+parse+translate+compile+lower+exec in Coq gives '
                    f'{c05.describe_e2e(m, None) if m[0] < 4 else names[m[0]]}',
                    {'case': c, 'impl': r['result'], 'model': m, 't2r': True}, signature=sig)
    cov = {'t2r_statements': len(cases), 't2r_compared': compared, 't2r_rows_compared': rows_compared,
           't2r_not_lowerable': hist['model'].get('not-lowerable', 0), 't2r_not_translatable': hist['model'].get('not-translatable', 0),
           't2r_histograms': hist, 't2r_samples': [c['text'] for c in cases[:3]],
           't2r_library_statements': len(lib), 't2r_library_functions': c05.lib_function_counts(cases, models)}
    return cov, list(violations.values())


# --- evaluation helpers -----------------------------------------------------------------------------------------

def coq_print(stmts, tag):
    return core.coq_eval(tag, ['Model.Ast', 'Model.Lexer', 'Model.Parser', 'Model.Printer', 'Model.AstOut'],
                         [f'print_out {c_stmt(s)}' for s in stmts], shard=200)


def coq_parse(texts, tag):
    return core.coq_eval(tag, ['Model.Ast', 'Model.Lexer', 'Model.Parser', 'Model.Printer', 'Model.AstOut'],
                         [f'parse_out {cstr(t)}' for t in texts], shard=200)


def coq_peg(texts, tag):
    """[hand-written parser result, PEG-interpreter-on-Gen.Grammar.grammar result] per text, both inside Coq"""
    return core.coq_eval(tag, ['Model.Ast', 'Model.Lexer', 'Model.Parser', 'Model.Printer', 'Model.AstOut', 'Model.PegActions'],
                         [f'both_out {cstr(t)}' for t in texts], shard=40)


PEG_CODES = {98: 'accepted text whose node is not an ast.py statement object', 99: 'out of fuel'}


def peg_stream(printed, muts, rng, quick, unicode_texts=()):
    """FOUR-way comparison on the same texts as the other streams: shipped parser, parser rebuilt in-process from bql.ebnf,
    hand-written Coq parser, and peg_parse = the generic PEG interpreter (Model/Peg.v) executing Gen.Grammar.grammar
    (regenerated from bql.ebnf by generate()) inside Coq.  peg_parse must give the verdict AND the AST of the TatSu parsers
    on every text (printer outputs, mutated texts, corpus); the hand-written parser is measured against it."""
    n_p, n_m = (700, 560) if quick else (6000, 6000)
    scale = float(os.environ.get('C06_PEG_SCALE', '1'))
    n_p, n_m = int(n_p * scale), int(n_m * scale)
    corpus = [t for t in CORPUS if all(ord(c) < 0x10000 for c in t)]
    rest = [m for m in muts if m not in set(corpus)]
    # (fix-F) the printed texts with non-ASCII / non-NFC string contents are ALL compared four ways (they take the place of as
    # many sampled printed texts: the size of the stream is unchanged)
    unicode_texts = list(dict.fromkeys(unicode_texts))
    n_p = max(n_p // 2, n_p - len(unicode_texts))
    uset = set(unicode_texts)
    printed = [t for t in printed if t not in uset]
    cases = ([('printed-unicode-strings', t) for t in unicode_texts]
             + [('printed', t) for t in (printed if len(printed) <= n_p else rng.sample(printed, n_p))]
             + [('corpus', t) for t in corpus]
             + [('mutated', t) for t in (rest if len(rest) <= n_m else rng.sample(rest, n_m))])
    texts = [t for _, t in cases]
    both = core.pmap(run_both, texts)
    model = coq_peg(texts, 'c06g')
    viol, seen = [], set()
    h = {'four_agree_accept': 0, 'four_agree_reject': 0, 'peg_vs_tatsu_disagree': 0, 'hand_vs_peg_disagree': 0,
         'tatsu_parsers_disagree': 0, 'peg_out_of_fuel': 0}
    by_stream = {}
    hand_diff = []
    outside = []
    for (stream, text), (ri, rf), (hand, peg) in zip(cases, both, model):
        by_stream[stream] = by_stream.get(stream, 0) + 1
        if ri != rf or ri[0] == 'odd':
            h['tatsu_parsers_disagree'] += 1      # reported by the mutated stream of run()
            continue
        want = [ri[1]] if ri[0] == 'ok' else []
        if peg == 99:
            h['peg_out_of_fuel'] += 1
        if peg != want:
            h['peg_vs_tatsu_disagree'] += 1
            if text in CORPUS_OUTSIDE_MODEL:
                outside.append(text)
                continue
            small = text

            def still(t):
                a, b = run_both(t)
                if a != b or a[0] == 'odd':
                    return False
                w = [a[1]] if a[0] == 'ok' else []
                return coq_peg([t], 'c06gs')[0][1] != w
            if len(seen) < 3:
                small = shrink_text(text, still, budget=60)
            sig = 'peg-vs-tatsu:' + small
            if sig not in seen and len(seen) < 3:
                seen.add(sig)
                a, _ = run_both(small)
                pm = coq_peg([small], 'c06gs')[0][1]
                viol.append(core.Violation(
                    'peg-vs-tatsu', f'text {small!r}: shipped parser and parser built from bql.ebnf give {brief(a)}; the PEG interpreter '
                    f'executing the regenerated grammar in Coq gives {PEG_CODES.get(pm, brief(pm)) if isinstance(pm, int) else brief(pm)}',
                    {'text': small, 'impl': a, 'peg': pm, 'peg4': True}, signature=sig))
            continue
        if hand != peg:
            h['hand_vs_peg_disagree'] += 1
            hand_diff.append(text)
        elif want:
            h['four_agree_accept'] += 1
        else:
            h['four_agree_reject'] += 1
    cov = {'peg_texts': len(texts), 'peg_by_stream': by_stream, 'peg_histogram': h,
           'peg_hand_vs_peg_samples': hand_diff[:8], 'peg_disagree_on_corpus_outside_model': outside,
           'peg_rule': 'same printed / corpus / mutated texts as the other streams (sampled: quick '
                       f'{n_p} printed + whole corpus + {n_m} mutated); 4 parsers: shipped parser.py, tatsu.compile(bql.ebnf), '
                       'hand-written Model/Parser.v, Model/Peg.v interpreting Gen/Grammar.v by vm_compute; '
                       'peg must equal the TatSu verdict and AST on every text'}
    return cov, viol


def kinds(e, h):
    if isinstance(e, tuple) and e and isinstance(e[0], str):
        h[e[0]] = h.get(e[0], 0) + 1
        for x in e[1:]:
            kinds(x, h)
    elif isinstance(e, (list, tuple)):
        for x in e:
            kinds(x, h)


def depth(e):
    if isinstance(e, tuple) and e and isinstance(e[0], str):
        return 1 + max([depth(x) for x in e[1:]] + [0])
    if isinstance(e, (list, tuple)):
        return max([depth(x) for x in e] + [0])
    return 0


def check_printed(cases, rng, tag, nrender):
    """cases: list of (label, stmt tree). Returns (records, failures)."""
    outs = coq_print([s for _, s in cases], tag + 'p')
    texts, meta = [], []
    fails = []
    for (label, st), o in zip(cases, outs):
        wf, lexok, toks, erased, tokparse = o
        exp = s_stmt(st)
        if not wf or not lexok:
            fails.append(('generator', label, st, None, f'generated tree is not wf/lex_ok (wf={wf}, lex_ok={lexok})'))
            continue
        if erased != exp:
            fails.append(('erase-mirror', label, st, None, 'Coq erase differs from the harness erase'))
            continue
        if tokparse != [exp]:
            fails.append(('coq-token-roundtrip', label, st, render(toks, rng, True),
                          'Coq parse_tokens (print_stmt c) is not Some (erase c): the proved theorem or wf is violated'))
            continue
        canon = render(toks, rng, canonical=True)
        if nrender == 0:      # one text per tree: canonical or random spelling, alternating
            variants = [canon if len(texts) % 2 else render(toks, rng)]
        else:
            variants = [canon] + [render(toks, rng) for _ in range(nrender)]
        for v in variants:
            texts.append(v)
            meta.append((label, st, exp, canon))
    both = core.pmap(run_both, texts)
    model = coq_parse(texts, tag + 't')
    for text, (label, st, exp, canon), (ri, rf), m in zip(texts, meta, both, model):
        if ri != ['ok', exp]:
            fails.append(('roundtrip-impl', label, st, text, f'beanquery.parser.parse gives {brief(ri)} instead of the printed tree'))
        elif rf != ['ok', exp]:
            fails.append(('roundtrip-grammar', label, st, text, f'the parser built from bql.ebnf gives {brief(rf)} instead of the printed tree'))
        elif m != [exp]:
            fails.append(('roundtrip-model', label, st, text, 'Coq parse_text differs from the printed tree (lexer/model infidelity)'))
    return texts, meta, fails


def brief(r):
    s = repr(r)
    return s if len(s) < 160 else s[:160] + '...'


def literal_case_sequences():
    """Consecutive parses in ONE process of texts that differ only in the letter case of string literals, subscript keys,
    table names or the JOURNAL account string: every parse must return the literal exactly as written (parsing is a function
    of the text alone, no state carried from earlier parses). Oracle: the literal found in the returned AST."""
    import beanquery
    from beanquery import parser as bp
    bad = []
    n = 0
    pairs = [
        ("SELECT a WHERE payee = '{}'", ['Cafe', 'CAFE', 'cafe', 'cAFE'], lambda t: t.where_clause.right.value),
        ("SELECT meta['{}']", ['Key', 'KEY', 'key'], lambda t: t.targets[0].expression.key),
        ("SELECT a FROM #{}", ['Accounts', 'accounts', 'ACCOUNTS'], lambda t: t.from_clause.name),
        ("JOURNAL '{}'", ['Assets:Cash', 'assets:cash', 'ASSETS:CASH'], lambda t: t.account),
        ("SELECT a WHERE b IN ('{}', 'x')", ['Ab', 'aB', 'AB'], lambda t: t.where_clause.right.value[0]),
        ('SELECT a   WHERE payee ~ "{}"  ', ['Mixed Case', 'mixed case', 'MIXED CASE'], lambda t: t.where_clause.right.value),
    ]
    for tmpl, lits, get in pairs:
        for order in (lits, list(reversed(lits)), lits):
            for lit in order:
                for text in (tmpl.format(lit), tmpl.format(lit).upper().replace(lit.upper(), lit), ' ' + tmpl.format(lit) + ' '):
                    n += 1
                    try:
                        got = get(bp.parse(text))
                        want = lit
                        if got != want:
                            bad.append((text, got, want))
                    except Exception as e:  # noqa: BLE001
                        bad.append((text, repr(e), lit))
    return n, bad


def concurrent_round(texts, reps=1, switch=1e-6):
    """One barrier-synchronised burst per repetition: len(texts) threads, thread k parses texts[k] (fix-D).
    -> [[result of thread k in repetition r ...] ...].  The interpreter's switch interval is lowered for the burst (and
    restored), so that the threads really are inside beanquery.parser.parse() at the same time."""
    import sys
    import threading
    n = len(texts)
    out = [[None] * n for _ in range(reps)]
    barrier = threading.Barrier(n)

    def work(k):
        for r in range(reps):
            try:
                barrier.wait(timeout=60)
            except threading.BrokenBarrierError:
                out[r][k] = ['exc', 'BrokenBarrier']
                return
            out[r][k] = run_impl(texts[k])
    old = sys.getswitchinterval()
    sys.setswitchinterval(switch)
    try:
        ths = [threading.Thread(target=work, args=(k,), daemon=True) for k in range(n)]
        for t in ths:
            t.start()
        for t in ths:
            t.join(120)
    finally:
        sys.setswitchinterval(old)
    return out


def concurrent_stream(pool, rng, rounds, nthreads, switch=1e-6, known=None):
    """parse(text) is a function of the text, whatever else the process is parsing: `rounds` bursts of `nthreads` threads
    parsing DIFFERENT texts at the same time; every result (type-tagged tree, or the rejection) is compared with the
    serial parse of the same text in this process.  -> (coverage, violations)"""
    violations, seen = [], set()
    serial = {}
    wrong = calls = 0
    kinds_ = {}
    lens_ = []
    for r in range(rounds):
        texts = rng.sample(pool, nthreads) if len(pool) >= nthreads else [rng.choice(pool) for _ in range(nthreads)]
        for t in texts:
            if t not in serial:
                # the serial parse: the one the printed / mutated stream made of this text in a worker process of its own, or
                # (every 4th text, and texts not seen by those streams) one made here, before any thread exists
                again = run_impl(t) if (known is None or t not in known or len(serial) % 4 == 0) else known[t]
                serial[t] = known[t] if known is not None and t in known else again
                if again != serial[t] and len(seen) < 3:
                    seen.add('serial:' + t)
                    violations.append(core.Violation('parse-not-a-function-of-text', f'two serial parses of {t!r} differ: {brief(serial[t])} / {brief(again)}',
                                                     {'concurrent': True, 'texts': [t], 'reps': 2}, signature='serial-repeat:' + t))
            lens_.append(len(t))
        got = concurrent_round(texts, switch=switch)[0]
        for t, g in zip(texts, got):
            calls += 1
            k = serial[t][0] if serial[t][0] == 'ok' else 'rejected'
            kinds_[k] = kinds_.get(k, 0) + 1
            if g != serial[t]:
                wrong += 1
                if len(seen) < 2:
                    sig = 'concurrent-parse:' + brief(g if g[0] != 'ok' else ['ok', 'another tree'])
                    if sig in seen:
                        continue
                    seen.add(sig)
                    violations.append(core.Violation(
                        'concurrent-parse', f'parse({t!r}) while {nthreads - 1} other threads parse other statements gives {brief(g)}; '
                        f'the same call alone gives {brief(serial[t])}',
                        {'concurrent': True, 'texts': texts, 'text': t, 'got': g, 'serial': serial[t], 'reps': 25}, signature=sig))
    cov = {'concurrent_rounds': rounds, 'concurrent_threads': nthreads, 'concurrent_calls': calls, 'concurrent_distinct_texts': len(serial),
           'concurrent_wrong_results': wrong, 'concurrent_serial_outcomes': kinds_, 'concurrent_text_length_histogram': lens(lens_),
           'concurrent_switch_interval': switch}
    return cov, violations


def run(tier, rng):
    violations = []
    quick = tier == 'quick'
    nseq, seqbad = literal_case_sequences()
    for text, got, want in seqbad[:2]:
        violations.append(core.Violation('parse-not-a-function-of-text', f'parse({text!r}) after parsing case variants of the same text '
                                         f'returned the literal {got!r} instead of {want!r}', {'text': text, 'got': got, 'want': want},
                                         signature='literal-case:' + text))
    t2r_cov, t2r_viol = text_to_rows(tier, rng)
    violations.extend(t2r_viol)
    npairs, loose, stricter = needs_space_mirror()
    for a, b in loose[:2]:
        violations.append(core.Violation(
            'needs-space-mirror', f'the renderer may glue {a!r} and {b!r} but the proved predicate needs_space requires a separator',
            {'left': a, 'right': b}, signature=f'needs-space:{a}|{b}', found_input=False))
    n_rand = 400 if quick else 25000
    nrender = 1 if quick else 2
    n_mut = 1200 if quick else 40000
    depths = [1, 2, 2, 3] if quick else [1, 2, 2, 3, 3, 4]
    scale = float(os.environ.get('C06_SCALE', '1'))
    n_rand, n_mut = int(n_rand * scale), int(n_mut * scale)

    # (ii) shipped parser.py = translation of the grammar
    _, nrules, gtext = grammar_term()
    with open(PARSER_PY) as f:
        shipped = f.read()
    same_source = tatsu.to_python_sourcecode(gtext, name='BQL') == shipped
    if not same_source:
        violations.append(core.Violation(
            'shipped-parser-differs', 'beanquery/parser/parser.py is not the TatSu translation of bql.ebnf',
            {'check': "tatsu.to_python_sourcecode(open('bql.ebnf').read(), name='BQL') == open('parser.py').read()"},
            signature='parser.py!=tatsu(bql.ebnf)'))

    # (iii) printed stream
    cases = [('matrix:' + n, s) for n, s in matrix()]
    n_matrix = len(cases)
    cases += long_literal_cases()
    ucases = unicode_literal_cases()
    cases += ucases
    rcases = [(f'random:{i}', gen_stmt(rng, rng.choice(depths))) for i in range(n_rand)]
    hist, dh = {}, {}
    for _, s in rcases:
        kinds(s, hist)
        d = depth(s)
        dh[d] = dh.get(d, 0) + 1
    shist = {}
    sdistinct = set()
    for _, s_ in rcases + ucases:
        found = []
        tree_strings(s_, found)
        for u in found:
            sdistinct.add(u)
            for k in str_classes(u):
                shist[k] = shist.get(k, 0) + 1
    texts, meta, fails = check_printed(cases, rng, 'c06m', 0 if quick else 1)
    t2, m2, f2 = check_printed(rcases, rng, 'c06r', nrender)
    texts, meta, fails = texts + t2, meta + m2, fails + f2
    seen = set()
    for kind, label, st, text, why in fails:
        if len(seen) >= 3:
            break
        if kind in ('roundtrip-impl', 'roundtrip-grammar'):
            st, text = shrink_tree(st, rng)
        sig = f'{kind}:{text if text is not None else label}'
        if sig in seen:
            continue
        seen.add(sig)
        violations.append(core.Violation(kind, f'{label}: {why}; text={text!r}',
                                         {'tree': st, 'text': text, 'expected': s_stmt(st), 'why': why},
                                         signature=sig, found_input=True))

    # mutated stream: the two TatSu parsers must agree exactly; the Coq parser is measured
    base = [t for t in texts if len(t) < 400]
    muts = list(CORPUS)
    while len(muts) < n_mut + len(CORPUS) and base:
        muts.append(mutate(rng.choice(base), rng))
    muts = [m for m in muts if all(ord(c) < 0x10000 for c in m)]
    both = core.pmap(run_both, muts)
    model = coq_parse(muts, 'c06x')
    accepted = 0
    infid = []
    gsig = set()
    csig = set()
    for text, (ri, rf), m in zip(muts, both, model):
        if ri[0] == 'ok':
            accepted += 1
        if ri != rf or ri[0] == 'odd':
            small = shrink_text(text, lambda t: (lambda a, b: a != b or a[0] == 'odd')(*run_both(t)))
            sig = 'grammar-diff:' + small
            if sig not in gsig and len(gsig) < 3:
                gsig.add(sig)
                a, b = run_both(small)
                violations.append(core.Violation(
                    'parser-vs-grammar', f'text {small!r}: shipped parser {brief(a)}, parser built from bql.ebnf {brief(b)}',
                    {'text': small, 'impl': a, 'grammar': b}, signature=sig))
            continue
        want = [ri[1]] if ri[0] == 'ok' else []
        if m != want and text in CORPUS and text not in CORPUS_OUTSIDE_MODEL and len(csig) < 3 and text not in csig:
            # the hand corpus is inside the model's domain: there the Coq parser is the oracle for both TatSu parsers
            csig.add(text)
            violations.append(core.Violation(
                'corpus-vs-model', f'text {text!r}: beanquery.parser.parse gives {brief(ri)}, the Coq parser gives {brief(m)}',
                {'text': text, 'impl': ri, 'model': m}, signature='corpus:' + text))
        if m != want:
            infid.append((text, 'impl accepts' if ri[0] == 'ok' else f'impl rejects ({ri[1]})',
                          'model accepts' if m else 'model rejects'))
    utexts = [t for t, m_ in zip(texts, meta) if m_[0].startswith('unicode:')]
    utexts += [t for t, m_ in zip(texts, meta) if not m_[0].startswith('unicode:') and any(ord(c) > 127 for c in t)][:60 if quick else 600]
    peg_cov, peg_viol = peg_stream(texts, muts, rng, quick, unicode_texts=utexts)
    violations.extend(peg_viol)
    # concurrent stream (fix-D): long printed statements + some mutants, several threads inside parse() at once
    known = {text: ri for text, (ri, rf) in zip(muts, both)}
    known.update({t: ['ok', exp] for t, (label, st, exp, canon) in zip(texts, meta)})
    bad_texts = {f[3] for f in fails if f[3] is not None}
    cpool = sorted(t for t in set(texts) | set(muts[len(CORPUS)::3]) if 80 <= len(t) <= 260 and t not in bad_texts)
    if len(cpool) < 8:
        cpool = sorted(set(texts) - bad_texts)
    import time as _time
    _t0 = _time.time()
    conc_cov, conc_viol = concurrent_stream(cpool, rng, 12 if quick else 300, 4, known=known)
    conc_cov['concurrent_stream_seconds'] = round(_time.time() - _t0, 1)
    core.log(f'[C06] concurrent stream: {conc_cov["concurrent_stream_seconds"]}s')
    violations.extend(conc_viol)
    classes = {}
    for t, a, b in infid:
        c = classify(t)
        classes[c] = classes.get(c, 0) + 1
    cov = {
        'evaluations': len(texts) + len(muts),
        'distinct_nontrivial': len({t for t in texts}) + len({m for m in muts}),
        'rule': 'printed stream: every parent-operator x child-form x operand-position combination at depth 2 '
                f'({n_matrix} trees, placed in target/WHERE/FROM/GROUP BY+HAVING/ORDER BY/BALANCES positions) + {n_rand} random '
                'statement trees (SELECT with every clause, BALANCES, JOURNAL, PRINT, sub-selects, redundant ( ) and unary +), '
                f'each printed by the Coq printer and rendered canonically and {nrender}x with random case/spelling/whitespace/comments; '
                'all three parsers must return the erased tree. mutated stream: hand corpus + random character/token mutations '
                'of printed texts; shipped parser and grammar-built parser must agree exactly, the Coq parser is measured. '
                'non-trivial = distinct text',
        'samples': [texts[i] for i in range(0, len(texts), max(1, len(texts) // 6))][:6],
        'traces_validated_against_impl': len(texts) + len(muts),
        'printed_texts': len(texts), 'matrix_trees': n_matrix, 'long_literal_trees': len(long_literal_cases()), 'random_trees': n_rand,
        'mutated_texts': len(muts), 'mutated_accepted_by_impl': accepted,
        'node_histogram': dict(sorted(hist.items(), key=lambda kv: -kv[1])),
        'depth_histogram': dict(sorted(dh.items())),
        'text_length_histogram': lens([len(t) for t in texts]),
        'exhaustive': True,
        'shipped_parser_equals_generated_source': same_source,
        'grammar_rules': nrules,
        'needs_space_pairs_checked': npairs, 'needs_space_renderer_stricter_on': stricter,
        'literal_case_sequences': nseq,
        'unicode_literal_trees': len(ucases), 'unicode_string_pool': len(USTRS),
        'string_content_histogram': dict(sorted(shist.items(), key=lambda kv: -kv[1])), 'distinct_string_contents': len(sdistinct),
        'unicode_rule': 'string constants, list elements, subscript keys and JOURNAL patterns carry non-ASCII and non-NFC contents (base letter + '
                        'combining mark, non-canonical mark order, compatibility singletons U+212A/B U+2126, Hangul jamo, composition exclusions, '
                        'compatibility forms, case-folding-sensitive letters, astral code points, right-to-left text and marks, ZWJ/ZWNJ/BOM/soft hyphen, '
                        'NBSP, blanks at the edges, TAB/CR/CRLF/LS/PS/NEL, control characters, backslash and % sequences): a pool placed in every '
                        'string position of the grammar + the random trees; parsed by the shipped parser, the grammar-built parser, the Coq parser '
                        'and (all of the pool texts) the PEG interpreter; the tree must come back code point for code point',
        'model_infidelity_on_mutated': {'count': len(infid), 'rate': round(len(infid) / max(1, len(muts)), 5),
                                        'by_class': classes, 'samples': infid[:12]},
    }
    cov.update(t2r_cov)
    cov['evaluations'] += t2r_cov['t2r_statements']
    cov.update(peg_cov)
    cov['evaluations'] += peg_cov['peg_texts']
    cov.update(conc_cov)
    cov['evaluations'] += conc_cov['concurrent_calls']
    return {'coverage': cov, 'violations': violations}


def lens(ls):
    h = {}
    for n in ls:
        k = f'{(n // 50) * 50}-{(n // 50) * 50 + 49}'
        h[k] = h.get(k, 0) + 1
    return h


def classify(t):
    import re
    if re.search(r'%[sS]\w', t) or re.search(r'%\(', t):
        return 'placeholder glued to a word / partial %( form'
    if any(ord(c) > 127 for c in t):
        return 'non-ASCII outside a string'
    return 'other'


def shrink_text(text, pred, budget=400):
    """greedy character deletion keeping pred true"""
    n = 0
    changed = True
    while changed and n < budget:
        changed = False
        step = max(1, len(text) // 8)
        while step >= 1 and n < budget:
            i = 0
            while i < len(text) and n < budget:
                cand = text[:i] + text[i + step:]
                n += 1
                if cand != text and pred(cand):
                    text = cand
                    changed = True
                else:
                    i += step
            step //= 2
    return text


def subtrees(st):
    """one-step reductions of a statement tree"""
    out = []

    def red_e(e):
        k = e[0]
        res = []
        for i, x in enumerate(e[1:], 1):
            if isinstance(x, tuple) and x and isinstance(x[0], str) and x[0] in ALLK:
                res.append(x)
                res += [e[:i] + (y,) + e[i + 1:] for y in red_e(x)]
            elif isinstance(x, list):
                for j, y in enumerate(x):
                    if isinstance(y, tuple) and y and isinstance(y[0], str) and y[0] in ALLK:
                        res.append(y)
                        res += [e[:i] + (x[:j] + [z] + x[j + 1:],) + e[i + 1:] for z in red_e(y)]
        if k == 'select':
            _, d, t, f, w, g, o, p, lim = e
            for alt in (('select', False, t, f, w, g, o, p, lim), ('select', d, t, None, w, g, o, p, lim),
                        ('select', d, t, f, None, g, o, p, lim), ('select', d, t, f, w, None, o, p, lim),
                        ('select', d, t, f, w, g, [], p, lim), ('select', d, t, f, w, g, o, None, lim),
                        ('select', d, t, f, w, g, o, p, None)):
                if alt != e:
                    res.append(alt)
            if t and len(t) > 1:
                res += [('select', d, t[:i] + t[i + 1:], f, w, g, o, p, lim) for i in range(len(t))]
            if t:
                for i, (x, n) in enumerate(t):
                    res += [('select', d, t[:i] + [(y, n)] + t[i + 1:], f, w, g, o, p, lim) for y in red_e(x)]
            if w is not None:
                res += [('select', d, t, f, y, g, o, p, lim) for y in red_e(w)]
            if f is not None and f[0] == 'from' and f[1] is not None:
                res += [('select', d, t, ('from', y) + f[2:], w, g, o, p, lim) for y in red_e(f[1])]
        return res
    if st[0] == 'select':
        out = [('select', e) for e in red_e(st[1]) if e[0] == 'select']
    else:
        for i, x in enumerate(st[1:], 1):
            if isinstance(x, tuple) and x and x[0] in ALLK:
                out += [st[:i] + (y,) + st[i + 1:] for y in red_e(x)]
            if x is not None:
                out.append(st[:i] + (None,) + st[i + 1:])
    return out


ALLK = {'const', 'list', 'col', 'func', 'funcstar', 'place', 'attr', 'sub', 'neg', 'arith', 'cmp', 'isnull', 'isnotnull',
        'between', 'not', 'and', 'or', 'select', 'paren', 'uplus'}


def tree_fails(sts, rng):
    outs = coq_print(sts, 'c06s')
    res = []
    for st, o in zip(sts, outs):
        wf, lexok, toks, erased, tokparse = o
        if not wf or not lexok:
            res.append(None)
            continue
        text = render(toks, rng, canonical=True)
        exp = s_stmt(st)
        ri, rf = run_both(text)
        res.append(text if (ri != ['ok', exp] or rf != ['ok', exp]) else None)
    return res


def shrink_tree(st, rng, rounds=8):
    text = (tree_fails([st], rng) or [None])[0]
    if text is None:
        return st, None
    for _ in range(rounds):
        cands = subtrees(st)[:150]
        if not cands:
            break
        res = tree_fails(cands, rng)
        nxt = next(((c, t) for c, t in zip(cands, res) if t is not None), None)
        if nxt is None:
            break
        st, text = nxt
    return st, text


def replay(rec):
    if rec.get('concurrent'):
        # the schedule is the interpreter's: the burst is repeated, every repetition has to agree with the serial parses
        texts = rec['texts']
        serial = [run_impl(t) for t in texts]
        if len(texts) == 1:
            return all(run_impl(texts[0]) == serial[0] for _ in range(rec.get('reps', 2)))
        return all(got == serial for got in concurrent_round(texts, reps=rec.get('reps', 25)))
    if rec.get('t2r'):
        from . import c05, values
        c = rec['case']
        r = observe_t2r(c)
        sc = '(' + c05.e2e_schema_coq() + ' :: ' + c05.schema_coq() + ')'
        rows = values.rows_to_coq([c05.dec_row(x) for x in c['rows']])
        m = core.coq_eval('c06tr', ['Base.PyValue', 'Model.Compile', 'Model.Link', 'Model.Front'],
                          [f'(run_text_out {sc} [("v", {rows})] {c05.c_params(c.get("params"))} {cstr(c["text"])})'])[0]
        return m[0] in (3, 5) or c05.norm(m) == c05.norm(r['result'])
    if rec.get('peg4'):
        a, b = run_both(rec['text'])
        if a != b or a[0] == 'odd':
            return False
        return coq_peg([rec['text']], 'c06gr')[0][1] == ([a[1]] if a[0] == 'ok' else [])
    if 'model' in rec:
        ri = run_impl(rec['text'])
        return ([ri[1]] if ri[0] == 'ok' else []) == rec['model']
    if 'impl' in rec and 'grammar' in rec:
        a, b = run_both(rec['text'])
        return a == b and a[0] != 'odd'
    if rec.get('text') is None:
        return False
    a, b = run_both(rec['text'])
    return a == ['ok', rec['expected']] and b == ['ok', rec['expected']]
