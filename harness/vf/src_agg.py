"""Group `agg` of the translator-based tie (see PYMINI.md): the AGGREGATED branch of query_execute.execute_select, the
Allocator, and the allocate / initialize / update / finalize / __call__ protocol of the aggregator classes of query_env.py.

Translated on every run from the source of the IMPORTED objects (inspect.getsource + ast) into coq/Gen/SrcAgg.v:

* `alloc_init`, `alloc_allocate`, `alloc_create_store`: the three methods of query_execute.Allocator (whole methods);
* for every aggregator class registered in query_compile.FUNCTIONS (count(*), count(x), sum(int), sum(Decimal), first,
  last, min, max; the three inventory sums are C12's and are listed as left out; any OTHER registered aggregator class
  is a broken tie): the five protocol methods, resolved through the MRO of the LIVE class, one term per distinct
  function object (`aggm_<Class>_<method>`), and a table `agg_classes` (class name -> its resolved methods);
* the else-branch of `if query.group_indexes is None:` in execute_select, selected by STRUCTURE and cut into the parts
    agg_split   `c_nonaggregate_exprs = []` .. the `for index, c_expr in enumerate(c_target_exprs):` loop
    agg_alloc   `allocator = Allocator()` and the allocate loop
    agg_scan    `context = None`, `aggregates = collections.defaultdict(create)`, `for context in query.table:`
    agg_output  `for key, store in aggregates.items():` (ends with `rows.append(values)`)
  (the parts must be exactly the statements of the branch, in this order, with the `def create():` between alloc and
  scan), plus `agg_branch`, their concatenation.

The branch is written with shared mutable objects (aggregate nodes reachable from the target expressions and from
c_aggregate_exprs, store lists reachable from the dict, a closure called by defaultdict); PyMini has value semantics.
The desugaring rules below (AST -> AST, then the ordinary translator) make every sharing explicit.  They are part of
the trusted base and each states the aliasing fact it encodes:

A1 in-out argument    `x.m(p, ..)` as a statement, m one of allocate/initialize/update/finalize, x and p local names
                      -> `p = x.m(p, ..)` and the translated method m returns its first parameter at the end (it must
                      contain no return statement).  Fact: m changes the object p is bound to only in place.
A2 objects in a list  `for x in L: <body calling a protocol method on x>` (L a local name, not assigned in the body)
                      -> `$acc = []; for x in L: <body>; $acc.append(x)` then `L = $acc`.  Fact: the elements of L are
                      pairwise distinct objects, changed only through the loop variable.
A3 node state         a call `f(args)` of a LOCAL variable (a compiled expression: c_where, c_expr) becomes
                      `f(args, L)` with L the list of aggregate nodes of rule A2.  Fact: the aggregate nodes are the
                      only mutable objects below a compiled expression, so its value is a function of the context and
                      of their current state (the finalised value parked on each node).
A4 defaultdict        `D = collections.defaultdict(create)` with `create` a parameterless local function -> `D = {}`;
                      `s = D[k]` -> `if k not in D: <body of create, its locals renamed create$..; return e -> create$ret = e>;
                      D[k] = create$ret` then `s = D[k]` (this IS defaultdict.__missing__; free names of the closure are
                      late-bound, which is what inlining gives).  D may otherwise only be used as `D.items()`.
A5 alias of an entry  after `s = D[k]` the name s denotes the list stored in D: the write-back `D[k] = s` is emitted
                      at the end of the enclosing block.  Fact: between the two, D and k are not rebound (checked) and
                      the list is reachable only through s and D[k].  The stores yielded by `D.items()` are not
                      written back: D is not read after that loop (checked).
A6 continue           `continue` as the last statement of nested ifs of a for body -> `$skip = True`, the statements
                      after the enclosing if are guarded by `if not $skip:`, the body starts with `$skip = False`.
A7 iter / next        `it = iter(e)` -> the list of the items not yet consumed; `next(it)` -> `it.pop(0)`
                      (StopIteration is modelled as the IndexError of pop).
A8 item assignment    (methods) `p[i] = e` / `p[i] op= e` on a local list p with i an attribute of self -> `p = setitem(p, i, e)`
                      / `p = setitem(p, i, p[i] op e)`.
A9 instantiation      `Allocator()` -> the primitive "new:<qualified class name>", whose meaning is the translated __init__.

Dict primitives: "dict.new" [], "dict.contains" [D; k], "dict.get" [D; k], "dict.set" [D; k; v], "call:items" [D].
Everything fails closed with py2mini.Untranslatable."""
import ast
import copy
import inspect
import textwrap

from . import py2mini
from .py2mini import Untranslatable, gstr, glist
from . import src_exec

PRIMS = ('builtins.enumerate', 'builtins.tuple', 'builtins.iter')
PROTOCOL = ('allocate', 'initialize', 'update', 'finalize')
METHODS = PROTOCOL + ('__call__',)
# aggregator classes whose state is an Inventory: their fold is C12's (Model/Inventory.v); not translated here
LEFT_OUT = ('SumAmount', 'SumPosition', 'SumInventory')
ALLOCATOR = 'beanquery.query_execute.Allocator'


def _name(x, ctx=None):
    return ast.Name(id=x, ctx=ctx or ast.Load())


def _is_name(e, name=None):
    return isinstance(e, ast.Name) and (name is None or e.id == name)


def _pcall(prim, *args):
    """pseudo call `$<prim>(args)`: translated to XPrim"""
    return ast.Call(func=_name('$' + prim), args=list(args), keywords=[])


def _assign(x, value):
    return ast.Assign(targets=[_name(x, ast.Store())], value=value)


def _stores(stmts):
    out = set()
    for s in stmts:
        for n in ast.walk(s):
            if isinstance(n, ast.Name) and isinstance(n.ctx, ast.Store):
                out.add(n.id)
    return out


# ------------------------------------------------------------------------------------------- AST -> AST desugaring
class Desugar:
    def __init__(self, closures):
        self.closures = closures      # name -> FunctionDef of a parameterless local function
        self.dicts = {}               # defaultdict variable -> closure name
        self.nodes_var = None         # the list of aggregate nodes (rule A2)
        self.iters = set()            # locals bound by iter(..)
        self.rules = []

    def used(self, r):
        if r not in self.rules:
            self.rules.append(r)

    # -- A2 detection
    def protocol_stmt(self, s, recv=None):
        """`x.m(p, ..)` as a statement -> (x, m, p) or None"""
        if isinstance(s, ast.Expr) and isinstance(s.value, ast.Call) and isinstance(s.value.func, ast.Attribute) \
                and s.value.func.attr in PROTOCOL and _is_name(s.value.func.value) and s.value.args \
                and _is_name(s.value.args[0]) and not s.value.keywords:
            if recv is None or s.value.func.value.id == recv:
                return s.value.func.value.id, s.value.func.attr, s.value.args[0].id
        return None

    def block(self, stmts, in_loop=False):
        out = []
        aliases = []       # (dict, key, name) of rule A5, written back at the end of this block
        i = 0
        stmts = list(stmts)
        while i < len(stmts):
            s = stmts[i]
            i += 1
            p = self.protocol_stmt(s)
            if p is not None:                                                              # A1
                self.used('A1')
                out.append(ast.Assign(targets=[_name(p[2], ast.Store())], value=s.value))
                continue
            if isinstance(s, ast.FunctionDef) and s.name in self.closures:
                continue                                                                    # inlined where called (A4)
            if isinstance(s, ast.Assign) and len(s.targets) == 1 and _is_name(s.targets[0]):
                x, v = s.targets[0].id, s.value
                if isinstance(v, ast.Call) and isinstance(v.func, ast.Attribute) and v.func.attr == 'defaultdict' \
                        and len(v.args) == 1 and _is_name(v.args[0]) and v.args[0].id in self.closures \
                        and not v.keywords:                                                 # A4
                    self.used('A4')
                    self.dicts[x] = v.args[0].id
                    out.append(_assign(x, _pcall('dict.new')))
                    continue
                if isinstance(v, ast.Subscript) and _is_name(v.value) and v.value.id in self.dicts \
                        and _is_name(v.slice):                                              # A4 + A5
                    d, k = v.value.id, v.slice.id
                    out.extend(self.missing(d, k))
                    out.append(_assign(x, _pcall('dict.get', _name(d), _name(k))))
                    rest = stmts[i:]
                    bad = {d, k, x} & _stores(rest)
                    if bad:
                        raise Untranslatable(f'alias {x} = {d}[{k}]: {sorted(bad)} rebound before the end of the block')
                    self.used('A5')
                    aliases.append((d, k, x))
                    continue
                if isinstance(v, ast.Call) and _is_name(v.func, 'iter') and len(v.args) == 1:  # A7
                    self.used('A7')
                    self.iters.add(x)
            if isinstance(s, ast.For):
                out.extend(self.for_stmt(s))
                continue
            if isinstance(s, ast.If):
                out.append(ast.If(test=s.test, body=self.block(s.body, in_loop), orelse=self.block(s.orelse, in_loop)))
                continue
            out.append(s)
        for d, k, x in aliases:
            out.append(_assign(d, _pcall('dict.set', _name(d), _name(k), _name(x))))
        return out

    def missing(self, d, k):
        """defaultdict.__missing__ with the factory inlined"""
        fd = self.closures[self.dicts[d]]
        pre = self.dicts[d] + '$'
        body = [s for s in fd.body if not (isinstance(s, ast.Expr) and isinstance(s.value, ast.Constant))]
        if not body or not isinstance(body[-1], ast.Return) or body[-1].value is None:
            raise Untranslatable(f'closure {fd.name}: does not end in `return <value>`')
        if any(isinstance(n, (ast.Return, ast.Yield, ast.YieldFrom, ast.Nonlocal, ast.Global))
               for s in body[:-1] for n in ast.walk(s)):
            raise Untranslatable(f'closure {fd.name}: return/yield/nonlocal inside the body')
        own = _stores(body)
        body = copy.deepcopy(body)
        for s in body:
            for n in ast.walk(s):
                if isinstance(n, ast.Name) and n.id in own:
                    n.id = pre + n.id
        inl = self.block(body[:-1]) + [_assign(pre + 'ret', body[-1].value),
                                       _assign(d, _pcall('dict.set', _name(d), _name(k), _name(pre + 'ret')))]
        return [ast.If(test=ast.UnaryOp(op=ast.Not(), operand=_pcall('dict.contains', _name(d), _name(k))),
                       body=inl, orelse=[])]

    def for_stmt(self, s):
        if s.orelse:
            raise Untranslatable('for-else')
        body = list(s.body)
        pre, post = [], []
        # A2: the loop variable is the receiver of a protocol method
        if _is_name(s.target) and _is_name(s.iter) and any(self.protocol_stmt(b, s.target.id) for b in body):
            L = s.iter.id
            if L in _stores(body):
                raise Untranslatable(f'{L} is assigned inside a loop over it')
            base = L.split('$')[-1]
            if self.nodes_var is None:
                self.nodes_var = base
            elif self.nodes_var != base:
                raise Untranslatable(f'two lists of protocol objects: {self.nodes_var}, {base}')
            self.used('A2')
            pre = [_assign('$acc', ast.List(elts=[], ctx=ast.Load()))]
            body = body + [ast.Expr(ast.Call(func=ast.Attribute(value=_name('$acc'), attr='append', ctx=ast.Load()),
                                             args=[_name(s.target.id)], keywords=[]))]
            post = [_assign(L, _name('$acc'))]
        # A6: continue
        has_continue = any(isinstance(n, ast.Continue) for b in body for n in ast.walk(b))
        if has_continue:
            self.used('A6')
            body = [_assign('$skip', ast.Constant(False))] + self.elim_continue(body)
        if any(isinstance(n, ast.Break) for b in body for n in ast.walk(b)):
            raise Untranslatable('break')
        return pre + [ast.For(target=s.target, iter=s.iter, body=self.block(body, True), orelse=[])] + post

    def elim_continue(self, stmts):
        out = []
        for i, s in enumerate(stmts):
            if isinstance(s, ast.Continue):
                if i != len(stmts) - 1:
                    raise Untranslatable('continue is not the last statement of its block')
                out.append(_assign('$skip', ast.Constant(True)))
                return out
            if isinstance(s, ast.If) and any(isinstance(n, ast.Continue) for n in ast.walk(s)):
                out.append(ast.If(test=s.test, body=self.elim_continue(s.body), orelse=self.elim_continue(s.orelse)))
                rest = self.elim_continue(stmts[i + 1:])
                if rest:
                    out.append(ast.If(test=ast.UnaryOp(op=ast.Not(), operand=_name('$skip')), body=rest, orelse=[]))
                return out
            if any(isinstance(n, ast.Continue) for n in ast.walk(s)):
                raise Untranslatable('continue inside a nested loop / try')
            out.append(s)
        return out


def first_uses(stmts):
    """name -> True when its first occurrence in evaluation order is a read"""
    first = {}

    def visit(n):
        if isinstance(n, ast.Name):
            first.setdefault(n.id, isinstance(n.ctx, ast.Load))
        elif isinstance(n, ast.Assign):
            visit(n.value)
            for t in n.targets:
                visit(t)
        elif isinstance(n, ast.AugAssign):
            if isinstance(n.target, ast.Name):
                first.setdefault(n.target.id, True)
            visit(n.value)
            visit(n.target)
        elif isinstance(n, ast.For):
            visit(n.iter)
            visit(n.target)
            for b in n.body:
                visit(b)
        elif isinstance(n, (ast.ListComp, ast.GeneratorExp, ast.SetComp)):
            for g in n.generators:
                visit(g.iter)
                visit(g.target)
                for c in g.ifs:
                    visit(c)
            visit(n.elt)
        else:
            for c in ast.iter_child_nodes(n):
                visit(c)

    for s in stmts:
        visit(s)
    return first


# ------------------------------------------------------------------------------------------- translators
class BranchTranslator(src_exec.SynthTranslator):
    """a part of the aggregated branch, after desugaring"""

    def __init__(self, host, name, stmts, host_locals, refs, prims, nodes_var, iters):
        fu = first_uses(stmts)
        params = [x for x, is_read in fu.items() if is_read and x in host_locals]
        super().__init__(host, name, params, stmts, refs, prims)
        self.nodes_var = nodes_var
        self.iters = set(iters)
        self.desugared = '\n'.join(ast.unparse(ast.fix_missing_locations(s)) for s in copy.deepcopy(stmts))

    def expr(self, e):
        if isinstance(e, ast.Call) and not e.keywords and not any(isinstance(a, ast.Starred) for a in e.args):
            f = e.func
            if _is_name(f) and f.id.startswith('$'):                                        # pseudo call -> primitive
                return f'(XPrim {gstr(f.id[1:])} {glist([self.expr(a) for a in e.args])})'
            if isinstance(f, ast.Attribute) and f.attr in PROTOCOL and _is_name(f.value) and f.value.id in self.locals:
                return (f'(XMethod (TName {gstr(f.value.id)}) {gstr(f.attr)} '                # A1
                        f'{glist([self.expr(a) for a in e.args])})')
            if _is_name(f, 'next') and 'next' not in self.locals and len(e.args) == 1 and _is_name(e.args[0]) \
                    and e.args[0].id in self.iters:                                          # A7
                return f'(XMethod (TName {gstr(e.args[0].id)}) "pop" [(XConst (PInt 0))])'
            if _is_name(f) and f.id in self.locals:                                          # A3
                if self.nodes_var is None:
                    raise Untranslatable('call of a compiled expression but no list of aggregate nodes')
                args = [self.expr(a) for a in e.args] + [f'(XName {gstr(self.nodes_var)})']
                return f'(XCall (XName {gstr(f.id)}) {glist(args)} None)'
            if _is_name(f) and f.id not in self.locals:                                      # A9
                try:
                    obj = self.resolve_free(f.id)
                except Untranslatable:
                    obj = None
                if inspect.isclass(obj) and f'{obj.__module__}.{obj.__qualname__}' == ALLOCATOR and not e.args:
                    return f'(XPrim {gstr("new:" + ALLOCATOR)} [])'
        if isinstance(e, ast.Subscript) and _is_name(e.value) and e.value.id.startswith('$'):
            raise Untranslatable('subscript of a synthetic name')
        return super().expr(e)

    def stmt(self, s):
        if isinstance(s, (ast.FunctionDef, ast.Continue, ast.Break)):
            raise Untranslatable(f'statement {type(s).__name__} left after desugaring')
        return super().stmt(s)


class MethodTranslator(py2mini.FuncTranslator):
    """a protocol method of an aggregator class (rules A1 callee side, A8)"""

    def __init__(self, func, refs, prims=(), inout=None):
        super().__init__(func, refs, prims=prims)
        self.inout = inout
        if inout is not None:
            if len(self.params) < 2:
                raise Untranslatable(f'{func.__qualname__}: no parameter after self')
            if any(isinstance(n, (ast.Return, ast.Yield, ast.YieldFrom)) for n in ast.walk(self.fd)):
                raise Untranslatable(f'{func.__qualname__}: a protocol method with a return/yield statement')

    def _pure_index(self, i):
        return isinstance(i, ast.Attribute) and _is_name(i.value, self.self_name)

    def _item(self, t):
        if isinstance(t, ast.Subscript) and not isinstance(t.slice, ast.Slice) and _is_name(t.value) \
                and t.value.id in self.locals and t.value.id != self.self_name and self._pure_index(t.slice):
            return t.value.id, t.slice
        return None

    def expr(self, e):
        if isinstance(e, ast.Call) and isinstance(e.func, ast.Attribute) and e.func.attr == 'allocate' \
                and _is_name(e.func.value) and e.func.value.id in self.locals and e.func.value.id != self.self_name \
                and not e.args and not e.keywords:
            return f'(XMethod (TName {gstr(e.func.value.id)}) "allocate" [])'
        return super().expr(e)

    def stmt(self, s):
        if isinstance(s, ast.Assign) and len(s.targets) == 1:                               # A8
            it = self._item(s.targets[0])
            if it is not None:
                x, i = it
                return (f'(SAssign (TName {gstr(x)}) (XPrim "stmt:setitem" [(XName {gstr(x)}); {self.expr(i)}; '
                        f'{self.expr(s.value)}]))')
        if isinstance(s, ast.AugAssign) and type(s.op) in py2mini.BOP:
            it = self._item(s.target)
            if it is not None:
                x, i = it
                cur = f'(XIndex (XName {gstr(x)}) {self.expr(i)})'
                return (f'(SAssign (TName {gstr(x)}) (XPrim "stmt:setitem" [(XName {gstr(x)}); {self.expr(i)}; '
                        f'(XBin {py2mini.BOP[type(s.op)]} {cur} {self.expr(s.value)})]))')
        return super().stmt(s)

    def translate(self):
        term, defaults = super().translate()
        if self.inout is not None:
            p = self.params[1]
            marker = '];\n     f_gen := '
            if term.count(marker) != 1:
                raise Untranslatable('unexpected shape of a translated method')
            body_end = term.index(marker)
            sep = '; ' if not term[:body_end].rstrip().endswith('[') else ''
            term = term[:body_end] + f'{sep}(SReturn (Some (XName {gstr(p)})))' + term[body_end:]
        return term, defaults


# ------------------------------------------------------------------------------------------- selection by structure
def select_branch(fd):
    """the statements of the else-branch of `if query.group_indexes is None:` grouped into parts"""
    disp, _tail, _n = src_exec.select_execute_select(fd)
    body = list(disp.orelse)
    if not body:
        raise Untranslatable('execute_select: the dispatch has no else-branch')

    def is_empty_list_assign(s, name):
        return (isinstance(s, ast.Assign) and len(s.targets) == 1 and _is_name(s.targets[0], name)
                and isinstance(s.value, ast.List) and not s.value.elts)

    def for_over(s, pred):
        return isinstance(s, ast.For) and pred(s.iter)

    def is_call_of(e, fname, argname=None):
        return (isinstance(e, ast.Call) and _is_name(e.func, fname)
                and (argname is None or (len(e.args) == 1 and _is_name(e.args[0], argname))))

    def attr_of(e, base, attr):
        return isinstance(e, ast.Attribute) and e.attr == attr and _is_name(e.value, base)

    def one(pred, what):
        hits = [i for i, s in enumerate(body) if pred(s)]
        if len(hits) != 1:
            raise Untranslatable(f'aggregated branch: expected exactly one {what}, found {len(hits)}')
        return hits[0]

    i_start = one(lambda s: is_empty_list_assign(s, 'c_nonaggregate_exprs'), '`c_nonaggregate_exprs = []`')
    i_split = one(lambda s: for_over(s, lambda it: is_call_of(it, 'enumerate', 'c_target_exprs'))
                  and isinstance(s.target, ast.Tuple), 'top-level `for .. in enumerate(c_target_exprs):`')
    i_alloc = one(lambda s: isinstance(s, ast.Assign) and len(s.targets) == 1 and _is_name(s.targets[0], 'allocator'),
                  '`allocator = ..`')
    i_allocloop = one(lambda s: for_over(s, lambda it: _is_name(it, 'c_aggregate_exprs'))
                      and any(isinstance(n, ast.Attribute) and n.attr == 'allocate' for n in ast.walk(s)),
                      'allocate loop')
    i_def = one(lambda s: isinstance(s, ast.FunctionDef), 'local function definition')
    i_scan = one(lambda s: for_over(s, lambda it: attr_of(it, 'query', 'table')), '`for context in query.table:`')
    i_out = one(lambda s: for_over(s, lambda it: isinstance(it, ast.Call) and isinstance(it.func, ast.Attribute)
                                   and it.func.attr == 'items'), '`for key, store in aggregates.items():`')
    if i_start != 0:
        raise Untranslatable('aggregated branch: does not start with `c_nonaggregate_exprs = []`')
    if not (i_split < i_alloc and i_alloc + 1 == i_allocloop and i_allocloop + 1 == i_def and i_def < i_scan
            and i_scan + 1 == i_out and i_out == len(body) - 1 and i_split + 1 == i_alloc):
        raise Untranslatable('aggregated branch: the parts split / alloc / def create / scan / output are not '
                             'contiguous in this order')
    fdef = body[i_def]
    a = fdef.args
    if a.args or a.vararg or a.kwarg or a.kwonlyargs or a.posonlyargs:
        raise Untranslatable(f'local function {fdef.name} takes parameters')
    last = body[i_out].body[-1]
    ok = (isinstance(last, ast.Expr) and isinstance(last.value, ast.Call) and isinstance(last.value.func, ast.Attribute)
          and last.value.func.attr == 'append' and _is_name(last.value.func.value, 'rows')
          and len(last.value.args) == 1 and _is_name(last.value.args[0], 'values'))
    if not ok:
        raise Untranslatable('aggregated branch: the output loop does not end with `rows.append(values)`')
    parts = [('split', body[:i_split + 1]), ('alloc', body[i_alloc:i_def]), ('scan', body[i_def + 1:i_out]),
             ('output', body[i_out:])]
    return parts, fdef


def aggregator_classes():
    """the aggregator classes registered in FUNCTIONS, in registry order: (registered name, class)"""
    from beanquery import query_compile as qc
    out = []
    for name, ovs in qc.FUNCTIONS.items():
        for f in ovs:
            if inspect.isclass(f) and issubclass(f, qc.EvalAggregator):
                out.append((name, f))
    return out


def _class_key(cls):
    """the name the class statement gave the class (the decorator renames __name__)"""
    return cls.__qualname__


def resolve_method(cls, m):
    for k in cls.__mro__:
        if m in vars(k):
            fn = vars(k)[m]
            if not inspect.isfunction(fn):
                raise Untranslatable(f'{k.__qualname__}.{m} is not a plain function')
            return k, fn
    raise Untranslatable(f'{cls.__qualname__} has no method {m}')


def spec_agg():
    """(defs builders, extra text builder)"""
    from beanquery import query_execute as qx
    items = []
    A = qx.Allocator
    if f'{A.__module__}.{A.__qualname__}' != ALLOCATOR:
        raise Untranslatable('query_execute.Allocator is not defined in query_execute')
    for cn, m in (('alloc_init', '__init__'), ('alloc_allocate', 'allocate'), ('alloc_create_store', 'create_store')):
        fn = vars(A).get(m)
        if not inspect.isfunction(fn):
            raise Untranslatable(f'Allocator.{m} is not a plain function')
        items.append((cn, f'{ALLOCATOR}.{m}',
                      (lambda fn: lambda refs, prims: py2mini.FuncTranslator(fn, refs, prims=prims))(fn),
                      len(inspect.getsource(fn).splitlines())))
    classes = []
    seen = {}
    for regname, cls in aggregator_classes():
        key = _class_key(cls)
        if key in LEFT_OUT:
            continue
        row = []
        for m in METHODS:
            owner, fn = resolve_method(cls, m)
            cn = f'aggm_{owner.__qualname__}_{m.strip("_")}'
            if id(fn) not in seen:
                seen[id(fn)] = cn
                inout = True if m in PROTOCOL else None
                items.append((cn, f'{owner.__module__}.{owner.__qualname__}.{m}',
                              (lambda fn, inout: lambda refs, prims: MethodTranslator(fn, refs, prims=prims, inout=inout))
                              (fn, inout), len(inspect.getsource(fn).splitlines())))
            row.append(seen[id(fn)])
        intypes = ','.join(getattr(t, '__name__', str(t)) for t in cls.__intypes__)
        classes.append((key, f'{cls.__module__}.{key}', regname, intypes, row))
    # the branch
    sfd = src_exec._host_ast(qx.execute_select)
    sloc = src_exec._host_locals(sfd)
    parts, fdef = select_branch(sfd)
    ds = Desugar({fdef.name: fdef})
    # desugar the parts in order (the dict / iterator / node-list facts found in one part hold in the later ones)
    des = [(nm, ds.block(copy.deepcopy(stmts))) for nm, stmts in parts]
    # A4/A5 side conditions on the dict variables
    allstmts = [s for _, ss in parts for s in ss]
    for d in ds.dicts:
        for n in ast.walk(ast.Module(body=allstmts, type_ignores=[])):
            for c in ast.iter_child_nodes(n):
                if _is_name(c, d):
                    ok = (isinstance(n, ast.Assign) and c in n.targets) \
                        or (isinstance(n, ast.Subscript) and c is n.value and isinstance(n.ctx, ast.Load)) \
                        or (isinstance(n, ast.Attribute) and n.attr == 'items')
                    if not ok:
                        raise Untranslatable(f'{d} (a defaultdict) is used other than as {d}[k] / {d}.items()')

    def lines(stmts):
        return sum((s.end_lineno - s.lineno + 1) for s in stmts)

    src_lines = dict((nm, lines(ss)) for nm, ss in parts)
    for nm, stmts in des:
        items.append((f'agg_{nm}', f'beanquery.query_execute.execute_select, aggregated branch, part `{nm}`',
                      (lambda nm, stmts: lambda refs, prims: BranchTranslator(qx.execute_select, 'agg_' + nm, stmts, sloc,
                                                                              refs, prims, ds.nodes_var, ds.iters))
                      (nm, stmts), src_lines[nm]))
    whole = [s for _, ss in des for s in ss]
    items.append(('agg_branch', 'beanquery.query_execute.execute_select: else-branch of `if query.group_indexes is None:`',
                  lambda refs, prims: BranchTranslator(qx.execute_select, 'agg_branch', whole, sloc, refs, prims,
                                                       ds.nodes_var, ds.iters),
                  lines([fdef])))
    return items, classes, ds


class AggGroup:
    """plugs into gen_src.generate through the 'translator' option"""
    info = {}

    @staticmethod
    def translate_all(spec, prims=()):
        items, classes, ds = spec
        refs = py2mini.Refs()
        defs, info = [], {}
        for name, origin, build, nlines in items:
            tr = build(refs, prims)
            term, defaults = tr.translate()
            origin = origin + '; parameters: ' + ', '.join(tr.params)
            des = getattr(tr, 'desugared', None)
            if des is not None and name != 'agg_branch':
                origin += '\n   after desugaring (rules ' + ', '.join(ds.rules) + '):\n' + \
                    textwrap.indent(des, '     ').replace('*)', '* )').replace('(*', '( *')
            defs.append((name, origin, term, []))
            info[name] = {'origin': origin.split('\n')[0], 'lines': nlines}
        text = py2mini.render(defs, refs)
        text += ('\n(* the aggregator classes registered in query_compile.FUNCTIONS (inventory sums left out: C12) and the '
                 'function each protocol\n   method resolves to through the MRO of the live class *)\n'
                 'From Verif Require Import Model.PrimsAgg.\n')
        for key, qn, regname, intypes, row in classes:
            text += (f'Definition class_{key} : aggcls :=\n  {{| c_allocate := {row[0]}; c_initialize := {row[1]}; '
                     f'c_update := {row[2]}; c_finalize := {row[3]}; c_call := {row[4]} |}}.\n')
        text += ('Definition agg_classes : list (string * string * string * aggcls) :=\n  ' +
                 glist([f'({gstr(qn)}, {gstr(regname)}, {gstr(intypes)}, class_{key})' for key, qn, regname, intypes, _ in classes])
                 + '.\n')
        text += ('Definition agg_left_out : list string := ' + glist([gstr(x) for x in LEFT_OUT]) + '.\n')
        text += 'Definition agg_nodes_var : string := ' + gstr(ds.nodes_var or '') + '.\n'
        AggGroup.info = {'classes': [c[1] for c in classes], 'rules_used': list(ds.rules), 'left_out': list(LEFT_OUT)}
        return text, info
