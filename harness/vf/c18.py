"""C18: scalar function library (dates, accounts, strings, numerics, casts).

Correspondence: every function is run through real BQL `SELECT f(args), g(args), ... FROM #t` on a
harness table whose columns hold the argument values (one statement per batch of thousands of rows;
when a batch raises, every target is re-run row by row with the compiled statement so that each
row gets its own value-or-exception), and compared cell by cell with the Gallina model
(Model/Dates.v, Model/StrFuncs.v via Model/C18Out.v) evaluated by vm_compute on the same rows.
Exceptions are values on both sides ([6, kind])."""
import datetime
import decimal
import itertools
import json
import re

from . import core, impl, values
from .core import cZ, clist, cstr

D = decimal.Decimal
DATE = datetime.date

ASSUMPTIONS = [
    'strings are ASCII: upper/lower/strip/split()/int()/Decimal()/strptime are modelled on code points < 128 '
    '(Python applies Unicode case mapping, Unicode whitespace and Unicode digits beyond that)',
    'decimal context is the default one (prec=28, ROUND_HALF_EVEN, traps InvalidOperation/DivisionByZero/Overflow), '
    'exponent limits Emin/Emax are not modelled (inputs have small exponents)',
    'strftime("%a") runs in the C locale (Mon..Sun)',
    'regular-expression functions grep/grepn/subst/findfirst are compared with the model only on literal '
    'alphanumeric patterns; parse_date (dateutil) is only checked for fixed ISO formats implementation-side',
    'maxwidth (textwrap.shorten) is modelled for texts made of letters and whitespace (no hyphens/punctuation)',
    'joinstr joins in the iteration order of the Python set; the harness reads that order from the same set object',
    'account_sortkey/possign use the account types of the ledger options (read from the attached connection)',
    'not counted as violations (model and implementation both raise): splitcomp index out of range, maxwidth width < 5, '
    'date_bin with zero stride, dates/years leaving 0001..9999',
    'tie by translation (C18_source_*, Gen/SrcEnv.v): the semantics of the library calls the translated functions make '
    '(Model/PrimsEnv.v prim_env: int(), Decimal(), str(), str.split/format, datetime.date, isocalendar, timedelta, '
    'dateutil weekday, re on literal patterns, beancount.core.account*) is the trusted model of the Python library; '
    'the PyMini interpreter (Model/PyMini.v) is the trusted semantics of the Python fragment; possign/account_sortkey '
    'are translated without their first statement (account_types = context.tables[..].types is a parameter)',
    'tie by translation of date_bin(relativedelta, date, date) (C18_source_date_bin*, Gen/SrcEnv2.v, bld-env2): `while True: B` '
    'is translated as the fuelled `for $while in $fuel: B` over an extra last parameter followed by a marker primitive without '
    'semantics (out of fuel = Stuck; theorems hold for every fuel and show |source - origin| + 1 passes suffice when adding the '
    'stride makes progress); trusted primitives (Model/PrimsEnvDateBin.v): a relativedelta has years/months/days only (hours, '
    'minutes, seconds read 0), date +/- relativedelta = Dates.rd_add (day clipped to the month length, ValueError outside '
    'years 1..9999), a timedelta is its whole days, total_seconds() of a date difference is the integer days * 86400 (an '
    'integral float), timedelta(seconds=n) = n // 86400 days for date arithmetic; for strides in days the tie assumes the '
    'result is inside date.min..date.max (the model has no OverflowError there)',
]


def generate():
    """Regenerate coq/Gen/SrcEnv.v (PyMini translation of the scalar functions of query_env.py) from the live source;
    raises py2mini.Untranslatable when a tied function left the fragment (reported as translator-failed)."""
    from . import gen_src, src_env
    out = gen_src.generate('env')
    out.update(src_env.report())
    # bld-env2: date_bin(relativedelta, date, date) with its while-True loops fuelled -> Gen/SrcEnv2.v
    from . import src_env2
    out.update(gen_src.generate('env2'))
    out.update(src_env2.report())
    return out

LO = DATE(1900, 1, 1).toordinal()
HI = DATE(2100, 12, 31).toordinal()

EXC = {'ValueError': 1, 'OverflowError': 2, 'IndexError': 3, 'ZeroDivisionError': 4, 'AttributeError': 5,
       'TypeError': 5, 'InvalidOperation': 6}


def exc_canon(e):
    k = EXC.get(type(e).__name__)
    if k is None:
        return ['exception', type(e).__name__, str(e)[:120]]
    return [6, k]


def xcanon(v):
    if isinstance(v, D) and not v.is_finite():
        kind = 1 if v.is_infinite() else (3 if v.is_snan() else 2)
        return [7, int(v.is_signed()), kind]
    return values.canon(v)


# ---------------------------------------------------------------------------
# Gallina literals

def cdec(v):
    s, digits, e = v.as_tuple()
    return f'(mkdec {core.cbool(bool(s))} {int("".join(map(str, digits)))} {cZ(e)})'


def cx(v):
    if isinstance(v, D) and not v.is_finite():
        kind = 1 if v.is_infinite() else (3 if v.is_snan() else 2)
        return f'(XSpec {core.cbool(v.is_signed())} {kind})'
    return f'(XV {values.to_coq(v)})'


def cord(d):
    return str(d.toordinal())


def ctuple(*xs):
    return '(' + ', '.join(xs) + ')'


# ---------------------------------------------------------------------------
# groups

TRUNC_FIELDS = ['week', 'month', 'quarter', 'year', 'decade', 'century', 'millennium', 'day', 'WEEK', '']
PART_FIELDS = ['weekday', 'dow', 'isoweekday', 'isodow', 'week', 'month', 'quarter', 'year', 'isoyear', 'decade',
               'century', 'millennium', 'epoch', 'day', 'Year']


class Group:
    def __init__(self, name, cols, targets, model, lit, perrow=False, inline=False, pick=None):
        self.name = name
        self.cols = cols            # [(column name, python type)]
        self.targets = targets      # BQL expressions over the columns
        self.model = model          # Gallina function applied to one row literal
        self.lit = lit              # row -> Gallina literal
        self.perrow = perrow        # most rows raise: skip the batch attempt
        self.inline = inline        # run in-process (set iteration order)
        self.pick = pick            # indexes of the model cells that correspond to the targets


def _fields(fs):
    return clist([f's2z "{f}"' for f in fs])


GROUPS = {}


def _g(*a, **k):
    g = Group(*a, **k)
    GROUPS[g.name] = g


_g('dates', [('v_d', DATE)],
   [f"date_trunc('{f}', v_d)" for f in TRUNC_FIELDS] + [f"date_part('{f}', v_d)" for f in PART_FIELDS]
   + ['year(v_d)', 'month(v_d)', 'day(v_d)', 'yearmonth(v_d)', 'quarter(v_d)', 'weekday(v_d)', 'str(v_d)',
      'date(str(v_d))'],
   f'g_dates {_fields(TRUNC_FIELDS)} {_fields(PART_FIELDS)}', lambda r: cord(r[0]))
_g('arith', [('v_d', DATE), ('v_e', DATE), ('v_n', int)],
   ['date_add(v_d, v_n)', 'date_diff(v_d, v_e)', 'v_d + v_n', 'v_n + v_d', 'v_d - v_n', 'v_d - v_e'],
   'g_arith', lambda r: ctuple(cord(r[0]), cord(r[1]), cZ(r[2])))
_g('interval', [('v_d', DATE), ('v_s', str)],
   ['v_d + interval(v_s)', 'interval(v_s) + v_d', 'v_d - interval(v_s)'],
   'g_interval', lambda r: ctuple(cord(r[0]), cstr(r[1])))
_g('bin', [('v_s', str), ('v_d', DATE), ('v_o', DATE)], ['date_bin(v_s, v_d, v_o)'],
   'g_bin', lambda r: ctuple(cstr(r[0]), cord(r[1]), cord(r[2])))
_g('acct', [('v_a', str), ('v_n', int), ('v_x', D)],
   ['root(v_a, v_n)', 'root(v_a)', 'parent(v_a)', 'leaf(v_a)', 'account_sortkey(v_a)', 'possign(v_x, v_a)'],
   None, lambda r: ctuple(cstr(r[0]), cZ(r[1]), cdec(r[2])))
_g('substr', [('v_s', str), ('v_i', int), ('v_j', int)],
   ['substr(v_s, v_i, v_j)', 'upper(v_s)', 'lower(v_s)', 'length(v_s)'],
   'g_substr', lambda r: ctuple(cstr(r[0]), cZ(r[1]), cZ(r[2])), pick=[0, 1, 2, 3])
_g('split', [('v_s', str), ('v_t', str), ('v_i', int)], ['splitcomp(v_s, v_t, v_i)'],
   'g_split', lambda r: ctuple(cstr(r[0]), cstr(r[1]), cZ(r[2])), perrow=True)
_g('maxw', [('v_s', str), ('v_n', int)], ['maxwidth(v_s, v_n)'],
   'g_maxw', lambda r: ctuple(cstr(r[0]), cZ(r[1])))
_g('regex', [('v_p', str), ('v_s', str), ('v_n', int), ('v_r', str)],
   ['grep(v_p, v_s)', 'grepn(v_p, v_s, v_n)', 'subst(v_p, v_r, v_s)'],
   'g_regex', lambda r: ctuple(cstr(r[0]), cstr(r[1]), cZ(r[2]), cstr(r[3])))
_g('set', [('v_p', str), ('v_v', set)], ['joinstr(v_v)', 'findfirst(v_p, v_v)'],
   'g_set', lambda r: ctuple(cstr(r[0]), clist([cstr(s) for s in r[1]])), inline=True)
_g('dec1', [('v_x', D), ('v_n', int)],
   ['abs(v_x)', 'neg(v_x)', '-v_x', 'round(v_x)', 'round(v_x, v_n)'],
   'g_dec1', lambda r: ctuple(cdec(r[0]), cZ(r[1])))
_g('div', [('v_x', D), ('v_y', D), ('v_i', int)], ['safediv(v_x, v_y)', 'safediv(v_x, v_i)'],
   'g_div', lambda r: ctuple(cdec(r[0]), cdec(r[1]), cZ(r[2])))
_g('int', [('v_z', int), ('v_n', int)], ['round(v_z)', 'round(v_z, v_n)', '-v_z'],
   'g_int', lambda r: ctuple(cZ(r[0]), cZ(r[1])))
CASTS = ['bool(v_x)', 'int(v_x)', 'decimal(v_x)', 'str(v_x)', 'date(v_x)']
for _t, _name, _pick in [(object, 'obj', [0, 1, 2, 3, 4]), (int, 'int', [0, 1, 2, 3]), (bool, 'bool', [0, 1, 2, 3]),
                         (D, 'decimal', [0, 1, 2, 3]), (str, 'str', [0, 1, 2, 3, 4]), (DATE, 'date', [0, 3, 4])]:
    _g('cast_' + _name, [('v_x', _t)], [CASTS[i] for i in _pick], 'g_cast', lambda r: cx(r[0]), pick=_pick)
_g('pdate2', [('v_s', str), ('v_f', str)], ['parse_date(v_s, v_f)'], 'g_pdate', lambda r: cstr(r[0]))
_g('pdate1', [('v_s', str)], ['parse_date(v_s)'], 'g_pdate', lambda r: cstr(r[0]))
_g('date3', [('v_y', int), ('v_m', int), ('v_d', int)], ['date(v_y, v_m, v_d)'],
   'g_date3', lambda r: ctuple(cZ(r[0]), cZ(r[1]), cZ(r[2])))


# ---------------------------------------------------------------------------
# implementation side

_CONN = None


def conn():
    global _CONN
    if _CONN is None:
        from beancount import loader
        entries, errors, options = loader.load_string('')
        _CONN = impl.connection()
        _CONN.attach('beancount:', entries=entries, errors=errors, options=options)
    return _CONN


def account_types():
    return list(conn().tables['accounts'].types)


def impl_rows(arg):
    """[(group name, rows)] -> matrix [row][target] of canonical values / exceptions."""
    gname, rows = arg
    g = GROUPS[gname]
    c = conn()
    rows = [tuple(r) for r in rows]
    table = impl.make_table('t', g.cols, rows)
    c.tables['t'] = table
    if not g.perrow:
        try:
            res = c.execute('SELECT ' + ', '.join(g.targets) + ' FROM #t').fetchall()
            if len(res) == len(rows):
                return [[xcanon(v) for v in r] for r in res]
        except Exception:  # noqa: BLE001
            pass
    # one compiled statement per target, executed on one-row tables
    from beanquery import compiler, parser, query_execute
    out = [[None] * len(g.targets) for _ in rows]
    for k, tgt in enumerate(g.targets):
        try:
            q = compiler.compile(c, parser.parse(f'SELECT {tgt} FROM #t'))
        except Exception as e:  # noqa: BLE001
            for i in range(len(rows)):
                out[i][k] = ['compile', impl.exc_class(e), str(e)[:100]]
            continue
        for i, r in enumerate(rows):
            table.rows = [r]
            try:
                _, rr = query_execute.execute_query(q)
                out[i][k] = xcanon(rr[0][0]) if len(rr) == 1 else ['rows', len(rr)]
            except Exception as e:  # noqa: BLE001
                out[i][k] = exc_canon(e)
    table.rows = rows
    return out


def run_impl(gname, rows, chunk=2500):
    g = GROUPS[gname]
    chunks = [(gname, rows[i:i + chunk]) for i in range(0, len(rows), chunk)]
    if g.inline or len(chunks) < 2:
        parts = [impl_rows(c) for c in chunks]
    else:
        import multiprocessing as mp
        with mp.get_context('fork').Pool(core.NCPU) as pool:
            parts = pool.map(impl_rows, chunks, 1)
    return [r for p in parts for r in p]


# ---------------------------------------------------------------------------
# model side

def model_fn(g):
    if g.name == 'acct':
        return 'g_acct ' + clist([cstr(t) for t in account_types()])
    return g.model


def model_exprs(gname, rows, per=150):
    g = GROUPS[gname]
    fn = model_fn(g)
    return [f'o_list ({fn}) ' + clist([g.lit(r) for r in rows[i:i + per]]) for i in range(0, len(rows), per)]


_TOK = re.compile(r'OL|ON|\[|\]|-?\d+')


def parse_out(s):
    """Parse Coq's own rendering of a term of type Base.Out.out: OL [ON 1; ON (-2); OL []]."""
    toks = _TOK.findall(s)
    pos = 0

    def rd():
        nonlocal pos
        t = toks[pos]
        pos += 1
        if t == 'ON':
            v = int(toks[pos])
            pos += 1
            return v
        assert t == 'OL', (t, s[:200])
        assert toks[pos] == '[', s[:200]
        pos += 1
        l = []
        while toks[pos] != ']':
            l.append(rd())
        pos += 1
        return l
    v = rd()
    assert pos == len(toks), s[:200]
    return v


_HEADER = '''From Coq Require Import String ZArith List Bool.
Import ListNotations.
From Verif Require Import Base.Out Base.PyValue Model.Dates Model.StrFuncs Model.C18Out.
Open Scope string_scope.
Open Scope Z_scope.
Set Printing Width 2000000000.
Set Printing Depth 2000000000.
'''


def _run_shard(args):
    import subprocess
    path, n = args
    p = subprocess.run(['timeout', '1500', 'coqc', '-Q', core.COQ, 'Verif'] + core.COQ_WARN + [path],
                       stdout=subprocess.PIPE, stderr=subprocess.PIPE, text=True)
    if p.returncode != 0:
        raise RuntimeError(f'coqc failed on {path}:\n{p.stdout[-2000:]}\n{p.stderr[-3000:]}')
    parts = re.findall(r'^\s*= (.*?)^\s*: out\s*$', p.stdout, re.M | re.S)
    if len(parts) != n:
        raise RuntimeError(f'{path}: expected {n} results, got {len(parts)}\n{p.stdout[:1500]}')
    return [parse_out(x) for x in parts]


def coq_eval_terms(tag, exprs, shard=8):
    """Like core.coq_eval, but lets Coq print the [out] term itself (printing a term is several times
    faster than building and printing a Coq string of the same size, and needs no deep stack)."""
    import os
    import shutil
    from concurrent.futures import ThreadPoolExecutor
    if not exprs:
        return []
    d = os.path.join(core.BUILD, 'cases', tag)
    shutil.rmtree(d, ignore_errors=True)
    os.makedirs(d)
    jobs = []
    for k in range(0, len(exprs), shard):
        part = exprs[k:k + shard]
        path = os.path.join(d, f'cases_{k // shard:05d}.v')
        with open(path, 'w') as f:
            f.write(_HEADER)
            for e in part:
                f.write(f'Eval vm_compute in ({e}).\n')
        jobs.append((path, len(part)))
    with ThreadPoolExecutor(core.NCPU) as ex:
        parts = list(ex.map(_run_shard, jobs))
    shutil.rmtree(d, ignore_errors=True)
    return [r for p in parts for r in p]


def run_model(jobs, tag='c18'):
    """jobs: [(group name, rows)] -> {job index: matrix}"""
    exprs, owner = [], []
    for j, (gname, rows) in enumerate(jobs):
        es = model_exprs(gname, rows)
        exprs += es
        owner += [j] * len(es)
    res = coq_eval_terms(tag, exprs)
    out = {j: [] for j in range(len(jobs))}
    for j, r in zip(owner, res):
        out[j] += r
    for j, (gname, rows) in enumerate(jobs):
        pick = GROUPS[gname].pick
        if pick is not None:
            out[j] = [[r[i] for i in pick] for r in out[j]]
    return out


# ---------------------------------------------------------------------------
# generators

def all_strings(alphabet, maxlen):
    out = []
    for n in range(maxlen + 1):
        out += [''.join(p) for p in itertools.product(alphabet, repeat=n)]
    return out


def date_rows(tier, rng):
    if tier == 'thorough':
        ords = set(range(LO, HI + 1))
    else:
        off = rng.randrange(17)
        ords = set(range(LO + off, HI + 1, 17))
        for y in range(1900, 2101):
            a = DATE(y, 1, 1).toordinal()
            ords.update(range(max(LO, a - 4), a + 5))
            b = DATE(y, 3, 1).toordinal()
            ords.update(range(b - 3, b + 2))
    edge = [DATE(1, 1, 1), DATE(1, 1, 2), DATE(9, 12, 31), DATE(10, 1, 1), DATE(99, 12, 31), DATE(100, 1, 1),
            DATE(1000, 12, 31), DATE(1001, 1, 1), DATE(1582, 10, 15), DATE(1600, 2, 29), DATE(1899, 12, 31),
            DATE(2101, 1, 1), DATE(2400, 2, 29), DATE(9990, 1, 1), DATE(9999, 12, 31), DATE(1970, 1, 1), DATE(1969, 12, 31)]
    return [(DATE.fromordinal(o),) for o in sorted(ords)] + [(d,) for d in edge]


def rdate(rng):
    return DATE.fromordinal(rng.randint(LO, HI))


def arith_rows(tier, rng):
    n = 3000 if tier == 'quick' else 40000
    ns = [0, 1, -1, 7, -7, 28, 30, 31, 365, -365, 366, 36524, -36525, 146097]
    big = [10 ** 9, -10 ** 9, 999999999, -999999999, 2 ** 31, -2 ** 31 - 1, 2 ** 63, 10 ** 10, 3652058, -3652058,
           3000000, -800000]
    rows = []
    for _ in range(n):
        r = rng.random()
        k = rng.choice(ns) if r < 0.4 else (rng.randint(-100000, 100000) if r < 0.97 else rng.choice(big))
        rows.append((rdate(rng), rdate(rng), k))
    for d in (DATE(1, 1, 1), DATE(9999, 12, 31), DATE(2000, 2, 29)):
        for k in ns[:6] + big:
            rows.append((d, DATE(9999, 12, 31), k))
            rows.append((d, DATE(1, 1, 1), -k))
    return rows


INTERVAL_BAD = ['1 week', '1month', ' 1 day', '1 day ', '1 DAY', 'day', '', 'x', '1.5 days', '1 dayss', '++1 day',
                '1 decade', '- 1 day', '1 day\n']
INTERVAL_ODD = ['+2 months', '-3  years', '1\tday', '007 days', '+0 years', '-0 months', '1 \t month']


def interval_strings():
    out = []
    for k in [0, 1, 2, 3, 5, 6, 11, 12, 13, 14, 23, 24, 25, 48, 120, 1200, 30, 31, 365, 366]:
        for u in ['day', 'days', 'month', 'months', 'year', 'years']:
            out.append(f'{k} {u}')
            out.append(f'-{k} {u}')
    out += ['8000 years', '-3000 years', '96000 months', '10000000000 days', '-999999999 days', '999999999 days',
            '4000000 days']
    return out + INTERVAL_ODD + INTERVAL_BAD


def month_end_dates():
    out = []
    for y in (1900, 1999, 2000, 2001, 2020, 2024, 2099, 2100):
        for m in range(1, 13):
            last = (DATE(y + (m == 12), m % 12 + 1, 1) - datetime.timedelta(days=1)).day
            for dd in {1, 15, 28, 29, 30, 31}:
                if dd <= last:
                    out.append(DATE(y, m, dd))
    return out + [DATE(1, 1, 31), DATE(1, 3, 31), DATE(9999, 12, 31), DATE(9999, 1, 31), DATE(4, 2, 29)]


def interval_rows(tier, rng):
    ds = month_end_dates()
    ss = interval_strings()
    rows = [(d, s) for d in ds for s in ss]
    if tier == 'quick':
        keep = [r for r in rows if r[1] in INTERVAL_ODD + INTERVAL_BAD and r[0].day == 31 and r[0].year == 2000]
        rows = rng.sample(rows, 6000) + keep
    elif len(rows) > 40000:
        keep = [r for r in rows if r[1] in INTERVAL_ODD + INTERVAL_BAD and r[0].day == 31 and r[0].year == 2000]
        rows = rng.sample(rows, 40000) + keep
    rows += [(rdate(rng), rng.choice(ss)) for _ in range(1000 if tier == 'quick' else 10000)]
    return rows


BIN_STRIDES = ['1 day', '2 days', '3 days', '7 days', '14 days', '30 days', '1 month', '2 months', '3 months',
               '6 months', '14 months', '1 year', '5 years', '12 months']
BIN_SPECIAL = ['0 days', '-1 day', '0 months', '-1 month', '-2 years', '0 years', 'foo', '1 week']
BIN_ORIGINS = [DATE(2000, 1, 1), DATE(2000, 1, 31), DATE(2000, 2, 29), DATE(1999, 12, 15), DATE(2020, 1, 28),
               DATE(1950, 6, 30), DATE(2100, 12, 31), DATE(1900, 1, 1), DATE(2001, 3, 31), DATE(1996, 2, 29)]


def bin_rows(tier, rng):
    near, step = (20, 2477) if tier == 'quick' else (120, 797)
    rows = []
    for o in (BIN_ORIGINS[:7] if tier == 'quick' else BIN_ORIGINS):
        oo = o.toordinal()
        src = set(range(max(LO, oo - near), min(HI, oo + near) + 1))
        src.update(range(LO + rng.randrange(step), HI + 1, step))
        # exact bin boundaries (month/year multiples of the origin), where off-by-one errors live
        for k in (list(range(-24, 25)) + [60, 120, -60, 600] if tier != 'quick' else [-13, -12, -6, -3, -2, -1, 0, 1, 2, 3, 6, 12, 14, 24, 60]):
            y, m = divmod(o.year * 12 + o.month - 1 + k, 12)
            if 1900 <= y <= 2100:
                for dd in (o.day, o.day - 1, o.day + 1, 28, 1):
                    try:
                        src.add(DATE(y, m + 1, dd).toordinal())
                    except ValueError:
                        pass
        for s in BIN_STRIDES:
            rows += [(s, DATE.fromordinal(x), o) for x in sorted(src)]
        for s in BIN_SPECIAL:
            rows += [(s, DATE.fromordinal(x), o) for x in (oo - 40, oo - 1, oo, oo + 1, oo + 31, oo + 400)
                     if LO <= x <= HI]
    return rows


ROOTS = ['Assets', 'Liabilities', 'Equity', 'Income', 'Expenses']
DEC_POOL = [D('1.50'), D('-2'), D('0'), D('-0.0'), D('0E+2'), D('12345678901234567890123456789012'),
            D('-99999999999999999999999999995'), D('1E+3'), D('-7.125')]


def acct_rows(tier, rng):
    names = []
    for r in ROOTS + ['Foo']:
        for depth in range(0, 5):
            for comps in itertools.product(['A', 'Bb'], repeat=depth):
                names.append(':'.join((r,) + comps))
    names += ['', ':', 'Assets:', ':A', 'Assets::A', 'assets:A', 'Assets:A:', '::', 'Expenses', 'Income:', 'A', 'Bb:A']
    rows = []
    for i, a in enumerate(names):
        for n in range(-3, 8):
            rows.append((a, n, DEC_POOL[(i + n) % len(DEC_POOL)]))
    for a in ROOTS + ['Assets:A', 'Income:Bb:A', 'Liabilities:A', 'Equity:A', 'Expenses:A', 'Foo:A', '']:
        for x in DEC_POOL:
            rows.append((a, 1, x))
    return rows


ALPHA = ['a', 'B', ' ']


def substr_rows(tier, rng):
    strs = all_strings(ALPHA, 4)
    rows = [(s, i, j) for s in strs for i in range(-6, 7) for j in range(-6, 7)]
    extra = ['Assets:Cash', 'hello world', 'Zz09_-~', 'abcdefghij']
    rows += [(s, i, j) for s in extra for i in (-12, -3, 0, 2, 5, 11, 40) for j in (-40, -1, 0, 4, 10, 11, 12)]
    if tier == 'quick':
        rows = [r for k, r in enumerate(rows) if k % 3 == rng.randrange(3) or len(r[0]) > 4]
    return rows


def split_rows(tier, rng):
    strs = all_strings(ALPHA, 4)
    delims = ['a', ' ', 'aB', 'aa', '']
    rows = [(s, dl, i) for s in strs for dl in delims for i in range(-6, 7)]
    rows += [('Assets:Cash:Sub', ':', i) for i in range(-5, 6)] + [('a::b::c', '::', i) for i in range(-4, 5)]
    if tier == 'quick':
        rows = [r for k, r in enumerate(rows) if k % 2 == 0 or len(r[0]) > 4]
    return rows


def maxw_rows(tier, rng):
    rows = []
    for s in all_strings(ALPHA, 4):
        for n in (-6, -1, 0, 1, 4, 5, 6):
            rows.append((s, n))
    words = ['a', 'B', 'ab', 'abc', 'Hello', 'worlds', 'abcdefgh', 'abcdefghijklmnop', 'x' * 25]
    n = 1500 if tier == 'quick' else 20000
    for _ in range(n):
        k = rng.randint(1, 6)
        parts = []
        for _ in range(k):
            parts.append(rng.choice(words))
            parts.append(rng.choice([' ', ' ', '  ', '\t', '\n ', '   ']))
        s = rng.choice(['', ' ', '  ']) + ''.join(parts[:-1]) + rng.choice(['', ' ', '\n'])
        rows.append((s, rng.choice([4, 5, 6, 7, 8, 9, 10, 11, 12, 13, 14, 15, 16, 20, 24, 30, 40, len(s), len(s) - 1,
                                    len(' '.join(s.split())), len(' '.join(s.split())) - 1])))
    return rows


def regex_rows(tier, rng):
    pats = ['a', 'B', 'aB', 'aa', 'Ba']
    strs = all_strings(['a', 'B'], 4) + ['aaaa', 'aBaBa', 'xaay']
    rows = []
    for p in pats:
        for s in strs:
            for n in (0, 1):
                rows.append((p, s, n, rng.choice(['', 'x', 'aB', 'a'])))
    return rows


def set_rows(tier, rng):
    pool = ['a', 'b', 'ab', 'aa', 'ba', 'B', '', 'abc', 'Assets', 'z']
    rows = [('a', set())]
    n = 300 if tier == 'quick' else 3000
    for _ in range(n):
        v = set(rng.sample(pool, rng.randint(0, 6)))
        rows.append((rng.choice(['a', 'b', 'ab', 'A', 'z', 'c']), v))
    return rows


def small_decimals(coefs):
    out = []
    for c in coefs:
        for e in range(-4, 5):
            for s in (0, 1):
                out.append(D((s, tuple(map(int, str(c))), e)))
    return out


def dec1_rows(tier, rng):
    if tier == 'thorough':
        coefs = list(range(0, 10000, 5)) + list(range(0, 130)) + [9999]
    else:
        coefs = sorted(set(list(range(0, 60)) + [rng.randrange(10000) for _ in range(100)]
                           + [k * 10 + 5 for k in range(0, 1000, 37)] + [9995, 9999, 5000, 4999, 5001, 2500, 1250]))
    rows = []
    for x in small_decimals(coefs):
        rows.append((x, rng.randint(-6, 6)))
    # all n for a subset, incl. ties
    for x in small_decimals([0, 5, 15, 25, 35, 45, 50, 150, 250, 1, 9, 99, 999, 9999, 4445, 5555, 1005, 995]):
        for n in range(-6, 7):
            rows.append((x, n))
    big = [D('12345678901234567890123456789012'), D('-99999999999999999999999999995'),
           D('99999999999999999999999999999.5'), D('1234567890123456789012345678.5'),
           D('1234567890123456789012345675E+3'), D('0.1234567890123456789012345678901234'),
           D('1E+27'), D('1E+28'), D('9.999999999999999999999999999E+30')]
    for x in big:
        for n in (-30, -3, 0, 1, 2, 27, 30):
            rows.append((x, n))
    return rows


def div_rows(tier, rng):
    base = [0, 1, 2, 3, 5, 6, 7, 9, 10, 12, 15, 25, 64, 99, 100, 125, 128, 333, 999, 1000, 1024, 2500, 7777, 9999]
    pool = small_decimals(base if tier == 'thorough' else base[::2] + [7, 9999])
    if tier == 'quick':
        pool = [x for k, x in enumerate(pool) if k % 4 == 0 or x == 0]
    else:
        pool = [x for k, x in enumerate(pool) if k % 3 == 0 or x == 0]
    ints = [0, 1, -1, 2, 3, 7, -9, 10, 64, 1000, 12345678901234567890123456789012]
    rows = []
    k = 0
    for x in pool:
        for y in pool:
            k += 1
            rows.append((x, y, ints[k % len(ints)]))
    big = [D('12345678901234567890123456789012'), D('-99999999999999999999999999995'), D('1E+27'), D('3E-20')]
    rows += [(x, y, 3) for x in big + pool[:40] for y in big + pool[:10]]
    if tier == 'quick' and len(rows) > 40000:
        rows = rng.sample(rows, 40000)
    return rows


def int_rows(tier, rng):
    w, k = (40, 100) if tier == 'quick' else (130, 300)
    zs = list(range(-w, w + 1)) + [rng.randint(-10 ** 6, 10 ** 6) for _ in range(k)] + \
        [5, 15, 25, 50, 150, 250, 500, 1500, 2500, -5, -15, -25, -50, -150, -250, 10 ** 30 + 5, -(10 ** 30) - 5]
    return [(z, n) for z in zs for n in range(-6, 7)]


CAST_POOL = {
    int: [0, 1, -1, 2, 7, 10, -10, 255, 10 ** 20, -(10 ** 20), 2 ** 31, 2 ** 63],
    bool: [True, False],
    D: [D('0'), D('-0'), D('0.0'), D('1'), D('1.0'), D('1.50'), D('-1.5'), D('-0.5'), D('0.999'), D('-0.999'),
        D('2.5'), D('1E+4'), D('1E+2'), D('-1.2E+3'), D('1E-7'), D('1.5E-7'), D('0E-7'), D('0E+3'), D('123456.789'),
        D('0.000001'), D('0.0000001'), D('12345678901234567890123456789012'), D('1234567.8E+1'),
        D('Infinity'), D('-Infinity'), D('NaN'), D('-NaN'), D('sNaN')],
    str: ['', ' ', '0', '1', '-1', '+1', ' 12 ', '1_000', '1__0', '_1', '1_', '0x10', '1.5', '1e3', '1E3', '-1.5e-3',
          '.5', '5.', '.', 'e3', '1e', '1e+', '1e+2', '+.5', '-0', '-0.00', '00012', '0_0', 'abc', 'TRUE', 'true', 'inf',
          'Inf', '-Infinity', 'nan', 'NaN', '-nan', 'snan', 'infinit', '1_0.0_1', '_1_', ' 1.5\n', '1 5', '--1', '+-1',
          '1.5.1', '2020-01-05', '2020-1-5', '2020-01-5', '2020-1-05', '2020-13-01', '2020-12-31', '2020-02-30',
          '2020-02-29', '2021-02-29', '0000-01-01', '0001-01-01', '9999-12-31', '10000-01-01', '202-01-01',
          '2020-01-01 ', ' 2020-01-01', '2020-01-32', '2020-00-10', '2020-10-00', '2020-10- 5', '2020-10-05x',
          '2020/10/05', '2020-10', '2020-10-05-01', '2020--10-05', '2020-010-05', '2020-10-005', '2020-1-31',
          '1900-02-29', '2000-02-29', '20200105', 'a-b-c', '１２', '1\t', '\n7'],
    DATE: [DATE(1, 1, 1), DATE(999, 3, 4), DATE(1900, 1, 1), DATE(2020, 2, 29), DATE(2020, 12, 31), DATE(9999, 12, 31)],
}


def cast_rows(t, tier, rng):
    if t is object:
        rows = [(v,) for tt in (int, bool, D, str, DATE) for v in CAST_POOL[tt]]
    else:
        rows = [(v,) for v in CAST_POOL[t]]
    if t in (object, D):
        rows += [(x,) for x in small_decimals([0, 1, 5, 15, 99, 100, 1234, 9999] if tier == 'quick' else range(0, 10000, 7))]
    if t in (object, int):
        rows += [(rng.randint(-10 ** 9, 10 ** 9),) for _ in range(100)]
    if t in (object, str):
        for _ in range(300 if tier == 'quick' else 5000):
            k = rng.random()
            if k < 0.4:
                s = ''.join(rng.choice('0123456789_+-. eE') for _ in range(rng.randint(1, 7)))
            elif k < 0.7:
                s = '%s-%s-%s' % (rng.choice(['2020', '1999', '2100', '0999', '999', '20200']),
                                  rng.choice(['1', '01', '12', '13', '00', '2', '02', ' 2', '10', '001']),
                                  rng.choice(['1', '01', '31', '30', '29', '28', '32', '00', ' 1', '  1', '010', '9']))
            else:
                s = str(rng.choice([rng.randint(-10 ** 6, 10 ** 6), D(rng.randint(-10 ** 6, 10 ** 6)).scaleb(rng.randint(-8, 8))]))
            rows.append((s,))
    if t is str:
        rows = [r for r in rows if all(ord(c) < 128 for c in r[0])]
    else:
        rows = [r for r in rows if not isinstance(r[0], str) or all(ord(c) < 128 for c in r[0])]
    return rows


def date3_rows(tier, rng):
    ys = [0, 1, 4, 100, 1900, 2000, 2020, 2021, 2100, 9999, 10000, -1, 2 ** 31 - 1, 2 ** 31, -2 ** 31 - 1, 2 ** 40, 10 ** 20]
    ms = [0, 1, 2, 4, 12, 13, -1, 2 ** 31, 2 ** 64]
    ds = [0, 1, 28, 29, 30, 31, 32, -1, 2 ** 31, 2 ** 64]
    return [(y, m, d) for y in ys for m in ms for d in ds]


def pdate2_rows(tier, rng):
    ss = [s for s in CAST_POOL[str] if all(ord(c) < 128 for c in s)]
    for _ in range(300 if tier == 'quick' else 5000):
        ss.append('%s-%s-%s' % (rng.choice(['2020', '1999', '2100', '0999', '999', '20200', '1900', '2000']),
                                rng.choice(['1', '01', '12', '13', '00', '2', '02', ' 2', '10', '001']),
                                rng.choice(['1', '01', '31', '30', '29', '28', '32', '00', ' 1', '  1', '010', '9'])))
        ss.append(rdate(rng).isoformat())
    return [(s, '%Y-%m-%d') for s in ss]


def pdate1_rows(tier, rng):
    """dateutil is not modelled: only zero-padded ISO dates, where it has to agree with strptime"""
    return [(rdate(rng).isoformat(),) for _ in range(300 if tier == 'quick' else 5000)] + \
        [(d.isoformat(),) for d in CAST_POOL[DATE] if d.year >= 1000]


GENERATORS = {
    'pdate2': pdate2_rows, 'pdate1': pdate1_rows,
    'dates': date_rows, 'arith': arith_rows, 'interval': interval_rows, 'bin': bin_rows, 'acct': acct_rows,
    'substr': substr_rows, 'split': split_rows, 'maxw': maxw_rows, 'regex': regex_rows, 'set': set_rows,
    'dec1': dec1_rows, 'div': div_rows, 'int': int_rows, 'date3': date3_rows,
    'cast_obj': lambda t, r: cast_rows(object, t, r), 'cast_int': lambda t, r: cast_rows(int, t, r),
    'cast_bool': lambda t, r: cast_rows(bool, t, r), 'cast_decimal': lambda t, r: cast_rows(D, t, r),
    'cast_str': lambda t, r: cast_rows(str, t, r), 'cast_date': lambda t, r: cast_rows(DATE, t, r),
}


# ---------------------------------------------------------------------------
# JSON for replay records

def enc(v):
    if isinstance(v, bool) or v is None or isinstance(v, (int, str)):
        return v
    if isinstance(v, D):
        return {'decimal': str(v)}
    if isinstance(v, DATE):
        return {'date': v.isoformat()}
    if isinstance(v, (set, frozenset, list)):
        return {'set': list(v)}
    raise TypeError(repr(v))


def dec_(v):
    if isinstance(v, dict):
        if 'decimal' in v:
            return D(v['decimal'])
        if 'date' in v:
            return DATE.fromisoformat(v['date'])
        if 'set' in v:
            return list(v['set'])
    return v


# ---------------------------------------------------------------------------
# NULL strictness: any NULL argument gives NULL (checked through the same statements)

def null_rows(g, rows, impl_matrix):
    base = [(r, m) for r, m in zip(rows, impl_matrix) if all(c[0] not in (6, 'exception', 'compile') for c in m)][:3]
    cases = []
    for r, m in base:
        for j, (cname, _) in enumerate(g.cols):
            rr = list(r)
            rr[j] = None
            exp = [[0] if re.search(r'\b%s\b' % cname, t) else c for t, c in zip(g.targets, m)]
            cases.append((tuple(rr), exp))
        cases.append((tuple([None] * len(r)), [[0]] * len(g.targets)))
    return cases


# ---------------------------------------------------------------------------

def rowkey(r):
    return repr(r)


def show_cell(c):
    """canonical cell -> readable"""
    if not isinstance(c, list) or not c:
        return repr(c)
    t = c[0]
    try:
        if t == 0:
            return 'NULL'
        if t == 1:
            return str(bool(c[1]))
        if t == 2:
            return str(c[1])
        if t == 3:
            s, co, e = c[1]
            return str(D((s, tuple(map(int, str(co))), e)))
        if t == 4:
            return repr(''.join(map(chr, c[1])))
        if t == 5:
            return DATE.fromordinal(c[1]).isoformat() if 1 <= c[1] <= 3652059 else f'ordinal {c[1]}'
        if t == 6:
            return 'raises ' + {v: k for k, v in EXC.items() if k != 'TypeError'}.get(c[1], f'error {c[1]}')
        if t == 7:
            return ('-' if c[1] else '') + {1: 'Infinity', 2: 'NaN', 3: 'sNaN'}[c[2]]
    except Exception:  # noqa: BLE001
        pass
    return repr(c)


def compare_group(gname, rows, impl_m, model_m):
    """-> list of (target index, row, impl cell, model cell)"""
    bad = []
    for r, im, mm in zip(rows, impl_m, model_m):
        for k, (a, b) in enumerate(zip(im, mm)):
            if a != b:
                bad.append((k, r, a, b))
    return bad


def hist_add(h, key, n=1):
    h[key] = h.get(key, 0) + n


def histograms(all_rows):
    h = {}
    hd = h.setdefault('dates_weekday', {})
    hm = h.setdefault('dates_month', {})
    hy = h.setdefault('dates_decade', {})
    for (d,) in all_rows.get('dates', []):
        hist_add(hd, d.strftime('%a'))
        hist_add(hm, d.month)
        hist_add(hy, d.year // 10 * 10)
    hb = h.setdefault('bin_stride', {})
    hs = h.setdefault('bin_source_vs_origin', {})
    for s, d, o in all_rows.get('bin', []):
        hist_add(hb, s)
        hist_add(hs, 'before' if d < o else ('equal' if d == o else 'after'))
    hi = h.setdefault('interval_unit', {})
    for d, s in all_rows.get('interval', []):
        hist_add(hi, (s.split() or ['?'])[-1] if len(s.split()) == 2 else 'malformed')
    ha = h.setdefault('acct_components', {})
    for a, n, x in all_rows.get('acct', []):
        hist_add(ha, len(a.split(':')) if a else 0)
    hl = h.setdefault('substr_len', {})
    for s, i, j in all_rows.get('substr', []):
        hist_add(hl, len(s))
    he = h.setdefault('dec_exponent', {})
    for x, n in all_rows.get('dec1', []):
        hist_add(he, x.as_tuple().exponent)
    hn = h.setdefault('round_ndigits', {})
    for x, n in all_rows.get('dec1', []):
        hist_add(hn, n)
    hc = h.setdefault('cast_input_type', {})
    for g in all_rows:
        if g.startswith('cast_'):
            for (v,) in all_rows[g]:
                hist_add(hc, f'{g[5:]}:{type(v).__name__}')
    h['rows_per_group'] = {g: len(r) for g, r in all_rows.items()}
    return h


def eval_groups(jobs_rows, tag='c18'):
    """jobs_rows: {group: rows} -> {group: (rows, impl matrix, model matrix)}"""
    names = list(jobs_rows)
    model_jobs = []
    for g in names:
        rows = jobs_rows[g]
        if g == 'set':
            model_jobs.append((g, [(p, list(v)) for p, v in rows]))
        else:
            model_jobs.append((g, rows))
    from concurrent.futures import ThreadPoolExecutor
    with ThreadPoolExecutor(1) as ex:
        fut = ex.submit(run_model, model_jobs, tag)
        impl_res = {g: run_impl(g, jobs_rows[g]) for g in names}
        model_res = fut.result()
    return {g: (jobs_rows[g], impl_res[g], model_res[j]) for j, g in enumerate(names)}


def run(tier, rng):
    conn()
    all_rows = {}
    for g in GROUPS:
        rows = GENERATORS[g](tier, rng)
        seen, uniq = set(), []
        for r in rows:
            k = rowkey(r)
            if k not in seen:
                seen.add(k)
                uniq.append(r)
        all_rows[g] = uniq
    res = eval_groups(all_rows)
    violations = []
    evaluations = 0
    nontrivial = 0
    errors_agreed = 0
    mism = []
    for g, (rows, im, mm) in res.items():
        assert len(rows) == len(im) == len(mm), (g, len(rows), len(im), len(mm))
        evaluations += len(rows) * len(GROUPS[g].targets)
        for r, a in zip(rows, im):
            if any(c[0] not in (0, 6) for c in a):
                nontrivial += 1
            errors_agreed += sum(1 for c in a if c[0] == 6)
        for k, r, a, b in compare_group(g, rows, im, mm):
            mism.append((g, k, r, a, b))
    # NULL strictness through the same statements
    null_checked = 0
    for g, (rows, im, mm) in res.items():
        if g == 'set':
            continue
        cases = null_rows(GROUPS[g], rows, im)
        if not cases:
            continue
        got = impl_rows((g, [c[0] for c in cases]))
        for (r, exp), a in zip(cases, got):
            null_checked += len(exp)
            for k, (x, y) in enumerate(zip(a, exp)):
                if x != y:
                    mism.append((g, k, r, x, y))
    mism.sort(key=lambda m: (len(repr(m[2])), repr(m[2])))
    disagree = {}
    for g, k, r, a, b in mism:
        hist_add(disagree, GROUPS[g].targets[k])
    seen = set()
    for g, k, r, a, b in mism:
        tgt = GROUPS[g].targets[k]
        if (g, k) in seen:
            continue
        seen.add((g, k))
        sig = f'{tgt} @ {dict(zip([c for c, _ in GROUPS[g].cols], [str(v) if not isinstance(v, (set, list)) else sorted(v) for v in r]))}'
        violations.append(core.Violation(
            'scalar-function',
            f'SELECT {tgt} FROM #t with {sig.split(" @ ")[1]}: implementation gives {show_cell(a)}, '
            f'the model (calendar/slice/decimal definition) gives {show_cell(b)} '
            f'[{sum(1 for m in mism if m[0] == g and m[1] == k)} rows of this target disagree]',
            {'group': g, 'target': k, 'row': [enc(v) for v in r], 'impl': a, 'model': b}, signature=sig))
        if len(seen) >= 3:
            break
    samples = []
    for g in ('dates', 'bin', 'interval', 'acct', 'substr', 'dec1', 'div', 'cast_str'):
        rows, im, mm = res[g]
        i = len(rows) // 2
        samples.append(f'{g}: {rows[i]} -> ' + ', '.join(f'{t} = {show_cell(c)}' for t, c in list(zip(GROUPS[g].targets, im[i]))[:4]))
    cov = {
        'evaluations': evaluations, 'distinct_nontrivial': nontrivial,
        'rows': sum(len(r) for r in all_rows.values()),
        'rule': 'evaluations = (row, SELECT target) pairs compared cell by cell between the implementation (real BQL over harness '
                'tables) and the Coq model; rows are distinct argument tuples; non-trivial = rows where at least one target '
                'returned a non-NULL, non-exception value. dates: '
                + ('every date 1900-01-01..2100-12-31' if tier == 'thorough' else
                   'every 17th date 1900..2100 (random offset, all weekdays) + 9 days around every New Year + end of every February')
                + ' + edge years, x every date_trunc/date_part field (valid, unknown, wrong case) and extractor; date_bin: 14 strides '
                  '(days/months/years incl. 14 months) + 8 degenerate x 10 origins (incl. day 29/30/31) x sources near the origin, '
                  'on exact bin boundaries and across the range; intervals: month-end dates x 240 well-formed + 21 malformed strings; '
                  'accounts: all names of 1..5 components (5 roots + an unknown root, alphabet {A,Bb}) + empty components x n in -3..7; '
                  'strings: all strings of length <= 4 over {a,B,space} x all index pairs in -6..6, split by 5 delimiters x index -6..6; '
                  'decimals: coefficients <= 4 digits x exponents -4..4 x signs (+ 28..34-digit coefficients); casts: per-type pools on '
                  'typed and object columns.',
        'samples': samples,
        'traces_validated_against_impl': evaluations,
        'null_strictness_cells_checked': null_checked,
        'disagreeing_cells_per_target': disagree,
        'exception_cells_agreeing_with_model': errors_agreed,
        'histograms': histograms(all_rows),
        # true when the whole finite space named by the quantifier (every date 1900..2100 x every unit) was enumerated
        'exhaustive': tier == 'thorough',
        'exhaustive_domains': {'dates_1900_2100_x_units': tier == 'thorough', 'strings_len_le_4_x_indexes': tier == 'thorough',
                               'account_names_1_5_components': True, 'decimals_4_digits': False},
    }
    return {'coverage': cov, 'violations': violations}


def replay(rec):
    g = rec['group']
    row = tuple(dec_(v) for v in rec['row'])
    if g == 'set':
        row = (row[0], set(row[1]))
    if any(v is None for v in row):
        # NULL-strictness case: the expected cell was recorded with the violation
        return impl_rows((g, [row]))[0][rec['target']] == rec['model']
    res = eval_groups({g: [row]}, tag='c18r')
    rows, im, mm = res[g]
    return im[0][rec['target']] == mm[0][rec['target']]
