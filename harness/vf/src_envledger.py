"""Group `envledger` of the translator-based tie (see PYMINI.md): the ledger / inventory / metadata functions of
beanquery/query_env.py, tied to the models of C12 (Model/Inventory.v) and C11 (Model/Tables.v).

On every run the plain Python functions behind the registered BQL functions units / cost / value / convert (amount,
position and inventory overloads), getprice, number, currency / commodity, open_date, close_date, open_meta,
currency_meta / commodity_meta are taken from the live registry (query_compile.FUNCTIONS -> the `func` cell of the
NULL-strict wrapper, as in src_env.py) and the __call__ methods of the two registered `getitem` classes (GetItem2,
GetItem3: what the compiler rewrites meta(k) / entry_meta(k) / any_meta(k) into) from the registered classes, and are
translated into coq/Gen/SrcEnvLedger.v.

Context functions read the attached tables through `context.tables['<table>'].<attr>` (a dict subscript by a string
key, outside the fragment).  Every such expression must have exactly that shape (checked structurally) and becomes a
parameter `<table>_<attr>` taking the place of `context` (in order of first occurrence); any other use of `context`
fails closed.  A module-level tuple of constants (NONENONE) is inlined.

REQUIRED functions (the ones Proofs/SrcEnvLedger.v has theorems for) fail closed (py2mini.Untranslatable); the other
ledger-facing functions of the registry are attempted and reported."""
import ast
import inspect

from . import py2mini, src_env
from .py2mini import Untranslatable

PRIMS = ('beancount.core.convert.get_units', 'beancount.core.convert.get_cost', 'beancount.core.convert.get_value',
         'beancount.core.convert.convert_amount', 'beancount.core.convert.convert_position',
         'beancount.core.prices.get_price', 'beancount.core.inventory.Inventory')

# python function name -> theorem in Proofs/SrcEnvLedger.v
REQUIRED = ['position_units', 'inventory_units', 'position_cost', 'inventory_cost', 'position_value',
            'inventory_value', 'convert_amount', 'convert_position', 'convert_inventory', 'getprice', 'number',
            'currency', 'filter_currency_position', 'open_date', 'close_date', 'open_meta', 'currency_meta']
EXTRA = ('only_inventory', 'empty_inventory', 'filter_currency_inventory', 'has_account',
         'meta', 'entry_meta', 'any_meta')
# EXTRA functions that have theorems after all (bld-inv: Proofs/SrcInvFuncs.v, C12_source_only_inventory ..): they keep
# their envlx_ names and position in the file, but fail closed like the REQUIRED ones
EXTRA_TIED = ('only_inventory', 'empty_inventory', 'filter_currency_inventory')

_last_report = {}


class ContextSubst(ast.NodeTransformer):
    """context.tables['<t>'].<a>  ->  Name('<t>_<a>')"""

    def __init__(self):
        self.names = []

    def visit_Attribute(self, node):
        v = node.value
        if (isinstance(v, ast.Subscript) and isinstance(v.slice, ast.Constant) and isinstance(v.slice.value, str)
                and isinstance(v.value, ast.Attribute) and v.value.attr == 'tables'
                and isinstance(v.value.value, ast.Name) and v.value.value.id == 'context'
                and isinstance(node.ctx, ast.Load)):
            name = f'{v.slice.value}_{node.attr}'
            if name not in self.names:
                self.names.append(name)
            return ast.copy_location(ast.Name(id=name, ctx=ast.Load()), node)
        return self.generic_visit(node)


class LedgerFunc(py2mini.FuncTranslator):
    def __init__(self, func, refs, prims=()):
        super().__init__(func, refs, prims=prims)
        if self.params and self.params[0] == 'context':
            sub = ContextSubst()
            self.fd = sub.visit(self.fd)
            ast.fix_missing_locations(self.fd)
            for n in ast.walk(self.fd):
                if isinstance(n, ast.Name) and n.id == 'context':
                    raise Untranslatable(f"{func.__name__}: `context` is used other than as context.tables['t'].attr")
                if isinstance(n, ast.Name) and n.id in sub.names and isinstance(n.ctx, ast.Store):
                    raise Untranslatable(f'{func.__name__}: assigns to {n.id}')
            if any(n in self.locals for n in sub.names):
                raise Untranslatable(f'{func.__name__}: a local is named like a table attribute parameter')
            self.params = sub.names + self.params[1:]
            self.locals |= set(sub.names)
            self.context_params = list(sub.names)

    def free_name(self, name, dotted):
        obj = self.resolve_free(name)
        for a in dotted.split('.')[1:]:
            obj = getattr(obj, a)
        if isinstance(obj, tuple) and all(x is None or isinstance(x, (bool, int, str)) for x in obj):
            return '(XTuple ' + py2mini.glist([self.const(x) for x in obj]) + ')'
        return super().free_name(name, dotted)


def registered_getitem_classes():
    from beanquery import query_compile as qc, query_env  # noqa: F401
    out = {}
    for cls in qc.FUNCTIONS['getitem']:
        if cls.__module__ == 'beanquery.query_env' and '__call__' in cls.__dict__:
            out[len(cls.__intypes__)] = cls
    return out


def spec_envledger():
    reg = src_env.registered_plain_functions()
    out = []
    for name in REQUIRED:
        if name not in reg:
            raise Untranslatable(f'query_env.{name} is no longer registered as a BQL function')
        fn, bql = reg[name]
        out.append(('envl_' + name, fn, f'beanquery.query_env.{name} (BQL {", ".join(bql)})'))
    gi = registered_getitem_classes()
    for n in (2, 3):
        if n not in gi:
            raise Untranslatable(f'no registered getitem class with {n} operands')
        out.append((f'envl_getitem{n}', gi[n].__dict__['__call__'],
                    f'beanquery.query_env.{gi[n].__qualname__}.__call__ (BQL getitem, {n} operands)'))
    return out


class EnvLedgerTranslator:
    @staticmethod
    def translate_all(spec, prims=()):
        refs = py2mini.Refs()
        defs, info, ctxp = [], {}, {}
        for coq_name, fn, origin in spec:
            tr = LedgerFunc(fn, refs, prims=prims)
            term, defaults = tr.translate()
            if getattr(tr, 'context_params', None):
                origin += '; context.tables[..] reads are the parameters ' + ', '.join(tr.context_params)
                ctxp[coq_name] = tr.context_params
            defs.append((coq_name, origin, term, defaults))
            info[coq_name] = {'origin': origin, 'lines': len(inspect.getsource(fn).splitlines())}
        reg = src_env.registered_plain_functions()
        extra, skipped = [], {}
        for name in EXTRA:
            if name not in reg:
                if name in EXTRA_TIED:
                    raise Untranslatable(f'query_env.{name} is no longer registered as a BQL function')
                skipped[name] = 'not registered'
                continue
            fn, bql = reg[name]
            try:
                r2 = py2mini.Refs()
                r2.names = list(refs.names)
                term, defaults = LedgerFunc(fn, r2, prims=prims).translate()
                refs.names = r2.names
                note = 'theorem in Proofs/SrcInvFuncs.v' if name in EXTRA_TIED else 'no theorem'
                defs.append(('envlx_' + name, f'beanquery.query_env.{name} (BQL {", ".join(bql)}); {note}',
                             term, defaults))
                extra.append(name)
            except Exception as e:  # noqa: BLE001  (no theorem depends on these: report, do not fail)
                if name in EXTRA_TIED:
                    raise
                skipped[name] = str(e) or repr(e)
        _last_report.clear()
        _last_report.update({
            'src_envledger_tied_functions': [n for n, _, _ in spec],
            'src_envledger_context_parameters': ctxp,
            'src_envledger_translated_without_theorem': [n for n in extra if n not in EXTRA_TIED],
            'src_envledger_tied_in_SrcInvFuncs': [n for n in extra if n in EXTRA_TIED],
            'src_envledger_skipped': skipped,
        })
        return py2mini.render(defs, refs), info


def report():
    return dict(_last_report)
