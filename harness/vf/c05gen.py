"""C05 generators: typed valid BQL statements over the LIVE registry, single-fault mutants (one per rule
of the property text) and corrupted texts. Everything here works on type NAMES as gen_registry.collect()
prints them, with its own re-implementation of the overload lookup (independent of compiler.py and of the
Coq model), so that a generated 'valid' statement is valid by construction and a mutant is ill-formed by
construction."""
import itertools

LIT = {
    'int': ['1', '2', '0', '3'],
    'Decimal': ['1.5', '2.0', '0.25'],
    'str': ["'x'", '"Assets"', "'2020-01-01'", "''"],
    'date': ['2020-01-01', '2021-12-31', '2020-02-29'],
    'bool': ['TRUE', 'FALSE'],
    'NoneType': ['NULL'],
    'list': ['(1, 2)', "('a', 'b')", '(1, NULL, 2.5)'],
}
PARAM_VALUES = {'int': 7, 'Decimal': '3.25', 'str': 'pv', 'date': '2020-03-04', 'bool': True, 'NoneType': None}

# user tables registered next to the Beancount tables: (name, [(column, type name)])
USER_TABLES = [
    ('t', [('a', 'int'), ('b', 'str'), ('d', 'date'), ('x', 'Decimal'), ('f', 'bool'), ('s', 'set'), ('m', 'dict'),
           ('o', 'object'), ('p', 'beancount.core.position.Position'), ('am', 'beancount.core.amount.Amount'),
           ('inv', 'beancount.core.inventory.Inventory'), ('a2', 'int'), ('b2', 'str')]),
    ('u', [('k', 'int'), ('z', 'str'), ('a', 'str'), ('w', 'Decimal'), ('d', 'date')]),
]


class Reg:
    """The registries by name, from gen_registry.collect()."""

    def __init__(self, d):
        self.functions = {n: l for n, l in d['functions']}
        self.operators = {n: l for n, l in d['operators']}
        self.types = d['types']
        self.structs = {t: attrs for t, _, attrs in d['structs']}
        self.aliases = dict(d['aliases'])
        self.map = dict(d['map'])
        self.tables = {n: (cols, wc) for n, cols, wc in d['tables']}

    def tyrow(self, t):
        for row in self.types:
            if row[0] == t:
                return row
        return None

    def bases(self, t):
        if t == 'NoneType':
            return ['object']
        r = self.tyrow(t)
        return list(r[1]) if r else [t]

    def hashable(self, t):
        if t == 'NoneType':
            return True
        r = self.tyrow(t)
        return bool(r and r[2])

    def isdict(self, t):
        r = self.tyrow(t)
        return bool(r and r[3])

    def attrs(self, t):
        r = self.tyrow(t)
        if not (r and r[4]):
            return None
        return self.structs.get(self.aliases.get(t, t), [])

    @staticmethod
    def tmatch(decl, actual):
        return decl == actual or (decl == 'any' and actual != '*')

    def flookup(self, table, name, argtypes):
        ovs = table.get(name, [])
        for sig in itertools.product(*[self.bases(t) for t in argtypes]):
            for ov in ovs:
                ins = ov[1]
                if len(ins) == len(sig) and all(self.tmatch(i, s) for i, s in zip(ins, sig)):
                    return ov
        return None

    def exact(self, name, argtypes):
        for ov in self.operators.get(name, []):
            ins = ov[1]
            if len(ins) == len(argtypes) and all(self.tmatch(i, s) for i, s in zip(ins, argtypes)):
                return ov
        return None

    def binop(self, name, tl, tr):
        """Result type of a binary operator incl. the implicit cast of an `object` operand, or None."""
        ov = self.exact(name, [tl, tr])
        if ov:
            return ov[2]
        if tl == 'object' and tr != 'object':
            tgt = 'Decimal' if tr == 'int' else tr
            if tgt not in self.map:
                return None
            ov = self.exact(name, [tgt, tr])
            return ov[2] if ov else None
        if tr == 'object' and tl != 'object':
            tgt = 'Decimal' if tl == 'int' else tl
            if tgt not in self.map:
                return None
            ov = self.exact(name, [tl, tgt])
            return ov[2] if ov else None
        return None


BINSYM = {'Add': '+', 'Sub': '-', 'Mul': '*', 'Div': '/', 'Mod': '%', 'Equal': '=', 'NotEqual': '!=', 'Greater': '>',
          'GreaterEq': '>=', 'Less': '<', 'LessEq': '<=', 'Match': '~', 'NotMatch': '!~', 'In': 'IN', 'NotIn': 'NOT IN'}
META_FUNCS = ('meta', 'entry_meta', 'any_meta')
# not total on constant arguments (evaluated at compile time by constant folding; C18's subject), or special
PARTIAL_FUNCS = ('getitem', 'maxwidth', 'splitcomp', 'date_bin', 'interval', 'round', 'parse_date', 'date_trunc', 'date_part')


def agg_dtype_of_operand(name, ov):
    """EvalAggregator.__init__: `dtype or operands[0].dtype` -- first/last/min/max take the dtype of their operand."""
    return ov[4] and name in ('first', 'last', 'min', 'max')


def agg_out(name, ov, argty):
    return argty if agg_dtype_of_operand(name, ov) else ov[2]


class X:
    """A generated expression: text, type name, contains an aggregate, contains a bare column outside aggregates."""
    __slots__ = ('text', 'ty', 'agg', 'col', 'tags')

    def __init__(self, text, ty, agg=False, col=False, tags=()):
        self.text, self.ty, self.agg, self.col, self.tags = text, ty, agg, col, tuple(tags)


class Tbl:
    def __init__(self, name, cols, wildcard, frm, bean=False):
        self.name, self.cols, self.wildcard, self.frm, self.bean = name, cols, wildcard, frm, bean


class Gen:
    def __init__(self, rng, reg):
        self.rng = rng
        self.reg = reg
        self.params = None      # None | ('pos', [values]) | ('named', {name: value})
        self.use_params = None

    # ---------------------------------------------------------------- tables
    def tables(self):
        out = []
        for n, cols in USER_TABLES:
            out.append(Tbl(n, cols, [c for c, _ in cols], f'#{n}'))
        for n, (cols, wc) in self.reg.tables.items():
            if n:
                out.append(Tbl(n, cols, list(wc), f'#{n}', bean=n in ('entries', 'postings')))
        return out

    def pick_table(self):
        if getattr(self, 'fixed_tables', None):
            return self.rng.choice(self.fixed_tables)
        r = self.rng.random()
        tabs = self.tables()
        if r < 0.5:
            return tabs[0] if self.rng.random() < 0.7 else tabs[1]
        if r < 0.65:
            t = next(t for t in tabs if t.name == 'postings')
            frm = self.rng.choice(['', '', 'year = 2020', 'OPEN ON 2020-01-01', 'CLOSE', 'CLEAR',
                                   'OPEN ON 2020-01-01 CLOSE ON 2020-06-01 CLEAR', "account ~ 'Cash' CLOSE ON 2021-01-01",
                                   'has_account("Assets:Cash") OPEN ON 2019-01-01 CLOSE'])
            return Tbl('postings', t.cols, t.wildcard, frm, bean=True)
        return self.rng.choice(tabs[2:])

    # ---------------------------------------------------------------- expressions
    def tags(self, *xs):
        out = []
        for x in xs:
            out.extend(x if isinstance(x, (list, tuple)) else [x])
        return out

    def literal(self, ty):
        if self.use_params and ty in PARAM_VALUES and self.rng.random() < 0.3:
            return self.placeholder(ty)
        return X(self.rng.choice(LIT[ty]), ty, tags=['lit:' + ty])

    def placeholder(self, ty):
        # always a named marker; statement() turns the ones that survive into %s / %(name)s
        name = f'p{len(self.params)}'
        self.params.append((name, ty, PARAM_VALUES[ty]))
        return X(f'%({name})s', ty, tags=['placeholder:' + self.use_params])

    def row_types(self, tbl):
        """Types for which a non-aggregate expression can be produced over tbl."""
        if getattr(self, 'scalar_only', False):
            return sorted({t for _, t in tbl.cols} | (set(LIT) - {'list'}))
        ts = {t for _, t in tbl.cols} | set(LIT) | {'dateutil.relativedelta.relativedelta'}
        return sorted(ts)

    def expr(self, tbl, ty, depth, mode='row'):
        """Expression of dtype exactly `ty`. mode 'row': no aggregate. mode 'agg': an aggregate expression
        without bare columns outside aggregates. Returns None when impossible."""
        for _ in range(8):
            x = self._expr(tbl, ty, depth, mode)
            if x is not None:
                return x
        return None

    def anyexpr(self, tbl, depth, mode='row'):
        for _ in range(20):
            ty = self.rng.choice(self.row_types(tbl) if mode == 'row' else
                                 sorted(set(LIT) - ({'list'} if getattr(self, 'scalar_only', False) else set())) if mode == 'const' else
                                 ['int', 'Decimal', 'object', 'bool', 'beancount.core.inventory.Inventory', 'str'])
            x = self.expr(tbl, ty, depth, mode)
            if x is not None:
                return x
        return X('1', 'int') if mode != 'agg' else X('count(*)', 'int', agg=True)

    def _leaf(self, tbl, ty, mode):
        opts = []
        if mode == 'row':
            opts += [X(c, t, col=True, tags=['col:' + t.rsplit('.', 1)[-1]]) for c, t in tbl.cols if t == ty]
        if ty in LIT:
            opts.append(None)
        if not opts:
            return None
        c = self.rng.choice(opts)
        return self.literal(ty) if c is None else c

    def _expr(self, tbl, ty, depth, mode):
        rng, reg = self.rng, self.reg
        if ty == 'dateutil.relativedelta.relativedelta' and rng.random() < 0.7:
            return X(rng.choice(["interval('1 day')", "interval('2 months')"]), ty, tags=['fn:interval'])
        if mode == 'const':
            return self._leaf(tbl, ty, mode)      # no constant-only calls: they are evaluated (folded) at compile time
        if mode == 'row' and (depth <= 0 or rng.random() < 0.3):
            leaf = self._leaf(tbl, ty, mode)
            if leaf is not None or depth <= 0:
                return leaf
        if mode == 'agg' and depth <= 0:
            return self._aggcall(tbl, ty, 1)
        prods = []
        if mode == 'agg':
            prods += ['aggcall'] * 4
        prods += ['func'] * 3 + ['binop'] * 3
        if ty in ('int', 'Decimal'):
            prods.append('neg')
        if ty == 'bool':
            prods += ['not', 'isnull', 'and', 'or', 'between', 'in', 'insub']
        if ty == 'object' and mode == 'row':
            prods += ['subscript', 'metafn']
        if mode == 'row':
            prods += ['attr']
        prods.append('coalesce')
        p = rng.choice(prods)
        d = depth - 1
        if p == 'aggcall':
            return self._aggcall(tbl, ty, d)
        if p == 'func':
            cands = [(n, ov) for n, l in reg.functions.items() for ov in l
                     if ov[2] == ty and not ov[4] and n not in META_FUNCS and n not in PARTIAL_FUNCS]
            if not cands:
                return None
            n, ov = rng.choice(cands)
            args = self._args(tbl, ov[1], d, mode)
            if args is None:
                return None
            got = reg.flookup(reg.functions, n, [a.ty for a in args])
            if got is None or got[2] != ty:
                return None
            if mode == 'agg' and not any(a.agg for a in args):
                return None
            return X(f'{n}({", ".join(a.text for a in args)})', ty, agg=any(a.agg for a in args),
                     col=any(a.col for a in args), tags=self.tags('fn:' + n, *[a.tags for a in args]))
        if p == 'binop':
            cands = [(n, ov) for n, l in reg.operators.items() for ov in l
                     if ov[2] == ty and len(ov[1]) == 2 and n not in ('In', 'NotIn')]
            if not cands:
                return None
            n, ov = rng.choice(cands)
            tl, tr = ov[1]
            # implicit cast: an object operand is cast to the other side's type
            if mode == 'row' and rng.random() < 0.15 and any(t == 'object' for _, t in tbl.cols):
                other = tr if rng.random() < 0.5 else tl
                if reg.binop(n, 'object', tr) == ty and other == tr:
                    tl = 'object'
                elif reg.binop(n, tl, 'object') == ty:
                    tr = 'object'
            a = self.expr(tbl, tl, d, self._submode(mode, 0))
            b = self.expr(tbl, tr, d, self._submode(mode, 1))
            if a is None or b is None or reg.binop(n, a.ty, b.ty) != ty:
                return None
            if mode == 'agg' and not (a.agg or b.agg):
                return None
            return X(f'({a.text} {BINSYM[n]} {b.text})', ty, agg=a.agg or b.agg, col=a.col or b.col,
                     tags=self.tags(f'op:{n}[{a.ty.rsplit(".", 1)[-1]},{b.ty.rsplit(".", 1)[-1]}]', a.tags, b.tags))
        if p == 'neg':
            a = self.expr(tbl, ty, d, mode)
            return a and X(f'(-{a.text})', ty, agg=a.agg, col=a.col, tags=self.tags('op:Neg', a.tags))
        if p in ('not', 'isnull'):
            a = self.anyexpr(tbl, d, mode)
            txt = {'not': f'(NOT {a.text})', 'isnull': f'({a.text} IS {rng.choice(["", "NOT "])}NULL)'}[p]
            return X(txt, 'bool', agg=a.agg, col=a.col, tags=self.tags('op:' + p, a.tags))
        if p in ('and', 'or'):
            n = rng.randint(2, 3)
            xs = [self.anyexpr(tbl, d, self._submode(mode, i)) for i in range(n)]
            if mode == 'agg' and not any(a.agg for a in xs):
                return None
            return X('(' + f' {p.upper()} '.join(a.text for a in xs) + ')', 'bool', agg=any(a.agg for a in xs),
                     col=any(a.col for a in xs), tags=self.tags('op:' + p, *[a.tags for a in xs]))
        if p == 'between':
            ov = rng.choice(reg.operators['Between'])
            xs = [self.expr(tbl, t, d, self._submode(mode, i)) for i, t in enumerate(ov[1])]
            if any(a is None for a in xs) or (mode == 'agg' and not any(a.agg for a in xs)):
                return None
            return X(f'({xs[0].text} BETWEEN {xs[1].text} AND {xs[2].text})', 'bool', agg=any(a.agg for a in xs),
                     col=any(a.col for a in xs), tags=self.tags('op:Between', *[a.tags for a in xs]))
        if p == 'in':
            a = self.anyexpr(tbl, d, mode)
            setcols = [c for c, t in tbl.cols if t in ('set', 'dict', 'frozenset', 'list')] if mode == 'row' else []
            if setcols and rng.random() < 0.4:
                r = X(rng.choice(setcols), 'set', col=True)
            else:
                r = X(rng.choice(LIT['list']), 'list')
            return X(f'({a.text} {rng.choice(["IN", "NOT IN"])} {r.text})', 'bool', agg=a.agg, col=a.col or r.col,
                     tags=self.tags('op:In', a.tags))
        if p == 'insub':
            a = self.anyexpr(tbl, d, mode)
            sub = rng.choice(self.in_subqueries) if getattr(self, 'in_subqueries', None) else rng.choice(['SELECT k FROM #u', 'SELECT z FROM #u WHERE k > 1', 'SELECT account FROM #postings',
                              'SELECT a FROM #u', 'SELECT DISTINCT k + 1 FROM #u', 'SELECT max(k) FROM #u',
                              'SELECT k FROM #u GROUP BY k, z ORDER BY z'])
            return X(f'({a.text} {rng.choice(["IN", "NOT IN"])} ({sub}))', 'bool', agg=a.agg, col=a.col,
                     tags=self.tags('op:In-subquery', a.tags))
        if p == 'subscript':
            cands = [(c, t) for c, t in tbl.cols if reg.isdict(t)]
            if not cands:
                return None
            c, t = rng.choice(cands)
            return X(f'{c}["kk"]', 'object', col=True, tags=['subscript:' + t.rsplit('.', 1)[-1]])
        if p == 'metafn':
            names = dict(tbl.cols)
            f = rng.choice(META_FUNCS)
            if f == 'meta' and reg.isdict(names.get('meta', '')):
                pass
            elif tbl.name == 'postings':
                pass
            else:
                return None
            return X(f'{f}("kk")', 'object', col=True, tags=['fn:' + f])
        if p == 'attr':
            cands = []
            for c, t in tbl.cols:
                for an, at in (reg.attrs(t) or []):
                    if at == ty:
                        cands.append(X(f'{c}.{an}', ty, col=True, tags=['attr:' + an]))
                    for an2, at2 in (reg.attrs(at) or []):
                        if at2 == ty:
                            cands.append(X(f'{c}.{an}.{an2}', ty, col=True, tags=['attr:' + an + '.' + an2]))
            return rng.choice(cands) if cands else None
        if p == 'coalesce':
            n = rng.randint(1, 3)
            xs = [self.expr(tbl, ty, d, self._submode(mode, i)) for i in range(n)]
            if any(a is None for a in xs) or (mode == 'agg' and not any(a.agg for a in xs)):
                return None
            return X(f'coalesce({", ".join(a.text for a in xs)})', ty, agg=any(a.agg for a in xs),
                     col=any(a.col for a in xs), tags=self.tags('fn:coalesce', *[a.tags for a in xs]))
        return None

    def _submode(self, mode, i):
        """In an aggregate expression every operand is an aggregate expression or a column-free one."""
        if mode in ('row', 'const'):
            return mode
        return 'agg' if (i == 0 or self.rng.random() < 0.4) else 'const'

    def _args(self, tbl, intypes, d, mode):
        out = []
        for i, t in enumerate(intypes):
            m = self._submode(mode, i)
            if t == '*':
                return None
            if t == 'any':
                a = self.anyexpr(tbl, d, 'row' if m == 'const' else m)
                if m == 'const' and a.col:
                    a = self.literal(self.rng.choice(['int', 'str', 'date']))
            elif m == 'const':
                a = self.literal(t) if t in LIT else None
            else:
                a = self.expr(tbl, t, d, m)
            if a is None:
                return None
            out.append(a)
        return out

    def _aggcall(self, tbl, ty, d):
        reg, rng = self.reg, self.rng
        cands = []
        for n, l in reg.functions.items():
            for ov in l:
                if not ov[4]:
                    continue
                if agg_dtype_of_operand(n, ov):
                    if ov[1][0] in ('any', ty):
                        cands.append((n, ov, ty))          # dtype of the aggregate = dtype of its operand
                elif ov[2] == ty:
                    cands.append((n, ov, ov[1][0]))
        if not cands:
            return None
        n, ov, t = rng.choice(cands)
        if t == '*':
            return X('count(*)', 'int', agg=True, tags=['agg:count(*)'])
        a = self.anyexpr(tbl, d, 'row') if t == 'any' else self.expr(tbl, t, d, 'row')
        if a is None:
            return None
        got = reg.flookup(reg.functions, n, [a.ty])
        if got is None or agg_out(n, got, a.ty) != ty:
            return None
        return X(f'{n}({a.text})', ty, agg=True, tags=self.tags('agg:' + n, a.tags))

    # ---------------------------------------------------------------- statements
    def select(self, depth=2, tbl=None, nested=False):
        """A valid SELECT as a dict of parts."""
        rng = self.rng
        tbl = tbl or self.pick_table()
        st = {'tbl': tbl, 'from': tbl.frm, 'distinct': rng.random() < 0.15, 'targets': [], 'star': False, 'where': None,
              'group': None, 'having': None, 'order': [], 'pivot': None, 'limit': None, 'shape': None}
        if rng.random() < getattr(self, 'where_p', 0.55):
            st['where'] = self.anyexpr(tbl, depth, 'row') if rng.random() < 0.3 else self.expr(tbl, 'bool', depth, 'row')
        shape = rng.choice(['plain', 'plain', 'star', 'group', 'group', 'group', 'implicit', 'allagg', 'fromsub'])
        if nested and shape == 'fromsub':
            shape = 'plain'
        st['shape'] = shape
        # aliases are unique over the whole statement: a subquery column must not collide with an alias of the outer query
        # (GROUP BY / ORDER BY names resolve to target names first)
        self.alias_base = getattr(self, 'alias_base', 0) + 100
        alias = iter(f'c{self.alias_base + i}' for i in range(100))
        if shape == 'star':
            st['star'] = True
            self._order(st, tbl, depth, [(X(c, dict(tbl.cols)[c], col=True), None) for c in tbl.wildcard], False)
        elif shape == 'plain':
            for _ in range(rng.randint(1, 3)):
                st['targets'].append((self.anyexpr(tbl, depth, 'row'), next(alias) if rng.random() < 0.4 else None))
            self._order(st, tbl, depth, st['targets'], False)
        elif shape == 'fromsub':
            inner = self.select(depth, nested=True)
            inner['limit'] = inner['pivot'] = None
            cols, seen = [], set()
            for i, (x, a) in enumerate(inner['targets']):
                a = a or f's{i}'
                inner['targets'][i] = (x, a)
                cols.append((a, x.ty))
            if inner['star']:
                cols = [(c, dict(inner['tbl'].cols)[c]) for c in inner['tbl'].wildcard]
            sub = Tbl('(sub)', cols, [c for c, _ in cols], '(' + render(inner) + ')')
            st2 = self.select(depth, tbl=sub, nested=True)
            st2['shape'] = 'fromsub:' + st2['shape']
            return st2
        else:
            keys = []
            if shape in ('group', 'implicit'):
                for _ in range(rng.randint(1, 3)):
                    for _ in range(10):
                        k = self.anyexpr(tbl, depth - 1, 'row')
                        # keys must be pairwise different NODES: distinct texts, at most one column-free key (1 == TRUE == 1.0)
                        if (self.reg.hashable(k.ty) and k.ty != '*' and k.text not in [x.text for x in keys]
                                and (k.col or all(x.col for x in keys))):
                            keys.append(k)
                            break
            shown = [k for k in keys if shape == 'implicit' or rng.random() < 0.7]
            targets = [(k, next(alias) if rng.random() < 0.4 else None, 'key') for k in shown]
            for _ in range(rng.randint(0 if (shown and shape == 'group') else 1, 3)):
                targets.append((self.anyexpr(tbl, depth, 'agg'), next(alias) if rng.random() < 0.4 else None, 'agg'))
            rng.shuffle(targets)
            st['targets'] = [(x, a) for x, a, _ in targets]
            if shape == 'group':
                g = []
                for k in keys:
                    pos = [i for i, (x, a, kind) in enumerate(targets) if x is k]
                    r = rng.random()
                    if pos and r < 0.35:
                        g.append(str(pos[0] + 1))
                    elif pos and r < 0.6 and self._refname(targets, pos[0]):
                        g.append(self._refname(targets, pos[0]))
                    else:
                        g.append(keytext(k.text))
                st['group'] = g
                if rng.random() < 0.35:
                    st['having'] = self.expr(tbl, 'bool', depth, 'agg') or X('count(*) > 0', 'bool', agg=True)
            self._order(st, tbl, depth, st['targets'], True, keys)
            if shape == 'group' and len(targets) >= 3 and rng.random() < 0.3:
                keypos = [i for i, (x, a, kind) in enumerate(targets) if kind == 'key']
                if keypos:
                    second = rng.choice(keypos)
                    first = rng.choice([i for i in range(len(targets)) if i != second])
                    ref = lambda i: (self._refname(targets, i) if rng.random() < 0.5 else None) or str(i + 1)
                    st['pivot'] = (ref(first), ref(second))
        if rng.random() < 0.25:
            st['limit'] = rng.choice([0, 1, 2, 10, 9223372036854775807])
        return st

    def _dtype_eq_cols(self, tbl):
        """Tables whose columns are all instances of one accessor class (== compares the dtype only)."""
        return tbl.name not in ('t', 'u', 'postings', 'entries', '(sub)')

    def _refname(self, targets, i):
        """A name under which target i can be referenced (alias or bare column name), if it is unambiguous."""
        x, a = targets[i][0], targets[i][1]
        name = a or (x.text if x.text.isidentifier() else None)
        if name is None:
            return None
        names = [(t[1] or t[0].text) for t in targets]
        if names.count(name) != 1 or name.upper() in KEYWORDS:
            return None
        return name

    def _order(self, st, tbl, depth, targets, aggregate, keys=()):
        rng = self.rng
        if rng.random() < 0.5:
            return
        for _ in range(rng.randint(1, 3)):
            r = rng.random()
            d = rng.choice(['', ' ASC', ' DESC'])
            if r < 0.35 and targets:
                st['order'].append(str(rng.randint(1, len(targets))) + d)
            elif r < 0.6 and targets:
                i = rng.randrange(len(targets))
                n = self._refname([(x, a) for x, a, *_ in targets], i)
                st['order'].append((n or str(i + 1)) + d)
            elif not aggregate:
                st['order'].append(keytext(self.anyexpr(tbl, depth, 'row').text) + d)
            elif keys and r < 0.8:
                st['order'].append(keytext(rng.choice(list(keys)).text) + d)
            else:
                st['order'].append(keytext(self.anyexpr(tbl, depth, 'agg').text) + d)

    def statement(self, depth=2):
        """(text, params) of a valid statement."""
        rng = self.rng
        r = rng.random()
        self.use_params = rng.choice([None, None, None, 'pos', 'named'])
        self.params = []
        posting = next(t for t in self.tables() if t.name == 'postings')
        entries = next(t for t in self.tables() if t.name == 'entries')
        if r < 0.04:
            frm = rng.choice(['', ' FROM year = 2020', ' FROM OPEN ON 2020-01-01 CLOSE ON 2020-12-31', ' FROM CLEAR'])
            w = self.expr(posting, 'bool', 1, 'row') if rng.random() < 0.5 else None
            text = 'BALANCES' + rng.choice(['', ' AT cost', ' AT units']) + frm + (f' WHERE {w.text}' if w else '')
            shape = 'balances'
        elif r < 0.08:
            text = ('JOURNAL' + rng.choice(['', " 'Cash'", ' "Assets:"']) + rng.choice(['', ' AT cost', ' AT units'])
                    + rng.choice(['', ' FROM year = 2020', ' FROM CLOSE ON 2020-12-31']))
            shape = 'journal'
        elif r < 0.11:
            w = self.expr(entries, 'bool', 1, 'row') if rng.random() < 0.6 else None
            text = 'PRINT' + (f' FROM {w.text}' if w else rng.choice(['', ' FROM OPEN ON 2020-01-01', ' FROM CLOSE CLEAR']))
            shape = 'print'
        else:
            st = self.select(depth)
            text = render(st)
            shape = st['shape']
        return self.finish_params(text) + (shape,)

    def finish_params(self, text):
        import re
        byname = {n: (t, v) for n, t, v in self.params}
        used = re.findall(r'%\((p\d+)\)s', text)
        if not used:
            return text, None
        if self.use_params == 'pos':
            return re.sub(r'%\((p\d+)\)s', '%s', text), ['pos', [list(byname[n]) for n in used]]
        return text, ['named', [[n, *byname[n]] for n in dict.fromkeys(used)]]


KEYWORDS = {'AND', 'AS', 'ASC', 'BY', 'DESC', 'DISTINCT', 'FALSE', 'FROM', 'GROUP', 'HAVING', 'IN', 'IS', 'LIMIT', 'NOT',
            'OR', 'ORDER', 'PIVOT', 'SELECT', 'TRUE', 'WHERE', 'BALANCES', 'JOURNAL', 'PRINT', 'NULL'}


def keytext(t):
    """GROUP BY / ORDER BY keys: the grammar tries `integer` first, so a key starting with a digit must be parenthesised."""
    return f'({t})' if t[:1].isdigit() or t[:1] == '.' else t


def render(st):
    s = 'SELECT ' + ('DISTINCT ' if st['distinct'] else '')
    s += '*' if st['star'] else ', '.join(x.text + (f' AS {a}' if a else '') for x, a in st['targets'])
    if st['from']:
        s += ' FROM ' + st['from']
    if st['where'] is not None:
        s += ' WHERE ' + st['where'].text
    if st['group']:
        s += ' GROUP BY ' + ', '.join(st['group'])
        if st['having'] is not None:
            s += ' HAVING ' + st['having'].text
    if st['order']:
        s += ' ORDER BY ' + ', '.join(st['order'])
    if st['pivot']:
        s += f' PIVOT BY {st["pivot"][0]}, {st["pivot"][1]}'
    if st['limit'] is not None:
        s += f' LIMIT {st["limit"]}'
    return s
