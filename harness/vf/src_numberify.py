"""Group `numberify` of the translator-based tie (see PYMINI.md): beanquery/numberify.py (C17).

Translated on every run from the source of the IMPORTED module into coq/Gen/SrcNumberify.v:

* `numberify_results` (the driver: converter list, output description, every row through every converter),
* `__init__` and `__call__` of IdentityConverter / AmountConverter / PositionConverter / InventoryConverter,
* the census functions `convert_col_Amount / _Position / _Inventory`, and the `key=lambda ...` of their `sorted(...)`
  as separate synthetic functions (`<function>_lambda<n>`, table `lambdas`: opaque-callable number -> function),
* as DATA: the module-level dict CONVERTING_TYPES (`converting_types`: encoded datatype -> opaque-callable number of
  the census function) and the class attribute `dtype` of the converter classes (`converter_dtypes`).

Rules added to py2mini's fragment by NumTranslator (each is an exact rewriting into the existing PyMini constructors,
nothing in Model/PyMini.v changes; what the new primitives do is Model/PrimsNumberify.v):

  R1  test positions (`if`, operands of and/or/not inside it): an operand that is not a comparison / not / constant is
      wrapped in the primitive "truth" (operator.truth): objects (Amount: number != 0) have their own truth value.
  R2  `if c: ...; continue` directly in a loop body = `if c: ... else: <rest of the loop body>`.
  R3  `collections.defaultdict(int)` -> primitive "collections.defaultdict(int)" (an empty insertion-ordered association list).
  R4  `m[k] += v` on a local m assigned exactly once, from `collections.defaultdict(int)`, k side-effect free:
      m = setitem(m, k, getitem_default0(m, k) + v)   (primitives "dd:getitem", "stmt:setitem").
  R5  `lambda x: e` without captured locals -> a synthetic function, referenced as opaque callable "lambda:<name>".
  R6  `[e for a, b in it]` = `[e[a := t[0], b := t[1]] for t in it]` (exact when the items are pairs, which the
      primitive "call:items" guarantees).
  R7  a call of a LOCAL name `f(args)` (a converter object, a census function taken from CONVERTING_TYPES) ->
      primitive "apply" [f; args]: calling an object is interpreting the translated `__call__` of its class.
  R8  `G.get(x)` for a module-level dict G -> primitive "global:G.get" [x]; G's content is emitted as data.

Everything else fails closed with py2mini.Untranslatable (e.g. `break`)."""
import ast
import copy
import decimal
import inspect

from . import py2mini
from .py2mini import Untranslatable, gstr, glist

PRIMS = ('builtins.sorted', 'builtins.enumerate', 'builtins.tuple')

# encoded datatypes (Model/PrimsNumberify.v enc_dtype)
DT_AMOUNT, DT_POSITION, DT_INVENTORY = '(PTuple [PInt 31])', '(PTuple [PInt 32])', '(PTuple [PInt 33])'
DT_DECIMAL = '(PTuple [PInt 30; PInt 1])'


class _Subst(ast.NodeTransformer):
    def __init__(self, mapping):
        self.mapping = mapping

    def visit_Name(self, n):
        if n.id in self.mapping:
            if not isinstance(n.ctx, ast.Load):
                raise Untranslatable('comprehension pattern variable is assigned')
            var, i = self.mapping[n.id]
            return ast.copy_location(
                ast.Subscript(value=ast.Name(id=var, ctx=ast.Load()), slice=ast.Constant(value=i), ctx=ast.Load()), n)
        return n


def _pure(e):
    """side-effect free as far as the fragment is concerned: names, attribute chains, constants"""
    return all(isinstance(n, (ast.Name, ast.Attribute, ast.Constant, ast.Load)) for n in ast.walk(e))


def _desugar_continue(stmts):
    for i, s in enumerate(stmts):
        if isinstance(s, ast.If) and not s.orelse and s.body and isinstance(s.body[-1], ast.Continue):
            new = ast.If(test=s.test, body=s.body[:-1], orelse=_desugar_continue(list(stmts[i + 1:])))
            return list(stmts[:i]) + [ast.copy_location(new, s)]
    return list(stmts)


class NumTranslator(py2mini.FuncTranslator):
    def __init__(self, func, refs, prims=(), coq_name='f', sink=None):
        super().__init__(func, refs, prims=prims)
        self.coq_name = coq_name
        self.sink = sink if sink is not None else {'lambdas': [], 'globals': {}}
        self._init_dd()

    def resolve_free(self, name):
        # names used only inside a comprehension / lambda are not reported by inspect.getclosurevars
        if name not in self.free and name in self.func.__globals__:
            return self.func.__globals__[name]
        return super().resolve_free(name)

    def _init_dd(self):
        # locals assigned exactly once, from collections.defaultdict(int)
        stores = {}
        for n in ast.walk(self.fd):
            if isinstance(n, ast.Name) and isinstance(n.ctx, ast.Store):
                stores[n.id] = stores.get(n.id, 0) + 1
        self.dd_locals = set()
        for n in ast.walk(self.fd):
            if isinstance(n, ast.Assign) and len(n.targets) == 1 and isinstance(n.targets[0], ast.Name) \
                    and stores.get(n.targets[0].id) == 1 and self._is_dd_int(n.value):
                self.dd_locals.add(n.targets[0].id)

    def _is_dd_int(self, e):
        if not (isinstance(e, ast.Call) and not e.keywords and len(e.args) == 1 and isinstance(e.args[0], ast.Name)):
            return False
        d = self.dotted(e.func) if isinstance(e.func, (ast.Attribute, ast.Name)) else None
        if d is None:
            return False
        try:
            if self.ident_of(d.split('.')[0], d) != 'collections.defaultdict':
                return False
            return e.args[0].id not in self.locals and self.resolve_free(e.args[0].id) is int
        except (Untranslatable, AttributeError):
            return False

    # ------------------------------------------------------------ R1
    def test(self, e):
        if isinstance(e, ast.BoolOp):
            return (f'(XBoolOp {"true" if isinstance(e.op, ast.And) else "false"} '
                    f'{glist([self.test(x) for x in e.values])})')
        if isinstance(e, ast.UnaryOp) and isinstance(e.op, ast.Not):
            return f'(XNot {self.test(e.operand)})'
        if isinstance(e, (ast.Compare, ast.Constant)):
            return self.expr(e)
        return f'(XPrim "truth" [{self.expr(e)}])'

    # ------------------------------------------------------------ expressions
    def expr(self, e):
        if isinstance(e, ast.Lambda):                                                     # R5
            return self.lambda_(e)
        if isinstance(e, ast.IfExp):
            return f'(XIfExp {self.test(e.test)} {self.expr(e.body)} {self.expr(e.orelse)})'
        if isinstance(e, ast.Call):
            if self._is_dd_int(e):                                                        # R3
                return '(XPrim "collections.defaultdict(int)" [])'
            if isinstance(e.func, ast.Name) and e.func.id in self.locals:                 # R7
                if e.keywords or any(isinstance(a, ast.Starred) for a in e.args):
                    raise Untranslatable('keyword/star arguments in a call of a local name')
                return f'(XPrim "apply" {glist([self.expr(e.func)] + [self.expr(a) for a in e.args])})'
            if isinstance(e.func, ast.Attribute) and e.func.attr == 'get' and isinstance(e.func.value, ast.Name) \
                    and e.func.value.id not in self.locals and len(e.args) == 1 and not e.keywords:   # R8
                g = self.resolve_free(e.func.value.id)
                if type(g) is dict:
                    self.sink['globals'][e.func.value.id] = g
                    return f'(XPrim {gstr("global:" + e.func.value.id + ".get")} [{self.expr(e.args[0])}])'
        if isinstance(e, (ast.ListComp, ast.GeneratorExp)) and len(e.generators) == 1 \
                and isinstance(e.generators[0].target, ast.Tuple):                        # R6
            g = e.generators[0]
            if g.ifs or g.is_async or not all(isinstance(t, ast.Name) for t in g.target.elts):
                raise Untranslatable('comprehension with a condition / nested pattern')
            var = '$item'
            mapping = {t.id: (var, i) for i, t in enumerate(g.target.elts)}
            elt = _Subst(mapping).visit(copy.deepcopy(e.elt))
            ast.fix_missing_locations(elt)
            self.locals.add(var)
            return f'(XListComp {self.expr(elt)} {gstr(var)} {self.expr(g.iter)} None)'
        return super().expr(e)

    def lambda_(self, e):
        a = e.args
        if a.vararg or a.kwarg or a.kwonlyargs or a.posonlyargs or a.defaults:
            raise Untranslatable('lambda: only positional parameters are supported')
        params = [x.arg for x in a.args]
        for n in ast.walk(e.body):
            if isinstance(n, ast.Name) and n.id not in params and n.id in self.locals:
                raise Untranslatable(f'lambda captures the local {n.id}')
            if isinstance(n, (ast.Lambda, ast.NamedExpr)):
                raise Untranslatable('nested lambda / walrus')
        name = f'{self.coq_name}_lambda{sum(1 for x in self.sink["lambdas"] if x[0].startswith(self.coq_name + "_lambda"))}'
        sub = copy.copy(self)
        sub.params = params
        sub.locals = set(params)
        sub.defaults = []
        sub.fd = ast.FunctionDef(name=name, args=a, body=[ast.Return(value=e.body)], decorator_list=[], returns=None)
        ast.fix_missing_locations(sub.fd)
        term, _ = py2mini.FuncTranslator.translate(sub)
        k = self.refs.ref('lambda:' + name)
        self.sink['lambdas'].append((name, k, term, ast.unparse(e)))
        return f'(XConst (PRef {k}))'

    # ------------------------------------------------------------ statements
    def stmt(self, s):
        if isinstance(s, ast.If):                                                         # R1
            return f'(SIf {self.test(s.test)} {self.block(s.body)} {self.block(s.orelse)})'
        if isinstance(s, ast.For):                                                        # R2
            s2 = copy.copy(s)
            s2.body = _desugar_continue(s.body)
            return super().stmt(s2)
        if isinstance(s, ast.AugAssign) and isinstance(s.target, ast.Subscript):          # R4
            t = s.target
            if not (isinstance(t.value, ast.Name) and t.value.id in self.dd_locals and not isinstance(t.slice, ast.Slice)
                    and _pure(t.slice) and type(s.op) in py2mini.BOP):
                raise Untranslatable('augmented subscript assignment not on a local defaultdict(int)')
            m, k = f'(XName {gstr(t.value.id)})', self.expr(t.slice)
            return (f'(SAssign (TName {gstr(t.value.id)}) (XPrim "stmt:setitem" [{m}; {k}; '
                    f'(XBin {py2mini.BOP[type(s.op)]} (XPrim "dd:getitem" [{m}; {k}]) {self.expr(s.value)})]))')
        return super().stmt(s)


# ---------------------------------------------------------------------------------------------------------------- spec
CONVERTERS = ('IdentityConverter', 'AmountConverter', 'PositionConverter', 'InventoryConverter')
CENSUS = ('convert_col_Amount', 'convert_col_Position', 'convert_col_Inventory')


def spec_numberify():
    from beanquery import numberify as nb
    out = [('numberify_driver', nb.numberify_results, 'beanquery.numberify.numberify_results')]
    for cls in CONVERTERS:
        c = getattr(nb, cls)
        short = cls[:-len('Converter')].lower()
        for meth in ('__init__', '__call__'):
            fn = c.__dict__.get(meth)
            if not inspect.isfunction(fn):
                raise Untranslatable(f'{cls}.{meth} is not a plain function of the class')
            out.append((f'conv_{short}_{meth.strip("_")}', fn, f'beanquery.numberify.{cls}.{meth}'))
    for f in CENSUS:
        out.append((f'census_{f.rsplit("_", 1)[1].lower()}', getattr(nb, f), f'beanquery.numberify.{f}'))
    return out


def _dtype_term(t):
    from beancount.core import amount, position, inventory
    known = {amount.Amount: DT_AMOUNT, position.Position: DT_POSITION, inventory.Inventory: DT_INVENTORY,
             decimal.Decimal: DT_DECIMAL}
    if t not in known:
        raise Untranslatable(f'datatype {t!r} has no encoding in Model/PrimsNumberify.v')
    return known[t]


def _qualname(obj):
    return f'{obj.__module__}.{obj.__qualname__}'


class NumberifyTranslator:
    """plugs into gen_src.generate through the 'translator' option"""

    @staticmethod
    def translate_all(spec, prims=()):
        from beanquery import numberify as nb
        refs = py2mini.Refs()
        sink = {'lambdas': [], 'globals': {}}
        defs, info = [], {}
        for name, fn, origin in spec:
            tr = NumTranslator(fn, refs, prims=prims, coq_name=name, sink=sink)
            term, defaults = tr.translate()
            defs.append((name, origin, term, defaults))
            info[name] = {'origin': origin, 'lines': len(inspect.getsource(fn).splitlines())}
        for name, _k, term, src in sink['lambdas']:
            defs.append((name, f'synthetic: {src}'.replace('*)', '* )'), term, []))
        # data: the module-level dicts read through .get (R8)
        extra = []
        for gname, g in sorted(sink['globals'].items()):
            if gname != 'CONVERTING_TYPES':
                raise Untranslatable(f'module-level dict {gname} has no data encoding')
            items = []
            for k, v in g.items():
                if not inspect.isfunction(v):
                    raise Untranslatable(f'CONVERTING_TYPES[{k!r}] is not a plain function')
                items.append(f'({_dtype_term(k)}, {refs.ref(_qualname(v))}%nat)')
            extra.append('\n(* beanquery.numberify.CONVERTING_TYPES: encoded datatype -> opaque-callable number of the census '
                         'function *)\nDefinition converting_types : list (pv * nat) :=\n  ' + glist(items) + '.\n')
        # data: class attribute dtype of the converter classes (None: set per instance by __init__)
        cd = []
        for cls in CONVERTERS:
            c = getattr(nb, cls)
            cd.append(f'({gstr(cls)}, ' + ('None' if 'dtype' not in c.__dict__ else f'Some {_dtype_term(c.__dict__["dtype"])}')
                      + ')')
        extra.append('\n(* class attribute `dtype` of the converter classes *)\n'
                     'Definition converter_dtypes : list (string * option pv) :=\n  ' + glist(cd) + '.\n')
        text = py2mini.render(defs, refs)
        text += ('\n(* the synthetic functions of the lambdas, by opaque-callable number *)\n'
                 'Definition lambdas : list (nat * fdef) :=\n  ' +
                 glist([f'({k}%nat, {name})' for name, k, _t, _s in sink['lambdas']]) + '.\n')
        by_origin = {origin: name for name, _fn, origin in spec}
        text += ('\n(* translated functions that the bodies reach as opaque callables (census functions via CONVERTING_TYPES) *)\n'
                 'Definition functions : list (nat * fdef) :=\n  ' +
                 glist([f'({k}%nat, {by_origin[n]})' for k, n in enumerate(refs.names) if n in by_origin]) + '.\n')
        text += ''.join(extra)
        return text, info
