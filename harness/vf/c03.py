"""C03: ORDER BY / DISTINCT / LIMIT. Correspondence: real SELECTs on harness tables vs
Model/Order.v `post` fed with the unordered rows (computed by the harness, independently
of the implementation) and the ORDER BY keys resolved by the harness (position / output
name / hidden column / expression)."""
import datetime
import decimal
import itertools

from . import core, impl, values
from .core import cZ, clist, copt, cbool, cpair
from .shrink import ddmin_batch

D = decimal.Decimal
ASSUMPTIONS = [
    'key columns are homogeneous (typed BQL columns); Python raises TypeError on mixed-type keys, the model orders them by type rank',
    'CPython list.sort is stable and reverse=True keeps stability (modelled as reverse-sort-reverse; proved equal to a flipped stable sort)',
    'the whole statement is executed by the model (row loop / aggregate store, ORDER BY, projection, DISTINCT, LIMIT); the harness only resolves ORDER BY references (position / output name / column) to target positions',
    'translator tie (C03_source_*): the library calls made by the translated statements of query_execute.py (list.sort(key=, reverse=), itertools.groupby(key=), reversed, tuple, list, set(), itertools.islice, min, operator.itemgetter, the attributes distinct/limit/table of the query) have the semantics written in coq/Model/PrimsExec.v (sort = Base/StableSort.py_sort under Order.tuple_le on the keys; a key containing None is outside the model); generator expressions and iterators are the lists of their items; Ordering.ASC/DESC (IntEnum 0/1) are False/True',
    'translator tie: nullitemgetter itself (varargs, two nested defs) is not translated; its two inner functions are, and the outer dispatch `if items: items = (item, *items)` is PrimsExec.apply_nig (src_exec.py checks on every run that the outer function still has exactly that shape); calling it yields a closure value whose application interprets the translated inner function; the statements of execute_select before the row loops (result_types, result_indexes, ...) and the aggregate loop are not translated',
]


def gen_case(rng, exhaustive_dirs=None):
    cols, rows = values.gen_table(rng, ncols=rng.randint(1, 4), nrows=rng.randint(0, 8),
                                  null_p=rng.choice([0, 0.2, 0.4]))
    # small value domains to force ties
    names = [c for c, _ in cols]
    agg = rng.random() < 0.3
    case = {'cols': [(n, values.TYPE_NAMES[t]) for n, t in cols], 'rows': rows, 'agg': agg}
    if not agg:
        nt = rng.randint(1, min(3, len(names)))
        tcols = rng.sample(names, nt)
        targets = [(c, (f'x{i}' if rng.random() < 0.35 else None)) for i, c in enumerate(tcols)]
    else:
        gcol = rng.choice(names)
        numeric = [n for n, t in cols if t in (int,)]
        targets = [(gcol, None), ('count(*)', 'n')]
        if numeric:
            targets.append((f'sum({rng.choice(numeric)})', 's'))
        case['gcol'] = gcol
        case['hidden_key'] = rng.random() < 0.4      # grouping key not selected: visible rows of different groups may coincide
        if case['hidden_key']:
            targets = targets[1:]
    case.setdefault('hidden_key', False)
    case['targets'] = targets
    nk = rng.randint(1, 4)
    keys = []
    for _ in range(nk):
        r = rng.random()
        d = rng.choice(['', ' ASC', ' DESC'])
        if r < 0.3:
            keys.append(('pos', rng.randint(1, len(targets)), d))
        elif r < 0.6:
            i = rng.randrange(len(targets))
            keys.append(('name', i, d))
        elif agg:
            keys.append(('pos', rng.randint(1, len(targets)), d))
        elif r < 0.85:
            keys.append(('col', rng.choice(names), d))
        else:
            num = [n for n, t in cols if t in (int, D)]
            if num:
                keys.append(('neg', rng.choice(num), d))
            else:
                keys.append(('col', rng.choice(names), d))
    if rng.random() < 0.15:
        keys = []                                   # no ORDER BY at all: DISTINCT / LIMIT on the scan order
    case['keys'] = keys
    # FROM (SELECT all columns FROM #t ORDER BY ...): the outer stable sort keeps the inner order among ties
    case['inner'] = []
    if not agg and rng.random() < 0.2:
        case['inner'] = [(rng.choice(names), rng.choice(['', ' DESC'])) for _ in range(rng.randint(1, 2))]
    case['distinct'] = rng.random() < 0.4
    n = len(rows)
    case['limit'] = rng.choice([None, None, 0, 1, max(n - 1, 0), n, n + 3])
    return case


def _outer_columns(case):
    """The source columns the (outer) statement of a case refers to."""
    used = []
    if case['agg']:
        used.append(case['gcol'])
        used += [e[4:-1] for e, _ in case['targets'] if e.startswith('sum(')]
    else:
        used += [e for e, _ in case['targets']]
    used += [k[1] for k in case['keys'] if k[0] in ('col', 'neg')]
    return list(dict.fromkeys(used))


def gen_sub_case(rng):
    """FROM (SELECT [DISTINCT] some columns FROM #t [ORDER BY visible / hidden keys] [LIMIT i]) under an outer statement of
    every shape [DISTINCT] [ORDER BY] [LIMIT o] (all 8 combinations equally likely, so also the plain scan): each level
    sorts, deduplicates and cuts ITS OWN row list, the outer one starting from what the inner one returned."""
    case = gen_case(rng)
    while not case['rows'] and rng.random() < 0.8:
        case = gen_case(rng)
    case['inner'] = []
    names = [n for n, _ in case['cols']]
    n = len(case['rows'])
    # outer shape: the three clauses independently present / absent
    if rng.random() < 0.5:
        case['keys'] = []
    elif not case['keys']:
        case['keys'] = [('pos', 1, rng.choice(['', ' DESC']))]
    case['distinct'] = rng.random() < 0.5
    case['limit'] = rng.choice([0, 1, 2, max(n - 1, 0), n, n + 3]) if rng.random() < 0.5 else None
    used = _outer_columns(case)
    rest = [c for c in names if c not in used]
    icols = used + [c for c in rest if rng.random() < 0.5]
    rng.shuffle(icols)
    order = []
    if rng.random() < 0.5:
        order = [(rng.choice(names), rng.choice(['', ' DESC'])) for _ in range(rng.randint(1, 2))]
    case['sub'] = {'cols': icols, 'order': order, 'distinct': rng.random() < 0.4,
                   'limit': rng.choice([0, 1, 2, max(n - 2, 0), max(n - 1, 0), n, n + 3]) if rng.random() < 0.6 else None}
    return case


SUB_MATRIX_ROWS = [(1, 5), (2, 4), (1, 5), (None, 3), (2, 2), (1, 1), (2, 4), (3, None)]


def sub_matrix_cases():
    """Every combination of inner ORDER BY / DISTINCT / LIMIT with outer ORDER BY / DISTINCT / LIMIT on one table with
    duplicate rows, duplicate key values and NULLs (LIMITs: 0, below / equal to / above the size of the row list they cut)."""
    out = []
    for iorder in ([], [('b', ' DESC')]):
        for idist in (False, True):
            for ilim in (None, 0, 2, 4, 20):
                for okeys in ([], [('col', 'b', '')], [('pos', 1, ' DESC')]):
                    for odist in (False, True):
                        for olim in (None, 0, 1, 3, 20):
                            if ilim is None and olim is None and not (idist or odist):
                                continue
                            out.append({'cols': [('a', 'int'), ('b', 'int')], 'rows': SUB_MATRIX_ROWS, 'agg': False, 'hidden_key': False,
                                        'targets': [('a', None)] if okeys[:1] == [('col', 'b', '')] else [('a', None), ('b', 'y')],
                                        'keys': okeys, 'inner': [], 'distinct': odist, 'limit': olim,
                                        'sub': {'cols': ['a', 'b'], 'order': iorder, 'distinct': idist, 'limit': ilim}})
    return out


def statement(case):
    tl = ', '.join(e + (f' AS {a}' if a else '') for e, a in case['targets'])
    ks = []
    for k in case['keys']:
        if k[0] == 'pos':
            ks.append(f'{k[1]}{k[2]}')
        elif k[0] == 'name':
            e, a = case['targets'][k[1]]
            ks.append(f'{a or e}{k[2]}')
        elif k[0] == 'col':
            ks.append(f'{k[1]}{k[2]}')
        else:
            ks.append(f'-{k[1]}{k[2]}')
    src = '#t'
    if case.get('inner'):
        src = ('(SELECT ' + ', '.join(n for n, _ in case['cols']) + ' FROM #t ORDER BY '
               + ', '.join(c + d for c, d in case['inner']) + ')')
    if case.get('sub'):
        sub = case['sub']
        src = ('(SELECT ' + ('DISTINCT ' if sub['distinct'] else '') + ', '.join(sub['cols']) + ' FROM #t'
               + (' ORDER BY ' + ', '.join(c + d for c, d in sub['order']) if sub['order'] else '')
               + (f' LIMIT {sub["limit"]}' if sub['limit'] is not None else '') + ')')
    s = 'SELECT ' + ('DISTINCT ' if case['distinct'] else '') + tl + ' FROM ' + src
    if case['agg']:
        s += f' GROUP BY {case["gcol"]}'
    if ks:
        s += ' ORDER BY ' + ', '.join(ks)
    if case['limit'] is not None:
        s += f' LIMIT {case["limit"]}'
    return s


PYT = {'int': int, 'decimal': D, 'str': str, 'date': datetime.date, 'bool': bool}


def run_impl(case):
    cols = [(n, PYT[t]) for n, t in case['cols']]
    conn = impl.connection({'t': impl.make_table('t', cols, case['rows'])})
    try:
        curs = conn.execute(statement(case))
        return [0, values.canon_rows(curs.fetchall())]
    except Exception as e:  # noqa: BLE001
        return ['exception', impl.exc_class(e), str(e)[:200]]


def unordered(case):
    """Rows before ORDER BY (visible targets first, then extra key columns), the
    order spec as indexes into them and the visible indexes -- computed without the implementation."""
    names = [n for n, _ in case['cols']]
    idx = {n: i for i, n in enumerate(names)}
    if not case['agg']:
        base = [[r[idx[e]] for e, _ in case['targets']] for r in case['rows']]
    else:
        g = idx[case['gcol']]
        groups = {}
        for r in case['rows']:
            groups.setdefault(r[g], []).append(r)
        base = []
        for k, rs in groups.items():
            out = [k, len(rs)]
            for e, a in case['targets'][2:]:
                c = idx[e[4:-1]]
                out.append(sum((r[c] for r in rs if r[c] is not None), 0))
            base.append(out)
    nvis = len(case['targets'])
    extra = []   # list of (kind, col)
    spec = []
    for k in case['keys']:
        desc = k[2] == ' DESC'
        if k[0] == 'pos':
            spec.append((k[1] - 1, desc))
        elif k[0] == 'name':
            spec.append((k[1], desc))
        else:
            kind = (k[0], k[1])
            # a bare column equal to a selected target resolves to that target (same values either way)
            if kind not in extra:
                extra.append(kind)
            spec.append((nvis + extra.index(kind), desc))
    rows = []
    for b, r in zip(base, case['rows'] if not case['agg'] else base):
        ext = []
        for kind, c in extra:
            v = r[idx[c]]
            ext.append(v if kind == 'col' or v is None else -v)
        rows.append(list(b) + ext)
    return rows, spec, list(range(nvis))


def model_expr(case):
    """The whole statement is executed by the model (Model/Exec.v: row loop or aggregate store, then ORDER BY /
    projection / DISTINCT / LIMIT); only the resolution of ORDER BY references to target positions is the harness's."""
    names = [n for n, _ in case['cols']]
    if case.get('sub'):
        names = list(case['sub']['cols'])         # the outer statement sees the subquery's output columns
    idx = {n: i for i, n in enumerate(names)}
    targets, aggs, group = [], [], None
    if not case['agg']:
        targets = [f'(ECol {idx[e]}%nat)' for e, _ in case['targets']]
    else:
        g = idx[case['gcol']]
        hidden = case.get('hidden_key', False)
        targets = ([] if hidden else [f'(ECol {g}%nat)']) + ['(EAgg 0%nat)']
        aggs = ['{| afun := ACountStar; aarg := EConst VNull |}']
        for e, a in case['targets'][(1 if hidden else 2):]:
            c = idx[e[4:-1]]
            targets.append(f'(EAgg {len(aggs)}%nat)')
            aggs.append('{| afun := ASum (VInt 0); aarg := ECol %d%%nat |}' % c)
        group = [0]
    nvis = len(targets)
    if case['agg'] and case.get('hidden_key', False):
        group = [len(targets)]
        targets.append(f'(ECol {idx[case["gcol"]]}%nat)')
    extra = {}
    spec = []
    for k in case['keys']:
        desc = k[2] == ' DESC'
        if k[0] == 'pos':
            spec.append((k[1] - 1, desc))
        elif k[0] == 'name':
            spec.append((k[1], desc))
        else:
            kind = (k[0], k[1])
            if kind not in extra:
                extra[kind] = len(targets)
                col = f'(ECol {idx[k[1]]}%nat)'
                targets.append(col if k[0] == 'col' else f'(EUnary UNeg {col})')
            spec.append((extra[kind], desc))
    q = ('{| q_where := None; q_targets := ' + clist(targets)
         + '; q_group := ' + ('None' if group is None else 'Some ' + clist([f'{i}%nat' for i in group]))
         + '; q_aggs := ' + clist(aggs) + '; q_having := None'
         + '; q_order := ' + ('Some ' + clist([cpair(f'{i}%nat', cbool(d)) for i, d in spec]) if case['keys'] else 'None')
         + '; q_vis := ' + clist([f'{i}%nat' for i in range(nvis)])
         + '; q_distinct := ' + cbool(case['distinct']) + '; q_limit := ' + copt(case['limit'], cZ) + ' |}')
    table = values.rows_to_coq(case['rows'])
    if case.get('inner'):
        # the subquery materialised by the model: every column, ordered by the inner keys
        nc = len(names)
        iq = ('{| q_where := None; q_targets := ' + clist([f'(ECol {i}%nat)' for i in range(nc)])
              + '; q_group := None; q_aggs := []; q_having := None; q_order := Some '
              + clist([cpair(f'{idx[c]}%nat', cbool(d == ' DESC')) for c, d in case['inner']])
              + '; q_vis := ' + clist([f'{i}%nat' for i in range(nc)]) + '; q_distinct := false; q_limit := None |}')
        table = f'(exec {iq} {table})'
    if case.get('sub'):
        # the subquery executed by the model on the source table: selected columns, hidden ORDER BY keys behind them
        sub = case['sub']
        tidx = {n: i for i, (n, _) in enumerate(case['cols'])}
        itargets = [f'(ECol {tidx[c]}%nat)' for c in sub['cols']]
        ispec = []
        for c, d in sub['order']:
            if c in sub['cols']:
                ispec.append((sub['cols'].index(c), d == ' DESC'))
            else:
                col = f'(ECol {tidx[c]}%nat)'
                if col not in itargets:
                    itargets.append(col)
                ispec.append((itargets.index(col), d == ' DESC'))
        iq = ('{| q_where := None; q_targets := ' + clist(itargets)
              + '; q_group := None; q_aggs := []; q_having := None; q_order := '
              + ('Some ' + clist([cpair(f'{i}%nat', cbool(d)) for i, d in ispec]) if ispec else 'None')
              + '; q_vis := ' + clist([f'{i}%nat' for i in range(len(sub['cols']))])
              + '; q_distinct := ' + cbool(sub['distinct']) + '; q_limit := ' + copt(sub['limit'], cZ) + ' |}')
        table = f'(exec {iq} {table})'
    return f"exec_out {q} {table}"


def model_many(cases, tag='c03'):
    return core.coq_eval(tag, ['Base.PyValue', 'Base.Decimal', 'Model.Eval', 'Model.Order', 'Model.Exec'], [model_expr(c) for c in cases])


def eq_rows(i, m):
    """Compare implementation rows and model rows cell by cell (exact representation)."""
    return i == m


def shrink(case):
    def with_rows(rows):
        c = dict(case)
        c['rows'] = rows
        if c['limit'] is not None and c['limit'] > 1:
            pass
        return c

    def fails_many(cands):
        cs = [with_rows(r) for r in cands]
        ms = model_many(cs, tag='c03s')
        return [run_impl(c) != m for c, m in zip(cs, ms)]
    if len(case['rows']) >= 2:
        rows = ddmin_batch(case['rows'], fails_many)
        case = with_rows(rows)

    def with_keys(keys):
        c = dict(case)
        c['keys'] = keys
        return c
    if not case['keys']:
        return case

    def fails_keys(cands):
        cs = [with_keys(k) for k in cands]
        ms = model_many(cs, tag='c03s')
        return [run_impl(c) != m for c, m in zip(cs, ms)]
    if len(case['keys']) >= 2:
        case = with_keys(ddmin_batch(case['keys'], fails_keys))
    return case


def exhaustive_cases():
    """All direction patterns for 1..3 keys x all assignments of a 3-valued domain (incl. NULL)
    to 2 key columns over 3 rows (third column = row identity, to observe stability)."""
    dom = [None, 1, 2]
    out = []
    for nk in (1, 2, 3):
        for dirs in itertools.product(['', ' DESC'], repeat=nk):
            for vals in itertools.product(dom, repeat=4):
                rows = [(vals[0], vals[1], 0), (vals[2], vals[3], 1), (vals[0], vals[3], 2), (vals[2], vals[1], 3)]
                keycols = ['a', 'b', 'a'][:nk]
                out.append({'cols': [('a', 'int'), ('b', 'int'), ('c', 'int')], 'rows': rows, 'agg': False,
                            'targets': [('c', None)], 'keys': [('col', kc, d) for kc, d in zip(keycols, dirs)],
                            'distinct': False, 'limit': None})
    return out


CORPUS = [
    {'cols': [('a', 'int'), ('b', 'int')], 'rows': [(1, 1), (1, 2), (2, 3), (3, 4)], 'agg': False,
     'targets': [('a', None)], 'keys': [], 'distinct': True, 'limit': 2},
    {'cols': [('a', 'int'), ('b', 'int')], 'rows': [(1, 1), (1, 5), (2, 3), (1, 4)], 'agg': False, 'inner': [('b', ' DESC')],
     'targets': [('a', None), ('b', None)], 'keys': [('col', 'a', '')], 'distinct': False, 'limit': None},
    {'cols': [('a', 'int'), ('b', 'int')], 'rows': [(1, 1), (None, 2), (1, 3), (0, 4)], 'agg': False,
     'targets': [('b', None)], 'keys': [('col', 'a', ' DESC'), ('pos', 1, '')], 'distinct': False, 'limit': None},
    {'cols': [('a', 'int'), ('b', 'int')], 'rows': [(1, 1), (1, 1), (2, 1), (1, 1)], 'agg': False,
     'targets': [('a', 'x0'), ('b', None)], 'keys': [('name', 0, ' DESC')], 'distinct': True, 'limit': 1},
    {'cols': [('a', 'int'), ('b', 'int')], 'rows': [(1, 5), (2, 6), (1, None), (3, 1), (2, 1)], 'agg': True, 'gcol': 'a',
     'targets': [('a', None), ('count(*)', 'n'), ('sum(b)', 's')], 'keys': [('pos', 2, ' DESC'), ('name', 2, '')],
     'distinct': False, 'limit': 2},
]


def run(tier, rng):
    n = 1500 if tier == 'quick' else 20000
    cases = CORPUS + [gen_case(rng) for _ in range(n)]
    exhaustive = False
    if tier == 'thorough':
        cases += exhaustive_cases()
        exhaustive = True
    else:
        ex = exhaustive_cases()
        cases += [ex[i] for i in range(0, len(ex), 7)]
    cases += [gen_sub_case(rng) for _ in range(500 if tier == 'quick' else 6000)] + sub_matrix_cases()
    impl_out = core.pmap(run_impl, cases)
    model_out = model_many(cases)
    violations = []
    distinct, nontrivial = set(), 0
    hist = {'dir_patterns': {}, 'nrows': {}, 'distinct': 0, 'limit': 0, 'agg': 0, 'key_kinds': {}}
    for c, i, m in zip(cases, impl_out, model_out):
        key = statement(c) + repr(c['rows'])
        if key in distinct:
            continue
        distinct.add(key)
        pat = ''.join('D' if k[2] == ' DESC' else 'A' for k in c['keys'])
        hist['dir_patterns'][pat] = hist['dir_patterns'].get(pat, 0) + 1
        hist['nrows'][len(c['rows'])] = hist['nrows'].get(len(c['rows']), 0) + 1
        hist['distinct'] += c['distinct']
        hist['limit'] += c['limit'] is not None
        hist['agg'] += c['agg']
        hist['no_order_by'] = hist.get('no_order_by', 0) + (not c['keys'])
        hist['from_ordered_subquery'] = hist.get('from_ordered_subquery', 0) + bool(c.get('inner'))
        for k in c['keys']:
            hist['key_kinds'][k[0]] = hist['key_kinds'].get(k[0], 0) + 1
        if c.get('sub'):
            sh = hist.setdefault('from_shaped_subquery', {'cases': 0, 'shapes inner/outer (O=ORDER BY D=DISTINCT L=LIMIT)': {},
                                                          'inner_limit_cuts_rows': 0, 'outer_limit_above_inner_limit': 0,
                                                          'plain_outer_scan_with_limit_above_cutting_inner_limit': 0,
                                                          'inner_hidden_order_key': 0, 'inner_distinct_drops_rows': 0})
            sub = c['sub']
            sh['cases'] += 1
            shape = (('O' if sub['order'] else '') + ('D' if sub['distinct'] else '') + ('L' if sub['limit'] is not None else '') or '-') \
                + '/' + (('O' if c['keys'] else '') + ('D' if c['distinct'] else '') + ('L' if c['limit'] is not None else '') or '-')
            sh['shapes inner/outer (O=ORDER BY D=DISTINCT L=LIMIT)'][shape] = sh['shapes inner/outer (O=ORDER BY D=DISTINCT L=LIMIT)'].get(shape, 0) + 1
            proj = [tuple(r[[n for n, _ in c['cols']].index(x)] for x in sub['cols']) for r in c['rows']]
            navail = len(set(proj)) if sub['distinct'] else len(proj)
            cuts = sub['limit'] is not None and sub['limit'] < navail
            sh['inner_limit_cuts_rows'] += cuts
            sh['inner_distinct_drops_rows'] += sub['distinct'] and navail < len(proj)
            sh['inner_hidden_order_key'] += any(x not in sub['cols'] for x, _ in sub['order'])
            above = sub['limit'] is not None and c['limit'] is not None and c['limit'] > sub['limit']
            sh['outer_limit_above_inner_limit'] += above
            sh['plain_outer_scan_with_limit_above_cutting_inner_limit'] += bool(above and cuts and not c['keys'] and not c['distinct'] and not c['agg'])
        if len(c['rows']) >= 2 and i[0] == 0:
            nontrivial += 1
    seen = set()
    for c, i, m in zip(cases, impl_out, model_out):
        if not eq_rows(i, m):
            small = shrink(c) if len(seen) < 3 else c
            sig = 'order:' + statement(small) + ' rows=' + repr(small['rows'])
            if sig in seen:
                continue
            seen.add(sig)
            violations.append(core.Violation(
                'order-distinct-limit',
                f'{statement(small)} over rows {small["rows"]}: implementation {run_impl(small)} '
                f'differs from sorted/deduplicated/cut result {model_many([small], tag="c03s")[0]}',
                {'case': small, 'statement': statement(small), 'impl': run_impl(small),
                 'model': model_many([small], tag='c03s')[0]}, signature=sig))
            if len(seen) >= 3:
                break
    cov = {
        'evaluations': len(cases), 'distinct_nontrivial': nontrivial,
        'rule': 'random tables (1-4 typed columns, 0-8 rows, NULLs, ties) x SELECT [DISTINCT] targets [GROUP BY] ORDER BY 1-4 keys '
                '(position / output name / hidden column / -expression; ASC/DESC/default) [LIMIT]; plus all direction patterns for '
                '<=3 keys x all assignments of {NULL,1,2} to the key cells of 4 rows (every 7th in quick, all in thorough); '
                'FROM (SELECT [DISTINCT] columns FROM #t [ORDER BY visible/hidden keys] [LIMIT i]) under every outer shape [DISTINCT] [ORDER BY] '
                '[LIMIT o] incl. the plain scan (random, and all combinations on one table with duplicates and NULLs: histograms.from_shaped_subquery), '
                'the model executing the inner query first; '
                'non-trivial = distinct (statement, table) with >=2 rows that executed',
        'samples': [statement(c) + '  -- rows ' + repr(c['rows']) for c in cases[3:8]],
        'traces_validated_against_impl': len(cases),
        'histograms': hist, 'exhaustive': exhaustive,
    }
    return {'coverage': cov, 'violations': violations}


def replay(rec):
    c = rec['case']
    c['rows'] = [tuple(_unjson(v, t) for v, (_, t) in zip(r, c['cols'])) for r in c['rows']]
    c['keys'] = [tuple(k) for k in c['keys']]
    c['targets'] = [tuple(t) for t in c['targets']]
    c['inner'] = [tuple(t) for t in c.get('inner', [])]
    if c.get('sub'):
        c['sub']['order'] = [tuple(t) for t in c['sub']['order']]
    return run_impl(c) == model_many([c], tag='c03s')[0]


def _unjson(v, t):
    if v is None:
        return None
    if t == 'decimal':
        return D(v)
    if t == 'date':
        return datetime.date.fromisoformat(v)
    return v


def generate():
    """translator tie: regenerate coq/Gen/SrcExec.v (uniquify, nullitemgetter's inner functions, the row loop and the
    ORDER BY .. LIMIT tail of execute_select) from the source of the imported code (py2mini, src_exec.py)"""
    from . import gen_src, src_exec
    out = dict(gen_src.generate('exec'))
    out['src_exec_outside_fragment'] = dict(getattr(src_exec.ExecTranslator, 'skipped', {}))
    return out
