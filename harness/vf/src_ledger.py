"""Groups `ledger_*` of the translator-based tie (see PYMINI.md): the ledger-facing cores of beanquery.

Translated on every run from the source of the IMPORTED objects (inspect.getsource + ast):

* `ledger_prepare` -> coq/Gen/SrcLedgerPrepare.v (C13): query_env.BeanTable.prepare (whole method);
* `ledger_tables`  -> coq/Gen/SrcLedgerTables.v (C11): query_env.Row.__init__, EntriesTable.__iter__,
  PostingsTable.__iter__, sources.beancount.Table.__iter__ (whole methods; generators);
* `ledger_balance` -> coq/Gen/SrcLedgerBalance.v (C12): query_env.Row.__init__ and the `balance` column accessor
  (the function behind PostingsTable.columns['balance'], taken from the LIVE column object; its parameter `context`
  is the receiver);
* `ledger_print`   -> coq/Gen/SrcLedgerPrint.v (C14): the selection loop of query_execute.execute_print, selected by
  STRUCTURE (from the statement `entries = []` to the `for row in c_print.table:` loop, which must directly follow
  the statement `expr = c_print.where`), as a synthetic function `(c_print)` that returns `entries`; `c_print` is the
  receiver; and the statements after the loop must hand exactly `entries` to printer.print_entries.
  compiler.transform_balances / transform_journal: the final `return ast.Select(...)` as a synthetic function of the
  statement node (`balances` / `journal`) and of `cooked_select`, the dataclass constructors and `parser.parse`
  being primitives.

Two translation rules are added to py2mini.FuncTranslator for these groups only (LedgerTranslator):

* assignment to an attribute of a LOCAL name (`context.entry = entry`, `context.rowid += 1`) becomes a functional
  update of the value bound to that name: `context = setattr:<a>(context, v)` through the primitive
  `"setattr:<a>"`.  This is exact as long as the object is only reachable through that name at the places where it
  is observed: a generator that yields the object hands the consumer the state AT THE TIME OF THE YIELD, which is
  what a consumer that finishes with a row before asking for the next one (execute_select, execute_print) sees;
* method names listed per function (`add_position`) are mutators (XMethod: the receiver is written back).

Everything fails closed with py2mini.Untranslatable."""
import ast
import inspect
import textwrap

from . import py2mini
from .py2mini import Untranslatable, gstr, glist


class LedgerTranslator(py2mini.FuncTranslator):
    def __init__(self, func, refs, self_name='self', prims=(), mutators=(), select=None):
        super().__init__(func, refs, self_name=self_name, prims=prims)
        self.extra_mutators = set(mutators)
        self.nlines = len(inspect.getsource(func).splitlines())
        if select is not None:
            # a statement range of the host function as a synthetic function
            params, stmts = select(self.fd)
            self.nlines = sum((s.end_lineno - s.lineno + 1) for s in stmts if getattr(s, 'lineno', None) is not None)
            args = ast.arguments(posonlyargs=[], args=[ast.arg(arg=p) for p in params], vararg=None, kwonlyargs=[],
                                 kw_defaults=[], kwarg=None, defaults=[])
            self.fd = ast.FunctionDef(name=self.fd.name, args=args, body=list(stmts), decorator_list=[], returns=None)
            self.params = list(params)
            self.defaults = []
            self.locals = set(params)
            for s in stmts:
                for n in ast.walk(s):
                    if isinstance(n, ast.Name) and isinstance(n.ctx, ast.Store):
                        self.locals.add(n.id)
        if self.self_name not in self.params[:1]:
            raise Untranslatable(f'receiver {self.self_name} is not the first parameter of {func.__qualname__}')

    def _local_attr(self, t):
        """`x.a` with x a local name other than the receiver -> (x, a)"""
        if isinstance(t, ast.Attribute) and isinstance(t.value, ast.Name) and t.value.id in self.locals \
                and t.value.id != self.self_name:
            return t.value.id, t.attr
        return None

    def expr(self, e):
        if isinstance(e, ast.Call) and isinstance(e.func, ast.Attribute) and e.func.attr in self.extra_mutators \
                and not e.keywords and not any(isinstance(a, ast.Starred) for a in e.args):
            tgt = self.target(e.func.value)   # a local name or an attribute of the receiver, else Untranslatable
            return f'(XMethod {tgt} {gstr(e.func.attr)} {glist([self.expr(a) for a in e.args])})'
        return super().expr(e)

    def stmt(self, s):
        if isinstance(s, ast.Assign) and len(s.targets) == 1:
            la = self._local_attr(s.targets[0])
            if la is not None:
                x, a = la
                return (f'(SAssign (TName {gstr(x)}) (XPrim {gstr("setattr:" + a)} '
                        f'[(XName {gstr(x)}); {self.expr(s.value)}]))')
        if isinstance(s, ast.AugAssign) and type(s.op) in py2mini.BOP:
            la = self._local_attr(s.target)
            if la is not None:
                x, a = la
                return (f'(SAssign (TName {gstr(x)}) (XPrim {gstr("setattr:" + a)} '
                        f'[(XName {gstr(x)}); (XBin {py2mini.BOP[type(s.op)]} (XAttr (XName {gstr(x)}) {gstr(a)}) '
                        f'{self.expr(s.value)})]))')
        return super().stmt(s)


class Group:
    """plugs into gen_src.generate through the 'translator' option: spec items are
    (coq_name, origin, builder(refs, prims) -> FuncTranslator)"""

    @staticmethod
    def translate_all(spec, prims=()):
        refs = py2mini.Refs()
        defs, info = [], {}
        for name, origin, build in spec:
            tr = build(refs, prims)
            term, defaults = tr.translate()
            defs.append((name, origin + '; parameters: ' + ', '.join(tr.params), term, defaults))
            info[name] = {'origin': origin, 'lines': tr.nlines}
        return py2mini.render(defs, refs), info


# ---------------------------------------------------------------------------------------------- C13
PRIMS_PREPARE = ('builtins.isinstance', 'beancount.ops.summarize.open_opt', 'beancount.ops.summarize.close_opt',
                 'beancount.ops.summarize.clear_opt')


def spec_prepare():
    from beanquery import query_env
    return [('src_prepare', 'beanquery.query_env.BeanTable.prepare',
             lambda refs, prims: LedgerTranslator(query_env.BeanTable.prepare, refs, prims=prims))]


# ---------------------------------------------------------------------------------------------- C11
PRIMS_TABLES = ('builtins.isinstance', 'beanquery.query_env.Row', 'beancount.core.inventory.Inventory')


def _row_init(refs, prims):
    from beanquery import query_env
    return LedgerTranslator(query_env.Row.__init__, refs, prims=prims)


def row_class_attrs():
    """the plain (None / int / str) class attributes of query_env.Row: the fields an instance starts with"""
    from beanquery import query_env
    out = []
    for k, v in vars(query_env.Row).items():
        if k.startswith('__') or callable(v) or isinstance(v, (staticmethod, classmethod, property)):
            continue
        if not (v is None or isinstance(v, (bool, int, str))):
            raise Untranslatable(f'Row.{k} = {v!r}: class attribute outside the fragment')
        out.append((k, v))
    return out


def extra_row():
    tr = py2mini.FuncTranslator.__new__(py2mini.FuncTranslator)
    items = []
    for k, v in row_class_attrs():
        c = tr.const(v)                       # (XConst <pv>)
        assert c.startswith('(XConst ') and c.endswith(')')
        items.append(f'({gstr(k)}, {c[len("(XConst "):-1]})')
    return ('\n(* vars(beanquery.query_env.Row): the class attributes an instance reads until it assigns its own *)\n'
            'Definition row_class_attrs : list (string * pv) :=\n  ' + glist(items) + '.\n')


def typed_tables():
    """every table class of sources.beancount that iterates with Table.__iter__: (table name, datatype qualname)"""
    from beanquery.sources import beancount as src
    out = []
    for cls in src.TABLES:
        if isinstance(cls, type) and issubclass(cls, src.Table):
            if cls.__iter__ is src.Table.__iter__:
                dt = cls.datatype
                out.append((cls.name, f'{dt.__module__}.{dt.__qualname__}'))
    return sorted(out)


def extra_tables():
    return (extra_row() +
            '\n(* the table classes of beanquery.sources.beancount whose __iter__ is Table.__iter__, with their datatype *)\n'
            'Definition typed_tables : list (string * string) :=\n  ' +
            glist([f'({gstr(n)}, {gstr(d)})' for n, d in typed_tables()]) + '.\n')


def spec_tables():
    from beanquery import query_env
    from beanquery.sources import beancount as src
    return [
        ('src_row_init', 'beanquery.query_env.Row.__init__', _row_init),
        ('src_entries_iter', 'beanquery.query_env.EntriesTable.__iter__',
         lambda refs, prims: LedgerTranslator(query_env.EntriesTable.__iter__, refs, prims=prims)),
        ('src_postings_iter', 'beanquery.query_env.PostingsTable.__iter__',
         lambda refs, prims: LedgerTranslator(query_env.PostingsTable.__iter__, refs, prims=prims)),
        ('src_typed_iter', 'beanquery.sources.beancount.Table.__iter__',
         lambda refs, prims: LedgerTranslator(src.Table.__iter__, refs, prims=prims)),
    ]


# ---------------------------------------------------------------------------------------------- C12
PRIMS_BALANCE = ('copy.copy', 'beancount.core.inventory.Inventory')


def balance_accessor():
    """the function behind the `balance` column of the postings table, from the live column object"""
    from beanquery import query_env
    col = query_env.PostingsTable.columns['balance']
    fn = type(col).__dict__['__call__']
    if isinstance(fn, staticmethod):
        fn = fn.__func__
    if not inspect.isfunction(fn):
        raise Untranslatable(f'balance column accessor is not a plain function: {fn!r}')
    return fn


def spec_balance():
    fn = balance_accessor()
    params = list(inspect.signature(fn).parameters)
    if len(params) != 1:
        raise Untranslatable('balance accessor: expected exactly one parameter (the row context)')
    return [
        ('src_row_init', 'beanquery.query_env.Row.__init__', _row_init),
        ('src_balance', f'{fn.__module__}.{fn.__qualname__} (PostingsTable.columns["balance"]; receiver: {params[0]})',
         lambda refs, prims: LedgerTranslator(fn, refs, self_name=params[0], prims=prims,
                                              mutators=('add_position',))),
    ]


# ---------------------------------------------------------------------------------------------- C14
PRIMS_PRINT = ('beanquery.parser.ast.Select', 'beanquery.parser.ast.Match', 'beanquery.parser.ast.Column',
               'beanquery.parser.ast.Constant')


def _is_name(e, name):
    return isinstance(e, ast.Name) and e.id == name


def _attr_of(e, base, attr):
    return isinstance(e, ast.Attribute) and e.attr == attr and _is_name(e.value, base)


def select_print_loop(fd):
    """execute_print(c_print, file): `entries = []`, `expr = c_print.where`, `for row in c_print.table:` and what is
    done with `entries` afterwards"""
    if [a.arg for a in fd.args.args][:1] != ['c_print']:
        raise Untranslatable('execute_print: first parameter is not c_print')
    body = [s for s in fd.body if not (isinstance(s, ast.Expr) and isinstance(s.value, ast.Constant))]
    loops = [i for i, s in enumerate(body) if isinstance(s, ast.For) and _attr_of(s.iter, 'c_print', 'table')]
    if len(loops) != 1:
        raise Untranslatable('execute_print: expected exactly one `for row in c_print.table:`')
    i = loops[0]
    init = [j for j, s in enumerate(body[:i]) if isinstance(s, ast.Assign) and len(s.targets) == 1
            and _is_name(s.targets[0], 'entries')]
    if not init:
        raise Untranslatable('execute_print: `entries` is not initialised before the loop')
    stmts = body[init[0]:i + 1]
    # after the loop `entries` must not be rebound, and must be what the printer is handed
    rest = body[i + 1:]
    for s in rest:
        for n in ast.walk(s):
            if isinstance(n, ast.Name) and n.id == 'entries' and isinstance(n.ctx, ast.Store):
                raise Untranslatable('execute_print: `entries` is rebound after the selection loop')
            if isinstance(n, ast.Call) and isinstance(n.func, ast.Attribute) and _is_name(n.func.value, 'entries'):
                raise Untranslatable('execute_print: `entries` is changed after the selection loop')
    prints = [n for s in rest for n in ast.walk(s) if isinstance(n, ast.Call) and isinstance(n.func, ast.Attribute)
              and n.func.attr == 'print_entries']
    if len(prints) != 1 or not prints[0].args or not _is_name(prints[0].args[0], 'entries'):
        raise Untranslatable('execute_print: printer.print_entries is not called exactly once on `entries`')
    uses = [n for s in rest for n in ast.walk(s) if _is_name(n, 'entries')]
    if len(uses) != 1:
        raise Untranslatable('execute_print: `entries` is used elsewhere after the selection loop')
    ret = ast.Return(value=ast.Name(id='entries', ctx=ast.Load()))
    return ['c_print'], stmts + [ret]


def _select_return(host, node_param):
    """the final `return ast.Select(...)` of transform_balances / transform_journal and the assignments between
    the parse of the template and it, as a function of (node, cooked_select)"""
    def sel(fd):
        if [a.arg for a in fd.args.args] != [node_param]:
            raise Untranslatable(f'{host}: signature is not ({node_param})')
        body = [s for s in fd.body if not (isinstance(s, ast.Expr) and isinstance(s.value, ast.Constant))]
        if not body or not isinstance(body[-1], ast.Return):
            raise Untranslatable(f'{host}: does not end in a return statement')
        cooked = [i for i, s in enumerate(body) if isinstance(s, ast.Assign) and len(s.targets) == 1
                  and _is_name(s.targets[0], 'cooked_select')]
        if len(cooked) != 1:
            raise Untranslatable(f'{host}: expected exactly one assignment to cooked_select')
        c = body[cooked[0]].value
        # cooked_select = parser.parse(<template>.format(summary_func=<node>.summary_func or ''))
        ok = (isinstance(c, ast.Call) and isinstance(c.func, ast.Attribute) and c.func.attr == 'parse'
              and len(c.args) == 1 and isinstance(c.args[0], ast.Call) and isinstance(c.args[0].func, ast.Attribute)
              and c.args[0].func.attr == 'format' and isinstance(c.args[0].func.value, ast.Constant))
        if ok:
            fargs = list(c.args[0].args) + [k.value for k in c.args[0].keywords]
            ok = (len(fargs) == 1 and isinstance(fargs[0], ast.BoolOp) and isinstance(fargs[0].op, ast.Or)
                  and len(fargs[0].values) == 2 and _attr_of(fargs[0].values[0], node_param, 'summary_func')
                  and isinstance(fargs[0].values[1], ast.Constant) and fargs[0].values[1].value == '')
        if not ok:
            raise Untranslatable(f'{host}: cooked_select is not parser.parse(TEMPLATE.format({node_param}.summary_func or ""))')
        for s in body[:cooked[0]]:
            raise Untranslatable(f'{host}: statements before the template is parsed')
        return [node_param, 'cooked_select'], body[cooked[0] + 1:]
    return sel


def extra_print():
    """the dataclass fields (declaration order, parseinfo left out) of the parser AST classes the code constructs"""
    import dataclasses
    from beanquery.parser import ast as bast
    items = []
    for q in PRIMS_PRINT:
        cls = getattr(bast, q.rsplit('.', 1)[1])
        if f'{cls.__module__}.{cls.__qualname__}' != q:
            raise Untranslatable(f'{q} is not defined in beanquery.parser.ast')
        flds = dataclasses.fields(cls)
        for f in flds:
            if f.name == 'parseinfo' and (f.compare or f.default is not None):
                raise Untranslatable(f'{q}.parseinfo takes part in comparisons or has no None default')
        names = [f.name for f in flds if f.name != 'parseinfo']
        items.append(f'({gstr(q)}, {glist([gstr(n) for n in names])})')
    return ('\n(* dataclasses.fields of the beanquery.parser.ast classes constructed by the translated code *)\n'
            'Definition ast_decls : list (string * list string) :=\n  ' + glist(items) + '.\n')


def spec_print():
    from beanquery import query_execute, compiler
    return [
        ('src_print_selection', 'beanquery.query_execute.execute_print: from `entries = []` to the end of '
         '`for row in c_print.table:` (+ return entries); receiver: c_print',
         lambda refs, prims: LedgerTranslator(query_execute.execute_print, refs, self_name='c_print', prims=prims,
                                              select=select_print_loop)),
        ('src_transform_balances', 'beanquery.compiler.transform_balances: after cooked_select = parser.parse(...)',
         lambda refs, prims: LedgerTranslator(compiler.transform_balances, refs, self_name='balances', prims=prims,
                                              select=_select_return('transform_balances', 'balances'))),
        ('src_transform_journal', 'beanquery.compiler.transform_journal: after cooked_select = parser.parse(...)',
         lambda refs, prims: LedgerTranslator(compiler.transform_journal, refs, self_name='journal', prims=prims,
                                              select=_select_return('transform_journal', 'journal'))),
    ]


GROUPS = {
    'ledger_prepare': ('SrcLedgerPrepare.v', spec_prepare, {'translator': Group, 'prims': PRIMS_PREPARE}),
    'ledger_tables': ('SrcLedgerTables.v', spec_tables, {'translator': Group, 'prims': PRIMS_TABLES,
                                                         'extra': extra_tables}),
    'ledger_balance': ('SrcLedgerBalance.v', spec_balance, {'translator': Group, 'prims': PRIMS_BALANCE,
                                                           'extra': extra_row}),
    'ledger_print': ('SrcLedgerPrint.v', spec_print, {'translator': Group, 'prims': PRIMS_PRINT,
                                                       'extra': extra_print}),
}
