"""C19: the shell prints what the API returns; settings are a typed key-value store; CLI options.

Correspondence: command sessions on real `beanquery.shell.BQLShell` objects (onecmd, batch mode)
and `shell.main` through click's CliRunner versus Model/Shell.v evaluated by vm_compute.  The
model is parametric in a World (parser, executor, numberify, render_text/csv, PRINT): the run
instantiates it symbolically and this harness interprets the symbolic terms through beanquery's
public API on a separate connection.  Pure helpers of the model (shlex.split, repr, strip, int,
command classification) are additionally compared with CPython / an instrumented shell."""
import contextlib
import dataclasses
import inspect
import datetime
import io
import json
import os
import re
import shlex
import warnings

from . import core, impl  # noqa: F401  (impl forces /repo onto sys.path)
from .core import cZ, clist, copt, cbool
from .shrink import ddmin_batch

import beanquery  # noqa: E402
from beanquery import shell, query_render, parser as bqparser, types as bqtypes  # noqa: E402
from beanquery.numberify import numberify_results  # noqa: E402
from beanquery.query_execute import execute_print  # noqa: E402
from beancount.core import data  # noqa: E402
from beancount.parser import printer  # noqa: E402

def cstr(s):
    """Python str -> Gallina [str] (code points); printable ASCII runs as string literals (fast to parse)."""
    if not s:
        return '[]'
    parts = []
    for m in re.finditer(r'[ -~]+|[^ -~]+', s):
        seg = m.group(0)
        if ' ' <= seg[0] <= '~':
            parts.append('s2z "%s"' % seg.replace('"', '""'))
        else:
            parts.append('[' + '; '.join(str(ord(c)) for c in seg) + ']')
    return '(' + ' ++ '.join(parts) + ')%list'


ASSUMPTIONS = [
    'parser, compiler/executor, numberify_results, render_text, render_csv and execute_print are parameters of the '
    'model (a World record); the harness interprets them with beanquery\'s public API on its own connection',
    'batch mode: interactive=False, no init file, no pager, colours stripped; warnings filter "always" '
    '(the deprecation warning of dot-less commands is otherwise shown once per process)',
    'str.lower()/repr() modelled on the ASCII range plus printable non-ASCII letters; str.strip() on all Unicode spaces',
    'the informational commands (.help .explain .tables .describe .errors .parse .history .clear .reload) are '
    'modelled only as "state unchanged"; the harness checks .tables/.describe/.errors/.parse/.reload output itself',
    '`.reload` of a rewritten ledger file = the session continues in the World of the new file (facts and rendering '
    'computed by the harness on a fresh connection over that file), settings carried over',
    'the default CLOSE date is applied to SELECT statements only (what BQLShell.parse does); BALANCES/JOURNAL/PRINT '
    'named queries run unchanged',
    'translator tie (C19_source_*): PyMini (Model/PyMini.v) is the semantics of the translated DispatchingShell.parseline / '
    'onecmd and Settings._parse_bool; primitives of Model/PrimsApi.v (trusted): str.strip/lower are the model\'s, '
    'cmd.Cmd.parseline is the model\'s cmd_parseline, getattr(self, "do_"+cmd, None) is a parameter, warnings.warn and '
    'self.error are calls that return (their effect is not part of the theorem), message texts are uninterpreted; '
    'do_set / Settings.getstr / setstr / _parse_format / BQLShell.parse are tied too (C19_source_do_set, _getstr, _setstr, '
    '_parse_format, _run_default_close) under the rules R10-R16 of src_api.py: the shell\'s output is the list of (channel, text) '
    'pairs its print(.., file=self.outfile) / self.error(..) statements append (self.$events); a Settings object is a value '
    '(record of its fields: getattr/setattr/todict/type/repr/str are primitives of Model/PrimsShell.v, shlex.split is the '
    'model\'s shlex_split); settings.getstr/setstr called from do_set have as primitive semantics what their own ties prove; '
    'the text of str(ex) is uninterpreted; a parsed statement is a record of its class, from_clause and close; on_Select '
    '(with-statement, keyword call of render) is outside THAT fragment: tied in group shell2, next entry',
    'translator tie of the query output (C19_source_on_select, group shell2 -> Gen/SrcShell2.v): trusted are the translator '
    '(py2mini + src_api + the rules S1-S4 of src_shell2.py), PyMini and Model/PrimsShell2.v: `with self.output as out` binds '
    'an uninterpreted value and __exit__ (flush / pager) is not modelled; context.execute returns an opaque cursor object '
    'whose description / fetchall, and dcontext.build(), are uninterpreted; fetchall and numberify_results return lists of '
    'rows (oracles_ok); FORMATS.get(name) is the function object of the live FORMATS[name] and calling it with '
    'dcontext= and **settings.todict() is interpreting its translated body with dcontext bound by name (no Settings field '
    'is named like a parameter of the adapters: checked by the translator); print / render_text / render_csv / '
    'numberify_results are opaque callables; the theorem is stated in the shape of Shell.render_format, not yet through a '
    'World instance',
    'translator tie of `.run` (C19_source_do_run + C19_run_plan_is_do_run, group shell3 -> Gen/SrcShell3.v, the WHOLE of '
    'BQLShell.do_run): trusted are the translator (py2mini + src_api + rules S5/S6 of src_shell2.py + S7 of src_shell3.py: '
    'print() / print(x) / self.error(x) / self.execute(text, default_close_date=d) as statements append events to ONE log), '
    'PyMini and Model/PrimsShell3.v: self.queries is the list of its items (name, Query record with query_string and date), '
    'sorted() is Shell.sort_q, str.rstrip / str.join / dict.get / dict.items with their library meaning, shlex.split is '
    'Shell.shlex_split (ValueError otherwise); that self.execute parses with the default CLOSE date and dispatches is the '
    'other ties (C19_source_run_default_close, C19_source_on_select) plus correspondence; `.reload` (C19_source_do_reload, same '
    'group, rule S8): context.errors.clear() / context.options.clear() / context.attach(..) / _extract_queries(..) are events of '
    'the log and self.context is read as the connection AFTER them (mutation of the connection object is outside PyMini); '
    'print_errors / print_statistics are opaque callables',
]

WORK = os.path.join(core.BUILD, 'c19')

# --------------------------------------------------------------------------
# ledgers

BASE = '''option "title" "T"
option "operating_currency" "USD"
2021-01-01 open Assets:Checking
2021-01-01 open Assets:Broker
2021-01-01 open Expenses:Food
2021-01-01 open Income:Job
2021-01-01 open Equity:Opening

2021-06-01 * "Opening"
  Assets:Checking   500.00 USD
  Equity:Opening

2022-01-05 * "Shop" "Food"
  Assets:Checking   -10.00 USD
  Expenses:Food      10.00 USD

2022-01-20 * "Lunch in EUR"
  Assets:Checking   -7.50 EUR
  Expenses:Food      7.50 EUR

2022-02-10 * "Broker" "Buy"
  Assets:Checking   -200.00 USD
  Assets:Broker      2 HOOL {100.00 USD}

2022-03-05 * "Job" "Pay"
  Assets:Checking   100.00 USD
  Income:Job       -100.00 USD

2023-01-02 * "Next year"
  Assets:Checking   -1.00 USD
  Expenses:Food      1.00 USD

'''

QUERIES_A = [
    ('2022-02-01', 'food', "SELECT date, account, position WHERE account ~ 'Food'"),
    ('2022-02-01', 'fromq', "SELECT date, account, position FROM year = 2022"),
    ('2022-01-10', 'early', "\n  SELECT date, narration, position\n  FROM year >= 2021\n"),
    ('2022-03-01', 'closed', "SELECT date, account FROM year = 2022 CLOSE ON 2022-01-15"),
    ('2022-03-01', 'closeplain', "SELECT date, account FROM year = 2022 CLOSE"),
    ('2022-02-01', 'openonly', "SELECT date, account, position FROM OPEN ON 2022-01-01"),
    ('2022-02-01', 'bal', "BALANCES FROM year = 2022"),
    ('2022-02-01', 'jrn', "JOURNAL 'Checking' FROM year = 2022"),
    ('2022-02-01', 'pr', "PRINT FROM year = 2022"),
    ('2022-02-01', 'tab', "SELECT account FROM #accounts"),
    ('2022-02-01', 'sub', "SELECT a FROM (SELECT account AS a WHERE number > 50)"),
    ('2021-01-01', 'none', "SELECT date, account FROM year = 2022"),
    ('2022-02-01', 'Zed', "SELECT 1 AS one"),
    ('2022-02-01', 'my-query', "SELECT account, sum(position) AS total GROUP BY account;"),
    ('2022-02-01', 'two words', "SELECT 2 AS two"),
    ('2022-02-02', 'food', "SELECT 3 AS duplicate_name"),
]
QUERIES_C = [
    ('2022-02-01', 'food', "SELECT date, account, position WHERE account ~ 'Food'"),
    ('2022-02-01', 'fromq', "SELECT date, account, position FROM year = 2022"),
    ('2022-02-01', 'bad', "SELECT FROM WHERE"),
    ('2022-02-01', 'nocol', "SELECT nosuchcolumn"),
    ('2022-02-01', 'zlast', "SELECT 1 AS one"),
]
ERRORS = '''
2022-04-01 * "Unbalanced"
  Assets:Checking   5.00 USD
  Expenses:Food     4.00 USD

2022-04-02 * "Unknown account"
  Assets:Nowhere    1.00 USD
  Expenses:Food    -1.00 USD
'''


def _qdirs(qs):
    return ''.join('%s query "%s" "%s"\n' % q for q in qs)


# two versions of one ledger whose most common display precision differs (BTC 2 -> 8 digits, USD 2 -> 3)
PREC1 = '''option "title" "P"
2020-01-01 open Assets:Bank
2020-01-01 open Assets:Coins
2020-01-01 open Equity:Opening

2020-01-02 * "fund"
  Assets:Bank      1000.00 USD
  Equity:Opening

2020-01-03 * "coins"
  Assets:Coins        0.25 BTC
  Equity:Opening

2020-01-04 * "coins"
  Assets:Coins        0.50 BTC
  Equity:Opening

2020-03-01 query "coins" "SELECT account, sum(position) AS bal WHERE account ~ 'Assets' GROUP BY account ORDER BY account"
'''
PREC2 = PREC1 + '''
2020-02-01 * "coins"
  Assets:Coins        0.00412345 BTC
  Equity:Opening

2020-02-02 * "coins"
  Assets:Coins        0.00300001 BTC
  Equity:Opening

2020-02-03 * "coins"
  Assets:Coins        0.00087654 BTC
  Equity:Opening

2020-02-04 * "bank"
  Assets:Bank         0.005 USD
  Equity:Opening

2020-02-05 * "bank"
  Assets:Bank         0.125 USD
  Equity:Opening

2020-02-06 * "bank"
  Assets:Bank         1.375 USD
  Equity:Opening

2020-03-02 query "later" "SELECT date, account, position WHERE date >= 2020-02-01"
'''

# fix-G: named queries whose NAME needs quoting on the `.run` line (blanks, tabs, quotes, apostrophes, backslash, `;`, `*`,
# the empty name, non-ASCII); every text is distinct, most depend on the default CLOSE date of their directive
QUERIES_N = [
    ('2022-02-01', 'monthly expenses', "SELECT date, account, position FROM year = 2022 WHERE account ~ 'Expenses'"),
    ('2022-01-10', "john's-report", "SELECT date, narration, position FROM year >= 2021"),
    ('2022-03-01', 'say "hi"', "SELECT account, sum(position) AS total FROM year = 2022 GROUP BY account"),
    ('2022-02-15', 'tab\tname', "SELECT date, account FROM year = 2022 CLOSE ON 2022-01-15"),
    ('2022-02-01', '  padded  ', "SELECT date, account, number FROM year = 2022 WHERE number > 5"),
    ('2022-02-20', 'a  b', "BALANCES FROM year = 2022"),
    ('2022-02-01', 'back\\slash x', "SELECT 7 AS seven"),
    ('2022-01-06', 'semi; colon', "SELECT payee, position FROM year = 2022 WHERE payee IS NOT NULL"),
    ('2022-02-01', '*', "SELECT 9 AS star"),
    ('2022-03-10', 'star *', "JOURNAL 'Checking' FROM year = 2022"),
    ('2022-02-01', '', "SELECT 11 AS empty_name"),
    ('2022-01-21', '\u00e9t\u00e9 2022', "SELECT date, account, position FROM year = 2022 WHERE currency = 'EUR'"),
    ('2022-02-01', "it's \"both\"", "SELECT account WHERE account = 'Nope'"),
    ('2022-02-01', 'plain', "SELECT date, account, position FROM year = 2022 WHERE account ~ 'Broker'"),
    ('2022-02-01', 'monthly', "SELECT 14 AS first_word_only"),
    ('2022-02-01', 'expenses', "SELECT 15 AS second_word_only"),
    ('2022-02-01', '"monthly', "SELECT 16 AS with_the_quote"),
    ('2022-02-02', 'monthly expenses', "SELECT 17 AS duplicate_name"),
]


def _bc_string(x):
    return '"' + x.replace('\\', '\\\\').replace('"', '\\"') + '"'


def _qdirs_esc(qs):
    return ''.join('%s query %s %s\n' % (d, _bc_string(n), _bc_string(t)) for d, n, t in qs)


LEDGERS = {
    'A': BASE + _qdirs(QUERIES_A),
    'B': BASE,
    'C': BASE + ERRORS + _qdirs(QUERIES_C),
    'P1': PREC1,
    'P2': PREC2,
    'N': BASE + _qdirs_esc(QUERIES_N),
}

# A line of this form in a session is an instruction to the harness, not input of the shell: the session's
# (private) ledger file is overwritten with that version.  The shell sees the new file at its next `.reload`.
REWRITE = '@rewrite '
RELOAD_RE = re.compile(r'^\s*\.reload(?![A-Za-z0-9_.])')


def segments(case):
    """[(ledger key, [shell lines])]: the world changes at the first `.reload` after a rewrite."""
    segs = [(case['ledger'], [])]
    pending = None
    for l in case['lines']:
        if l.startswith(REWRITE):
            pending = l[len(REWRITE):]
            continue
        if pending is not None and RELOAD_RE.match(l):
            segs.append((pending, []))
            pending = None
        segs[-1][1].append(l)
    return segs


def real_lines(case):
    return [l for l in case['lines'] if not l.startswith(REWRITE)]


def ledger_path(key):
    os.makedirs(WORK, exist_ok=True)
    path = os.path.join(WORK, f'ledger_{key}.beancount')
    core.write_if_changed(path, LEDGERS[key])
    return path


# --------------------------------------------------------------------------
# translator: Gen/Settings.v from the imported module

TY = {bool: 'TBool', str: 'TStr', int: 'TInt'}


def _cval(v):
    if isinstance(v, bool):
        return f'SBool {cbool(v)}'
    if isinstance(v, str):
        return f'SStr {core.cstr(v)}'
    if isinstance(v, int):
        return f'SInt {cZ(v)}'
    return f'SUnmodelled_{type(v).__name__}'


def legacy_names():
    for c in shell.DispatchingShell.onecmd.__code__.co_consts:
        if isinstance(c, frozenset):
            return sorted(c)
    raise RuntimeError('no literal set of dot-less commands found in DispatchingShell.onecmd')


def command_names():
    return sorted(n[3:] for n in dir(shell.BQLShell) if n.startswith('do_'))


def introspect():
    fields = [(f.name, f.type, f.default) for f in dataclasses.fields(shell.Settings)]
    return {
        'fields': fields,
        'formats': sorted(shell.FORMATS.keys()),
        'parsers': sorted(n[len('_parse_'):] for n in dir(shell.Settings) if n.startswith('_parse_')),
        'commands': sorted(n[3:] for n in dir(shell.BQLShell) if n.startswith('do_')),
        'legacy': legacy_names(),
    }


def generate():
    info = introspect()
    rows = ['  (%s, %s, %s)' % (core.cstr(n), TY.get(t, f'TUnmodelled_{getattr(t, "__name__", t)}'), _cval(d))
            for n, t, d in info['fields']]
    txt = ('(* GENERATED by harness/vf/c19.py from the imported beanquery.shell: dataclasses.fields(Settings),\n'
           '   FORMATS keys, Settings._parse_* methods, BQLShell.do_* methods and the literal set of dot-less\n'
           '   commands in DispatchingShell.onecmd.  Properties/C19.v proves each list equal to the model\'s. *)\n'
           'From Coq Require Import ZArith List.\nImport ListNotations.\n'
           'From Verif Require Import Model.Shell.\nOpen Scope list_scope.\nOpen Scope Z_scope.\n\n'
           'Definition settings : list (str * ty * value) :=\n  [\n' + ';\n'.join(rows) + '\n  ].\n\n')
    for key in ('formats', 'parsers', 'commands', 'legacy'):
        txt += f'Definition {key} : list str :=\n  ' + clist([core.cstr(n) for n in info[key]]) + '.\n\n'
    core.write_if_changed(os.path.join(core.COQ, 'Gen', 'Settings.v'), txt)
    out = {'generated': {'Gen/Settings.v': {k: (len(v)) for k, v in info.items()}}}
    # translator tie: coq/Gen/SrcShell.v from the source of parseline / onecmd / _parse_bool (py2mini + src_api)
    from . import gen_src
    out.update(gen_src.generate('shell'))
    out.update(gen_src.generate('shell2'))      # bld-misc: BQLShell.on_Select and the render adapters behind FORMATS
    out.update(gen_src.generate('shell3'))      # bld-shell3: the whole of BQLShell.do_run
    return out


# --------------------------------------------------------------------------
# the API side ("World") for one ledger

class World:
    """Facts about query texts and rendering through the public API, on our own connection."""
    _cache = {}

    @classmethod
    def get(cls, key):
        if key not in cls._cache:
            cls._cache[key] = cls(key)
        return cls._cache[key]

    def __init__(self, key):
        self.key = key
        self.path = ledger_path(key)
        self.conn = beanquery.connect('beancount:' + self.path)
        self.dcontext = self.conn.options['dcontext']
        entries = self.conn.tables['entries'].entries
        self.directives = [e for e in entries if isinstance(e, data.Query)]
        self.dates = {}
        for e in self.directives:
            self.dates.setdefault(e.query_string, e.date)
        buf = io.StringIO()
        if self.conn.errors:
            printer.print_errors(self.conn.errors, file=buf)
        self.error_report = buf.getvalue() if self.conn.errors else None
        self.facts = {}
        self.rendered = {}

    # -- statements
    def statement(self, text, close):
        st = self.conn.parse(text)
        if close is not None:
            st.from_clause.close = datetime.date.fromordinal(close)
        return st

    def results(self, text, close, numberified):
        st = self.statement(text, close)
        curs = self.conn.execute(st)
        desc, rows = curs.description, curs.fetchall()
        if numberified:
            desc, rows = numberify_results(desc, rows, self.dcontext.build())
        return desc, rows

    def fact(self, text):
        if text in self.facts:
            return self.facts[text]
        f = {'text': text, 'parse_ok': False, 'kind': 'KSelect', 'from': 'FNone', 'close': 'CNone',
             'ok': False, 'ok_closed': False, 'empty': False, 'empty_closed': False}
        try:
            st = self.conn.parse(text)
            f['parse_ok'] = True
        except Exception:  # noqa: BLE001  (ParseError; the error path itself can fail, e.g. IndexError on '')
            st = None
        if st is not None:
            f['kind'] = 'K' + type(st).__name__
            fc = st.from_clause
            f['from'] = {type(None): 'FNone', bqparser.ast.Table: 'FTable', bqparser.ast.Select: 'FSubselect',
                         bqparser.ast.From: 'FFrom'}[type(fc)]
            if isinstance(fc, bqparser.ast.From):
                f['close'] = 'CNone' if fc.close is None else ('CTrue' if fc.close is True else 'CDate')
            date = self.dates.get(text)
            for suffix, close in (('', None), ('_closed', date.toordinal() if date else None)):
                if suffix and (close is None or f['from'] != 'FFrom'):
                    f['ok_closed'], f['empty_closed'] = f['ok'], f['empty']
                    continue
                try:
                    if f['kind'] == 'KPrint':
                        execute_print(self.conn.compile(self.statement(text, close)), io.StringIO())
                        f['ok' + suffix] = True
                    else:
                        desc, rows = self.results(text, close, False)
                        f['ok' + suffix] = True
                        f['empty' + suffix] = not rows
                except Exception:  # noqa: BLE001
                    pass
        self.facts[text] = f
        return f

    # -- interpretation of the model's symbolic terms
    def text_of(self, term, texts):
        """term: parsed [text] of the symbolic world -> str (may raise what the API raises)."""
        tag = term[0]
        if tag == 0:
            return ''.join(map(chr, term[1]))
        if tag == 4:
            return self.error_report
        sid = term[1][0] if tag == 3 else term[-1][0][0]
        key = json.dumps([term, texts[sid]])
        if key not in self.rendered:
            self.rendered[key] = self._render(term, texts)
        r = self.rendered[key]
        if isinstance(r, Exception):
            raise r
        return r

    def _render(self, term, texts):
        tag = term[0]
        out = io.StringIO()
        try:
            if tag == 3:
                (sid, close), = [term[1]]
                st = self.statement(texts[sid], close[0] if close else None)
                execute_print(self.conn.compile(st), out)
                return out.getvalue()
            (sstmt, numb) = term[-1]
            sid, close = sstmt
            desc, rows = self.results(texts[sid], close[0] if close else None, bool(numb))
            if tag == 1:
                expand, boxed, spaced, nullvalue, narrow, uni = term[1:7]
                query_render.render_text(desc, rows, self.dcontext, out, expand=bool(expand), boxed=bool(boxed),
                                         spaced=bool(spaced), nullvalue=''.join(map(chr, nullvalue)),
                                         narrow=bool(narrow), unicode=bool(uni))
            else:
                expand, nullvalue = term[1:3]
                query_render.render_csv(desc, rows, self.dcontext, out, expand=bool(expand),
                                        nullvalue=''.join(map(chr, nullvalue)))
            return out.getvalue()
        except Exception as e:  # noqa: BLE001
            return e


def fact_coq(f):
    return ('{| f_text := %s; f_parse_ok := %s; f_kind := %s; f_from := %s; f_close := %s; f_ok := %s; '
            'f_ok_closed := %s; f_empty := %s; f_empty_closed := %s |}' % (
                cstr(f['text']), cbool(f['parse_ok']), f['kind'], f['from'], f['close'], cbool(f['ok']),
                cbool(f['ok_closed']), cbool(f['empty']), cbool(f['empty_closed'])))


def directive_coq(e):
    return '{| q_name := %s; q_text := %s; q_date := %d |}' % (cstr(e.name), cstr(e.query_string), e.date.toordinal())


def state_coq(fmt, numberify):
    return (f'(update (update init_state (s2z "format") (SStr {cstr(fmt)})) (s2z "numberify") '
            f'(SBool {cbool(numberify)}))')


def texts_for(world, lines):
    """Every text the model may hand to the parser in this session, in table order."""
    texts = []
    for e in world.directives:
        if e.query_string not in texts:
            texts.append(e.query_string)
    for l in lines:
        t = l.strip()
        # lines starting with . ? ! are never handed to the parser; if the model did, the run reports it
        if t and t[0] not in '.?!' and t not in texts:
            texts.append(t)
    return texts


def session_expr(case):
    segs = []
    for key, lines in segments(case):
        world = World.get(key)
        texts = texts_for(world, lines)
        tbl = clist([fact_coq(world.fact(t)) for t in texts])
        qs = clist([directive_coq(e) for e in world.directives])
        segs.append(f'({tbl}, {qs}, {cbool(world.error_report is not None)}, ' + clist([cstr(l) for l in lines]) + ')')
    return (f'chain_out {cbool(bool(case.get("quiet")))} {state_coq(case["format"], case["numberify"])} '
            + clist(segs))


# --------------------------------------------------------------------------
# implementation side: a session on a real BQLShell

FIELDS = [f.name for f in dataclasses.fields(shell.Settings)]
# the keyword of BQLShell that carries --no-errors (absent on a tree where -q is not wired through)
QUIET_KW = 'no_errors' in inspect.signature(shell.BQLShell.__init__).parameters


def canon_state(settings):
    """vars(settings) in the form of o_state; anything that is not a typed field value is kept visible."""
    out = []
    for k, v in vars(settings).items():
        if isinstance(v, bool):
            out.append([[ord(c) for c in k], [0, int(v)]])
        elif isinstance(v, str):
            out.append([[ord(c) for c in k], [1, [ord(c) for c in v]]])
        elif isinstance(v, int):
            out.append([[ord(c) for c in k], [2, v]])
        else:
            out.append([[ord(c) for c in k], ['unmodelled', repr(v)]])
    return out


_private = [0]


def run_impl(case):
    rewrites = any(l.startswith(REWRITE) for l in case['lines'])
    if rewrites:
        # a file of its own: sessions run in parallel and this one changes its ledger
        _private[0] += 1
        path = os.path.join(WORK, f'session_{os.getpid()}_{_private[0]}.beancount')
        with open(path, 'w') as f:
            f.write(LEDGERS[case['ledger']])
    else:
        path = ledger_path(case['ledger'])
    outfile, so, se = io.StringIO(), io.StringIO(), io.StringIO()
    saved = warnings.showwarning
    steps = []
    try:
        with contextlib.redirect_stdout(so), contextlib.redirect_stderr(se), warnings.catch_warnings():
            warnings.simplefilter('always')
            kw = {'no_errors': True} if case.get('quiet') else {}
            sh = shell.BQLShell(path, so if case.get('same_stdout') else outfile,
                                format=case['format'], numberify=case['numberify'], **kw)
            for s in (outfile, so, se):
                s.seek(0)
                s.truncate()
            for line in case['lines']:
                if line.startswith(REWRITE):
                    with open(path, 'w') as f:
                        f.write(LEDGERS[line[len(REWRITE):]])
                    continue
                exc, ret = None, None
                try:
                    ret = sh.onecmd(line)
                except Exception as e:  # noqa: BLE001
                    exc = impl.exc_class(e) + ':' + str(e)[:200]
                steps.append({'out': outfile.getvalue(), 'stdout': so.getvalue(), 'stderr': se.getvalue(),
                              'exc': exc, 'stop': bool(ret), 'state': canon_state(sh.settings)})
                for s in (outfile, so, se):
                    s.seek(0)
                    s.truncate()
    finally:
        warnings.showwarning = saved
        if rewrites:
            with contextlib.suppress(OSError):
                os.unlink(path)
    return steps


def describe_expected(world, arg):
    def describe(obj):
        return '\n'.join(f'  {name} ({bqtypes.name(column.dtype)})' for name, column in obj.columns.items())
    out = ''
    for name in shlex.split(arg):
        table = world.conn.tables.get(name)
        if table:
            out += f'table {name}:\n' + describe(table) + '\n'
        datatype = bqtypes.TYPES.get(name)
        if datatype:
            out += f'structured type {name}:\n' + describe(datatype) + '\n'
    return out


def expected_step(world, texts, mstep, same_stdout):
    """Model step -> expected observation. Returns dict with per-channel text (None = not checked),
    exception class (None / str / '*'), stop flag, state."""
    events, stop, state = mstep
    chans = {0: '', 1: '', 2: ''}
    exc = None
    loose = False
    for ev in events:
        tag = ev[0]
        if tag == 0:
            try:
                chans[ev[1]] += world.text_of(ev[2], texts)
            except Exception as e:  # noqa: BLE001
                exc = impl.exc_class(e) + ':' + str(e)[:200]
                break
        elif tag == 1:
            chans[2] += 'warning: ' + ''.join(map(chr, ev[1])) + '\n'
        elif tag == 2:
            name, arg = ''.join(map(chr, ev[1])), ''.join(map(chr, ev[2]))
            if name == 'tables':
                chans[0] += '\n'.join(n for n in sorted(world.conn.tables.keys()) if n) + '\n'
            elif name == 'describe':
                try:
                    chans[0] += describe_expected(world, arg)
                except ValueError as e:
                    exc = 'other:ValueError:' + str(e)
            elif name in ('history', 'clear'):
                pass
            elif name == 'parse':
                try:
                    chans[1] += world.conn.parse(arg).tosexp() + '\n'
                except Exception as e:  # noqa: BLE001
                    exc = impl.exc_class(e) + ':' + str(e)[:200]
            elif name == 'explain':  # output not predicted, exceptions are
                loose = True
                try:
                    world.conn.compile(world.conn.parse(arg))
                except Exception as e:  # noqa: BLE001
                    exc = impl.exc_class(e) + ':' + str(e)[:200]
            else:  # help: output not predicted
                loose = True
        elif tag == 3:
            x = ev[1]
            if x[0] == 0:      # exception of the world: what the API raises on that text
                w = x[1]
                try:
                    if w[0] == 0:
                        world.conn.parse(texts[w[1]])
                    elif w[0] == 1:
                        sid, close = w[1]
                        st = world.statement(texts[sid], close[0] if close else None)
                        if isinstance(st, bqparser.ast.Print):
                            execute_print(world.conn.compile(st), io.StringIO())
                        else:
                            world.conn.execute(st).fetchall()
                    else:
                        exc = 'harness:text-not-in-table:' + ''.join(map(chr, w[1]))
                        continue
                    exc = 'model-expected-an-exception-the-API-does-not-raise'
                except Exception as e:  # noqa: BLE001
                    exc = impl.exc_class(e) + ':' + str(e)[:200]
            elif x[0] == 1:
                exc = 'other:ValueError:' + ''.join(map(chr, x[1]))
            elif x[0] == 2:
                exc = 'other:IndexError:list index out of range'
            else:
                exc = 'other:NotImplementedError:'
    if same_stdout:
        # outfile is sys.stdout: both channels are one stream, in event order
        merged = ''
        for ev in events:
            if ev[0] == 0 and ev[1] in (0, 1):
                try:
                    merged += world.text_of(ev[2], texts)
                except Exception:  # noqa: BLE001
                    break
        if not any(ev[0] == 2 for ev in events):
            chans[0], chans[1] = '', merged
        else:
            chans[0], chans[1] = '', chans[0] + chans[1]
    return {'out': chans[0], 'stdout': chans[1], 'stderr': chans[2], 'exc': exc, 'stop': bool(stop),
            'state': state, 'loose': loose}


def compare_session(case, impl_steps, model_steps):
    """-> None or (index, description)."""
    if len(impl_steps) != len(model_steps) or len(impl_steps) != len(real_lines(case)):
        return (0, [('step count', len(impl_steps), len(model_steps))])
    # the world (fresh connection of the harness over that version of the ledger) in effect at every line
    where = []
    for key, lines in segments(case):
        world = World.get(key)
        texts = texts_for(world, lines)
        where.extend((world, texts) for _ in lines)
    index = [k for k, l in enumerate(case['lines']) if not l.startswith(REWRITE)]
    for j, (a, m) in enumerate(zip(impl_steps, model_steps)):
        world, texts = where[j]
        i = index[j]
        e = expected_step(world, texts, m, case.get('same_stdout'))
        diffs = []
        if a['state'] != e['state']:
            diffs.append(('settings', a['state'], e['state']))
        if a['stop'] != e['stop']:
            diffs.append(('return', a['stop'], e['stop']))
        if a['exc'] != e['exc']:
            diffs.append(('exception', a['exc'], e['exc']))
        if e['loose']:
            if a['stderr'] != e['stderr']:
                diffs.append(('stderr', a['stderr'], e['stderr']))
        else:
            for ch in ('out', 'stdout', 'stderr'):
                if a[ch] != e[ch]:
                    diffs.append((ch, a[ch], e[ch]))
        if diffs:
            return (i, diffs)
    return None


def decode_state(st):
    d = {}
    for k, v in st:
        d[''.join(map(chr, k))] = (bool(v[1]) if v[0] == 0 else ''.join(map(chr, v[1])) if v[0] == 1 else v[1])
    return d


# --------------------------------------------------------------------------
# generators

BOOL_OK = ['1', 'true', 't', 'yes', 'y', 'on', '0', 'false', 'f', 'no', 'n', 'off',
           'TRUE', 'Yes', 'oN', 'F', '" on "', '"off"', "'y'", '"\tno"', 'O\\n']
BOOL_BAD = ['maybe', '2', '""', 'tru', 'yess', 'o n', '"o n"', '01', '-1', 'None', 'onn', 'é']
FMT_VALS = ['text', 'csv', 'csv', 'text', 'Text', 'xml', '"csv"', "'text'", '"csv "', 'CSV', '""', 'c\\sv', 'beancount']
STR_VALS = ['NULL', '-', '""', "''", '"a b"', "it's", '"it\'s"', 'a\\ b', '\\', 'é', '"x\\"y"', '"\\n"', 'a"b"c',
            '—', '"', "'\"'", '"\'\\\\"', 'n/a', '0', 'true', '"\t"', '"q\'"\'"\'', '\\\\', '"a\\b"', '~']
BOOL_FIELDS = [f.name for f in dataclasses.fields(shell.Settings) if f.type is bool]
OTHER_NAMES = ['nope', 'getstr', 'setstr', 'todict', '_parse_bool', '_parse_format', '__doc__', '__class__',
               '__dict__', '__module__', 'Boxed', 'BOXED', '""', 'format.x', 'boxed;', '__init__', '__eq__']
SET_HEADS = ['.set', '.set', '.set', '.set', 'set', 'SET', 'Set', '.SET', ' .set', '.set\t', '  set', '.set ']
SEPS = [' ', ' ', ' ', '  ', '\t', ' \t ']

TYPED = [
    "SELECT date, payee, account, position, balance",
    "SELECT account, sum(position) AS total GROUP BY account",
    "SELECT 1 AS a_rather_long_header, 'x' AS s",
    "SELECT account WHERE account = 'Nope'",
    "SELECT date, account, position FROM year = 2022 CLOSE ON 2022-02-01",
    "SELECT date, account, position FROM year = 2022",
    "SELECT payee, narration, position, cost(position) AS c WHERE payee IS NULL",
    "SELECT account, units(sum(position)) AS u, cost(sum(position)) AS c GROUP BY 1",
    "SELECT DISTINCT account, currency ORDER BY 1, 2",
    "SELECT account, number WHERE number > 1000",
    "BALANCES",
    "BALANCES AT cost FROM year = 2022",
    "JOURNAL 'Assets:Checking'",
    "JOURNAL 'Nope'",
    "PRINT FROM year = 2023",
    "PRINT",
]
GARBAGE = ['foo', 'SELECT FROM WHERE', 'SELECT nosuchcolumn', 'selectx 1', 'select.x', 'print.x', 'set.x 1',
           'sets boxed 1', 'runs food', 'select', 'exit now please', '-- comment', '; comment', '(select 1)',
           "'select 1'", '*', '#', '1', 'é', 'helpme', 'history1', 'parsee select 1', 'EOFX', 'eof']
DOTS = ['.foo', '.select 1', '..set', '.', '. set', '!ls', '!', '?set', '?', '? select', '', '   ', '\t', '.exit', 'quit',
        'EOF', '.EOF', 'exit', '.quit', '.Exit', '.eof', '.tables', '.tables x', '.describe accounts', '.describe postings amount',
        '.describe nope', ".describe 'x", '.explain select 1', '.explain SELECT account, sum(position) GROUP BY 1',
        '.explain foo', '.help', '.help set', 'help select', '.help nosuch', '.errors', 'errors', '.reload',
        '.parse select 1', 'parse select 1 as x', '.parse foo', '.history', 'history', '.clear', 'clear', '.shell ls',
        '.set.x', '.run.x', '.1', '._', '.help.set', '.SELECT 1', '.é', '.set; 1']
RUNS = ['.run', '.run ', '.run;', 'run', 'RUN', '.run *', 'run *', '.run * ;', '.run food', '.run food;', '.run fromq',
        '.run early', '.run closed', '.run closeplain', '.run openonly', '.run bal', '.run jrn', '.run pr', '.run tab',
        '.run sub', '.run none', '.run Zed', '.run zed', '.run my-query', '.run "two words"', '.run two words',
        ".run 'food'", '.run "food', '.run nope', '.run bad', '.run nocol', '.run zlast', 'run food', 'RUN "food"',
        '.run food extra', '.run \\', '.run ""', '.RUN food', '.run\tfood', '.run  food  ', '.run *x', '.run **']


def vary(rng, q):
    r = rng.random()
    if r < 0.15:
        q = q + ';'
    elif r < 0.25:
        q = q + ' ;'
    elif r < 0.30:
        q = q + '; trailing comment'
    r = rng.random()
    if r < 0.15:
        head, _, tail = q.partition(' ')
        q = rng.choice([head.lower(), head.capitalize(), head.swapcase()]) + _ + tail
    r = rng.random()
    if r < 0.2:
        q = rng.choice(['  ', '\t', '\n', ' \n ']) + q + rng.choice(['', ' ', '\n'])
    return q


def gen_set(rng):
    head = rng.choice(SET_HEADS)
    r = rng.random()
    if r < 0.12:
        return head
    if r < 0.22:
        name = rng.choice(FIELDS + OTHER_NAMES)
        return head + rng.choice(SEPS) + name
    if r < 0.30:
        return head + ' ' + ' '.join(rng.choice(FIELDS + ['x', '1', 'on']) for _ in range(rng.randint(3, 4)))
    r = rng.random()
    if r < 0.45:
        name = rng.choice(BOOL_FIELDS)
        val = rng.choice(BOOL_OK) if rng.random() < 0.7 else rng.choice(BOOL_BAD + FMT_VALS + STR_VALS)
    elif r < 0.65:
        name = 'format'
        val = rng.choice(FMT_VALS) if rng.random() < 0.85 else rng.choice(BOOL_OK + STR_VALS)
    elif r < 0.85:
        name = 'nullvalue'
        val = rng.choice(STR_VALS) if rng.random() < 0.85 else rng.choice(BOOL_OK + FMT_VALS)
    else:
        name = rng.choice(OTHER_NAMES)
        val = rng.choice(BOOL_OK + FMT_VALS + STR_VALS)
    return head + rng.choice(SEPS) + name + rng.choice(SEPS) + val + rng.choice(['', '', ' ', '\t'])


def gen_line(rng):
    r = rng.random()
    if r < 0.40:
        return gen_set(rng)
    if r < 0.66:
        return vary(rng, rng.choice(TYPED))
    if r < 0.74:
        return rng.choice(GARBAGE)
    if r < 0.87:
        return rng.choice(RUNS)
    return rng.choice(DOTS)


NONDEFAULT = ['boxed 1', 'expand on', 'spaced yes', 'unicode t', 'narrow 0', 'narrow off', 'numberify y', 'boxed TRUE',
              'nullvalue NULL', 'nullvalue "- -"', "nullvalue '?'", 'format csv', 'format text', 'expand 1', 'unicode Yes',
              'numberify on', 'pager no', 'narrow f', 'spaced T']
RUN_OK = ['.run food', '.run fromq', '.run early', '.run closed', '.run openonly', '.run bal', '.run jrn', '.run none',
          '.run my-query', '.run *', '.run sub', '.run zlast']


POS_QUERIES = ["SELECT account, sum(position) AS bal WHERE account ~ 'Assets' GROUP BY account ORDER BY account",
               "SELECT date, account, position", "BALANCES", "SELECT account, units(sum(position)) AS u GROUP BY 1",
               "JOURNAL 'Assets:Coins'", "JOURNAL 'Assets:Checking'", ".run coins", ".run later", ".run food", ".run *",
               "SELECT account, sum(position) AS total GROUP BY account", "PRINT FROM year = 2020"]


def gen_reload_session(rng):
    """The ledger file is rewritten (other precisions, other named queries) and reloaded during the session."""
    cur = rng.choice(['P1', 'P2', 'P1', 'P1', 'A', 'B'])
    case = {'ledger': cur, 'format': rng.choice(['text', 'csv']), 'numberify': rng.random() < 0.5,
            'same_stdout': rng.random() < 0.15, 'quiet': QUIET_KW and rng.random() < 0.2}
    lines = []
    if rng.random() < 0.4:
        lines.append('.set numberify ' + rng.choice(['1', 'on', '0']))
    for _ in range(rng.randint(0, 2)):
        lines.append(rng.choice(POS_QUERIES))
    for _ in range(rng.randint(1, 2)):
        new = rng.choice([k for k in ('P1', 'P2', 'P2', 'A', 'B') if k != cur])
        lines.append(REWRITE + new)
        if rng.random() < 0.3:
            lines.append(rng.choice(POS_QUERIES))      # file changed, not reloaded yet: still the old ledger
        lines.append(rng.choice(['.reload', '.reload', '.reload ', ' .reload']))
        cur = new
        if rng.random() < 0.3:
            lines.append('.set numberify ' + rng.choice(['1', 'yes', '0', 'off']))
        for _ in range(rng.randint(1, 2)):
            lines.append(rng.choice(POS_QUERIES))
    case['lines'] = lines[:12]
    return case


def gen_session(rng, maxlen=12):
    if rng.random() < 0.2:
        return gen_reload_session(rng)
    n = rng.randint(1, maxlen)
    lines = []
    if rng.random() < 0.5:
        # configured session: several settings away from their defaults, then statements
        for v in rng.sample(NONDEFAULT, rng.randint(1, 5)):
            lines.append(rng.choice(['.set ', '.set ', 'set ', '.set\t']) + v)
        for _ in range(rng.randint(1, 4)):
            r = rng.random()
            if r < 0.65:
                lines.append(vary(rng, rng.choice(TYPED[:10] if r < 0.5 else TYPED)))
            elif r < 0.85:
                lines.append(rng.choice(RUN_OK))
            else:
                lines.append('.set ' + rng.choice(NONDEFAULT))
        if rng.random() < 0.5:
            lines.append('.set')
        rng.shuffle(lines) if rng.random() < 0.15 else None
    else:
        for _ in range(n):
            lines.append(gen_line(rng))
            if rng.random() < 0.5:
                lines.append('.set')
    lines = lines[:maxlen]
    return {'ledger': rng.choice(['A', 'A', 'A', 'B', 'C', 'C']), 'format': rng.choice(['text', 'text', 'csv']),
            'numberify': rng.random() < 0.25, 'same_stdout': rng.random() < 0.2,
            'quiet': QUIET_KW and rng.random() < 0.3, 'lines': lines}


# fix-G: `.run NAME` for names that need quoting.  Spellings of one name on the command line:
RUN_SPELLINGS = ('dq', 'sq', 'posix', 'backslash', 'raw', 'split-quotes', 'dq-padded')
RUN_HEADS = ['.run ', '.run ', '.run ', '.run  ', '.run\t', 'run ', 'RUN ', ' .run ']
RUN_UNKNOWN = ['no such query', 'monthly  expenses', 'Monthly Expenses', 'monthly expenses ', 'expenses monthly', "john's", 'tab name',
               'padded', 'a b', 'say hi', '* star', ' ']


def spell(name, how):
    """One way of writing `name` as the argument of `.run`; 'raw' and 'dq-padded' do NOT denote the name in general."""
    if how == 'dq':
        return '"' + name.replace('\\', '\\\\').replace('"', '\\"') + '"'
    if how == 'sq':
        return "'" + name.replace("'", "'\"'\"'") + "'"
    if how == 'posix':
        return shlex.quote(name)
    if how == 'backslash':
        return ''.join(c if c.isalnum() else '\\' + c for c in name) or "''"
    if how == 'split-quotes':      # adjacent quoted pieces are one word: "mon"'thly exp'"enses"
        k = len(name) // 2
        return spell(name[:k], 'dq') + spell(name[k:], 'sq')
    if how == 'dq-padded':
        return '" ' + name.replace('\\', '\\\\').replace('"', '\\"') + '"'
    return name


def run_line(rng, name, how):
    return rng.choice(RUN_HEADS) + spell(name, how) + rng.choice(['', '', '', ';', ' ;', '  ', '\t;'])


def run_grid_sessions():
    """Every named query of ledger N x every spelling, under the default settings: 7 lines per session."""
    names = list(dict.fromkeys(n for _, n, _ in QUERIES_N))
    lines = ['.run ' + spell(n, how) for n in names for how in RUN_SPELLINGS]
    lines += ['.run ' + spell(n, how) for n in RUN_UNKNOWN for how in ('dq', 'sq', 'raw')]
    return [{'ledger': 'N', 'format': 'text', 'numberify': False, 'lines': lines[k:k + 7], 'stream': 'run-names'}
            for k in range(0, len(lines), 7)]


def gen_run_session(rng):
    """`.run` of names with blanks / quotes / apostrophes, quoted, unquoted, mixed with other names, next to typing the
    same query text (no default CLOSE date), under varied settings."""
    names = list(dict.fromkeys(n for _, n, _ in QUERIES_N))
    text_of = {}
    for _, n, t in QUERIES_N:
        text_of.setdefault(n, t)
    lines = []
    for v in rng.sample(NONDEFAULT, rng.randint(0, 3)):
        lines.append('.set ' + v)
    for _ in range(rng.randint(2, 5)):
        r = rng.random()
        name = rng.choice(names)
        if r < 0.50:
            lines.append(run_line(rng, name, rng.choice(RUN_SPELLINGS)))
        elif r < 0.62:      # two words on the line: another name, an option-like word, a quoted empty word
            other = rng.choice(names + ['extra', '-x', ''])
            a, b = spell(name, rng.choice(('dq', 'sq', 'posix'))), spell(other, rng.choice(('dq', 'sq', 'posix', 'raw')))
            lines.append(rng.choice(RUN_HEADS) + rng.choice([a + ' ' + b, b + ' ' + a, a + '\t' + b, a + b]))
        elif r < 0.74:
            lines.append(run_line(rng, rng.choice(RUN_UNKNOWN), rng.choice(('dq', 'sq', 'posix', 'raw'))))
        elif r < 0.82:      # unbalanced quoting
            q = rng.choice('"\'')
            lines.append('.run ' + rng.choice([q + name, name + q, q + name + q + q, '\\']))
        elif r < 0.92:
            lines.append(text_of[name])        # typed: same text, no default CLOSE date
        else:
            lines.append(rng.choice(['.run', '.run *', '.set format ' + rng.choice(['csv', 'text'])]))
    return {'ledger': 'N', 'format': rng.choice(['text', 'text', 'csv']), 'numberify': rng.random() < 0.25,
            'same_stdout': rng.random() < 0.2, 'quiet': QUIET_KW and rng.random() < 0.2, 'lines': lines, 'stream': 'run-names'}


CORPUS = [
    # round 8 (seed C19-m15: parsed statements cached by text, `.run` writes its default CLOSE date into the cached statement):
    # a named query run with `.run`, then the IDENTICAL text typed (and the other way round), same text under several names
    {'ledger': 'A', 'format': 'text', 'numberify': False,
     'lines': ['.run fromq', 'SELECT date, account, position FROM year = 2022', '.run fromq', '.run food',
               "SELECT date, account, position WHERE account ~ 'Food'", '.run none', 'SELECT date, account FROM year = 2022',
               '.run *', 'SELECT date, account, position FROM year = 2022', 'BALANCES FROM year = 2022', '.run bal',
               'BALANCES FROM year = 2022']},
    {'ledger': 'A', 'format': 'csv', 'numberify': False,
     'lines': ['SELECT date, account, position FROM year = 2022', '.run fromq', 'SELECT date, account, position FROM year = 2022',
               "JOURNAL 'Checking' FROM year = 2022", '.run jrn', "JOURNAL 'Checking' FROM year = 2022",
               'SELECT date, account, position FROM OPEN ON 2022-01-01', '.run openonly',
               'SELECT date, account, position FROM OPEN ON 2022-01-01']},
    # round 8 (seed C19-m16: the default CLOSE date of `.run` kept as shell state and not reset when the named query fails):
    # a `.run` of a named query that does not parse / does not compile, then statements with a FROM clause and no CLOSE
    {'ledger': 'C', 'format': 'text', 'numberify': False,
     'lines': ['.run bad', 'SELECT date, account, position FROM year = 2022', '.run nocol',
               'SELECT date, account, position FROM year = 2022', 'BALANCES FROM year = 2022', '.run fromq',
               'SELECT date, account, position FROM year = 2022', '.run *', 'SELECT date, account, position FROM year = 2022',
               "JOURNAL 'Checking' FROM year = 2022"]},
    {'ledger': 'C', 'format': 'csv', 'numberify': True,
     'lines': ['.run nocol', 'BALANCES FROM year = 2022', '.run bad', "JOURNAL 'Checking' FROM year = 2022",
               'SELECT date, account, position FROM OPEN ON 2022-01-01', '.run *', 'PRINT FROM year = 2022']},
    {'ledger': 'A', 'format': 'text', 'numberify': False, 'lines': ['.set getstr 1']},
    {'ledger': 'A', 'format': 'text', 'numberify': False, 'lines': ['.set getstr']},
    {'ledger': 'A', 'format': 'text', 'numberify': False, 'lines': ['.set __doc__ zz', '.set']},
    {'ledger': 'A', 'format': 'text', 'numberify': False,
     'lines': ['.set boxed yes', '.set', '.set boxed maybe', '.set', '.set nope 1', '.set nullvalue "a b"', '.set nullvalue',
               'SELECT date, payee, account, position, balance', '.set format csv', '.run fromq', '.run *']},
    {'ledger': 'C', 'format': 'csv', 'numberify': True,
     'lines': ['.run *', 'BALANCES', '.set format text', '.set expand 1', '.set unicode on', '.set boxed t',
               'SELECT account, sum(position) AS total GROUP BY account', '.errors', '.reload', 'foo']},
    {'ledger': 'B', 'format': 'text', 'numberify': False,
     'lines': [x for v in ['1', 'true', 't', 'yes', 'y', 'on'] for x in ('.set spaced ' + v, '.set spaced', '.set spaced 0')]},
    {'ledger': 'B', 'format': 'text', 'numberify': False,
     'lines': [x for v in ['0', 'false', 'f', 'no', 'n', 'off'] for x in ('.set narrow ' + v, '.set narrow', '.set narrow 1')]},
    {'ledger': 'A', 'format': 'text', 'numberify': False,
     'lines': ['.set narrow 0', "SELECT 1 AS a_rather_long_header, 'x' AS s", '.set boxed 1', '.set unicode 1',
               'SELECT date, payee, account, position, balance', '.set expand 1', '.set spaced 1', '.set nullvalue ~',
               'SELECT date, payee, account, position, balance', '.set numberify 1',
               'SELECT account, sum(position) AS total GROUP BY account', '.run fromq']},
    {'ledger': 'P1', 'format': 'csv', 'numberify': True,
     'lines': [POS_QUERIES[0], REWRITE + 'P2', POS_QUERIES[0], '.reload', POS_QUERIES[0], '.run later', '.set numberify 0',
               POS_QUERIES[0]]},
    {'ledger': 'P2', 'format': 'text', 'numberify': False,
     'lines': ['.run later', '.set numberify on', 'BALANCES', REWRITE + 'P1', '.reload', 'BALANCES', '.run later', '.run coins',
               REWRITE + 'A', '.reload', '.run food', 'BALANCES']},
    {'ledger': 'B', 'format': 'text', 'numberify': False, 'same_stdout': True,
     'lines': ['.run', '.run *', '.run x', "SELECT account WHERE account = 'Nope'", '.set narrow 0',
               "SELECT 1 AS a_rather_long_header, 'x' AS s", '.set spaced y', 'JOURNAL \'Assets:Checking\'', 'EOF']},
]


def grid_sessions():
    """Every field x every listed value of its kind (and of the other kinds): assign, echo, list."""
    out = []
    vals = BOOL_OK + BOOL_BAD + FMT_VALS + STR_VALS
    for name in FIELDS:
        for chunk in range(0, len(vals), 4):
            lines = []
            for v in vals[chunk:chunk + 4]:
                lines += [f'.set {name} {v}', f'.set {name}']
            out.append({'ledger': 'B', 'format': 'text', 'numberify': False, 'lines': lines + ['.set']})
    return out


def show(case):
    return '[%s;%s;%d%s%s] ' % (case['ledger'], case['format'], case['numberify'],
                                ';stdout' if case.get('same_stdout') else '', ';quiet' if case.get('quiet') else '') + ' | '.join(repr(l)[1:-1] for l in case['lines'])


def coq_eval(tag, exprs, shard):
    """core.coq_eval; a shard whose coqc was killed (shared machine, OOM killer) is retried once, in halves."""
    try:
        return core.coq_eval(tag, ['Model.Shell'], exprs, shard=shard)
    except RuntimeError as e:
        core.log(f'[C19] coqc failed once ({str(e)[:80]!r}...), retrying')
        import time
        time.sleep(5)
        out = []
        for k in range(0, len(exprs), 200):
            out.extend(core.coq_eval(tag + 'r', ['Model.Shell'], exprs[k:k + 200], shard=shard))
        return out


def model_sessions(cases, tag='c19'):
    exprs = [session_expr(c) for c in cases]
    return coq_eval(tag, exprs, 20)


def _check_case(args):
    case, m = args
    try:
        return compare_session(case, run_impl(case), m)
    except Exception as e:  # noqa: BLE001
        import traceback
        return (0, [('harness-exception', repr(e), traceback.format_exc()[-1500:])])


def disagree_many_for(case):
    def fn(cands):
        cs = [dict(case, lines=list(c)) for c in cands]
        ms = model_sessions(cs, tag='c19s')
        return [_check_case((c, m)) is not None for c, m in zip(cs, ms)]
    return fn


# --------------------------------------------------------------------------
# pure helpers of the model against CPython / an instrumented shell

class Probe(shell.DispatchingShell):
    """onecmd/parseline of the real shell with every handler replaced by a recorder."""
    def __init__(self):
        self.log = []
        super().__init__(io.StringIO(), False, False, shell.Settings())

    def execute(self, query, **kwargs):
        self.log.append([1, [ord(c) for c in query]])

    def error(self, message):
        self.log.append(['error', message])

    def warning(self, message, *args):
        self.log.append(['warning', str(message)])


def _mk(name):
    def rec(self, arg):
        self.log.append([2, name, [ord(c) for c in arg]])
    return rec


# (only the command names are needed here; the fail-closed parts of introspect() belong to generate(), so that a
# shell whose dispatch no longer has the expected shape is reported as a broken tie, not as an import error)
for _n in command_names():
    setattr(Probe, 'do_' + _n, _mk(_n))

PIECES = ['.', '.', '?', '!', ' ', ' ', '\t', 'set', 'SET', 'run', 'select', 'SELECT', 'EOF', 'help', 'x', '_', '1', ';',
          '"', "'", '*', '-', '\n', '\x0b', '\xa0', '\x1c', ' ', 'é', 'exit', 'quit', 'print', 'history', 'clear',
          'errors', 'parse', 'tables', 'balances', 'journal', 'Quit', 'shell', 'reload', 'describe', 'explain', 'a b']


def classify_impl(line):
    saved = warnings.showwarning
    try:
        with warnings.catch_warnings():
            warnings.simplefilter('always')
            p = Probe()
            try:
                p.onecmd(line)
            except Exception as e:  # noqa: BLE001
                return ['exception', repr(e)]
    finally:
        warnings.showwarning = saved
    warned = [x for x in p.log if x[0] == 'warning']
    errs = [x for x in p.log if x[0] == 'error']
    rest = [x for x in p.log if x[0] in (1, 2)]
    if not p.log:
        return [0]
    if errs:
        m = errs[0][1]
        assert m.startswith('unknown command "') and m.endswith('"'), m
        return [2, int(bool(warned)), [ord(c) for c in m[len('unknown command "'):-1]], None]
    if rest and rest[0][0] == 1:
        return rest[0] if not warned else ['warned-query']
    name, arg = rest[0][1], rest[0][2]
    if warned:
        want = f'commands without "." prefix are deprecated. use ".{name}" instead'
        if warned[0][1] != want:
            return ['warning-text', warned[0][1]]
    return [2, int(bool(warned)), [ord(c) for c in name], arg]


def pure_cases(rng, n):
    violations = []
    count = 0
    # classification
    lines = set(DOTS + RUNS + GARBAGE + TYPED + [gen_set(rng) for _ in range(n // 4)])
    for _ in range(n):
        lines.add(''.join(rng.choice(PIECES) for _ in range(rng.randint(1, 5))))
    lines = sorted(lines)
    model = coq_eval('c19c', [f'classify_out {cstr(l)}' for l in lines], 400)
    hist = {'empty': 0, 'query': 0, 'command': 0, 'legacy-command': 0, 'unknown-command': 0}
    known = set(command_names())
    for l, m in zip(lines, model):
        a = classify_impl(l)
        count += 1
        mm = list(m)
        if mm[0] == 2:
            name = ''.join(map(chr, mm[2]))
            hist['unknown-command' if name not in known else 'legacy-command' if mm[1] else 'command'] += 1
            if name not in known:
                mm = [2, mm[1], mm[2], None]
        else:
            hist['empty' if mm[0] == 0 else 'query'] += 1
        if a != mm:
            violations.append(core.Violation(
                'dispatch', f'line {l!r}: shell dispatches {a}, model classify gives {mm}',
                {'line': l, 'impl': a, 'model': mm}, signature='dispatch:' + repr(l)))
            if len(violations) >= 2:
                break
    # shlex.split, repr, strip, int
    alpha = [' ', ' ', '\t', '\n', '\r', '"', "'", '\\', 'a', 'b', 'é', '#', ';', '\x0b', '\x00', '\x7f', '\xa0',
             '\xad', '—', '1', '_', '-', '+', '0']
    strs = set(STR_VALS + BOOL_OK + BOOL_BAD + FMT_VALS)
    for _ in range(n):
        strs.add(''.join(rng.choice(alpha) for _ in range(rng.randint(0, 7))))
    strs = sorted(strs)
    exprs, want, labels = [], [], []
    for s in strs:
        exprs.append(f'shlex_out {cstr(s)}')
        labels.append(f'shlex.split({s!r})')
        try:
            want.append([0, [[ord(c) for c in t] for t in shlex.split(s)]])
        except ValueError as e:
            want.append([1] if 'quotation' in str(e) else [2])
        exprs.append(f'repr_out {cstr(s)}')
        labels.append(f'repr({s!r})')
        want.append([ord(c) for c in repr(s)])
        exprs.append(f'strip_out {cstr(s)}')
        labels.append(f'{s!r}.strip()')
        want.append([ord(c) for c in s.strip()])
        if all(ord(c) < 128 for c in s):
            exprs.append(f'int_out {cstr(s)}')
            labels.append(f'int({s!r})')
            try:
                want.append([int(s)])
            except ValueError:
                want.append([])
    got = coq_eval('c19p', exprs, 600)
    count += len(exprs)
    for lab, g, w in zip(labels, got, want):
        if g != w:
            violations.append(core.Violation('model-helper', f'{lab}: CPython {w}, model {g}',
                                             {'expr': lab, 'python': w, 'model': g}, signature='helper:' + lab))
            break
    return count, hist, violations


# --------------------------------------------------------------------------
# command line

CLI_QUERIES = [
    ["SELECT date, payee, account, position, balance"],
    ["SELECT account, sum(position) AS total GROUP BY account"],
    ["SELECT", "account,", "sum(position)", "GROUP", "BY", "1"],
    ["SELECT account WHERE account = 'Nope'"],
    ["BALANCES"],
    ["PRINT FROM year = 2023"],
    [".run food"], [".run", "fromq"], [".run"], [".run *"], [".set"], [".tables"], [".errors"], [".set boxed 1"],
    ["foo"], ["SELECT nosuchcolumn"], [".nosuch"], ["set"],
    None, None,
]
CLI_STDIN = ["SELECT account, sum(position) AS total GROUP BY account;\n", ".run food\n", "  \n", ".set\n",
             "SELECT 1 AS x\n"]


def gen_cli(rng, k):
    q = rng.choice(CLI_QUERIES)
    return {
        'ledger': rng.choice(['B', 'C', 'C']),
        'format': rng.choice([None, 'text', 'csv', 'csv']),
        'fmt_long': rng.random() < 0.5,
        'numberify': rng.random() < 0.4,
        'output': (f'out_{k}.txt' if rng.random() < 0.4 else None),
        'quiet': rng.random() < 0.5,
        'query': q,
        'stdin': rng.choice(CLI_STDIN) if q is None else '',
    }


# fix-G: the name of the -o file must not matter: names ending in every FORMATS key (both letter cases) and in other
# extensions, crossed with explicit / absent -f and -m.  The expected file content is the model's: the renderer of the
# EXPLICIT -f (text when absent) applied to the API result.
CLI_RENDERED = [["SELECT date, payee, account, position, balance"],
                ["SELECT account, sum(position) AS total GROUP BY account"],
                ["BALANCES"], [".run fromq"], [".run", "food"],
                ["SELECT account WHERE account = 'Nope'"]]


def cli_output_names():
    keys = sorted(shell.FORMATS.keys())
    exts = []
    for k in keys:
        exts += ['.' + k, '.' + k.upper(), '.' + k.capitalize()]
    for k in keys:
        exts += ['.' + k + '.bak', '.' + k + '.', '_' + k, '.x' + k]
    exts += ['', '.txt', '.json', '.', '.tsv']
    return ['report' + e for e in exts] + keys       # a file called just `csv` / `text`


def cli_output_grid(rng, full):
    out = []
    names = cli_output_names()
    fmts = sorted(shell.FORMATS.keys()) + [None]        # explicit -f first: those are reported first
    k = 0
    for i, name in enumerate(names):
        sensitive = i < 3 * len(shell.FORMATS)          # `.key` in some letter case
        for fmt in fmts:
            for numb in (False, True):
                if not (full or sensitive or rng.random() < 0.5):
                    continue
                k += 1
                out.append({'ledger': rng.choice(['B', 'C']), 'format': fmt, 'fmt_long': bool(k % 2), 'numberify': numb,
                            'output': f'g{k}_{name}', 'quiet': rng.random() < 0.7, 'query': rng.choice(CLI_RENDERED[:5] if k % 7 else CLI_RENDERED),
                            'stdin': '', 'stream': 'output-name'})
    return out


def output_ext(case):
    """What of the -o name goes into a signature: its extension, or the whole name when it is a FORMATS key."""
    if not case.get('output'):
        return None
    base = case['output'].split('_', 1)[-1]
    ext = os.path.splitext(base)[1]
    if ext in ('', '.txt'):
        return base if base.lower() in shell.FORMATS else None
    return '*' + ext


def cli_args(case):
    args = []
    if case['format']:
        args += (['--format=' + case['format']] if case['fmt_long'] else ['-f', case['format']])
    if case['numberify']:
        args.append('-m' if case['fmt_long'] else '--numberify')
    if case['output']:
        args += ['-o', os.path.join(WORK, case['output'])]
    if case['quiet']:
        args.append('-q' if case['fmt_long'] else '--no-errors')
    return args + [ledger_path(case['ledger'])] + list(case['query'] or [])


def cli_expr(case):
    world = World.get(case['ledger'])
    line = ' '.join(case['query']) if case['query'] else case['stdin']
    texts = texts_for(world, [line])
    tbl = clist([fact_coq(world.fact(t)) for t in texts])
    qs = clist([directive_coq(e) for e in world.directives])
    c = ('{| c_format := %s; c_numberify := %s; c_output := %s; c_quiet := %s; c_query := %s; c_stdin := %s |}' % (
        cstr(case['format'] or 'text'), cbool(case['numberify']), copt(case['output'], cstr), cbool(case['quiet']),
        clist([cstr(w) for w in (case['query'] or [])]), cstr(case['stdin'])))
    return f'cli_out {tbl} {qs} {cbool(world.error_report is not None)} {c}'


def run_cli(case):
    import click.testing
    init_filename, history_filename = shell.INIT_FILENAME, shell.HISTORY_FILENAME
    saved = warnings.showwarning
    target = os.path.join(WORK, case['output']) if case['output'] else None
    if target and os.path.exists(target):
        os.unlink(target)
    try:
        shell.INIT_FILENAME = ''
        shell.HISTORY_FILENAME = ''
        with warnings.catch_warnings():
            warnings.simplefilter('always')
            runner = click.testing.CliRunner()
            result = runner.invoke(shell.main, cli_args(case), input=case['stdin'])
    finally:
        shell.INIT_FILENAME, shell.HISTORY_FILENAME = init_filename, history_filename
        warnings.showwarning = saved
    # click.File('w') opens lazily: a run that writes nothing leaves no file; treated as an empty one
    content = '' if target else None
    if target and os.path.exists(target):
        with open(target, newline='') as f:
            content = f.read()
        os.unlink(target)
    exc = None
    if result.exception is not None and not isinstance(result.exception, SystemExit):
        exc = impl.exc_class(result.exception) + ':' + str(result.exception)[:200]
    # Result.stdout/.stderr normalise \r\n to \n; the csv writer's line ends matter, so decode the bytes
    return {'stdout': result.stdout_bytes.decode('utf-8'), 'stderr': result.stderr_bytes.decode('utf-8'),
            'file': content, 'exit': result.exit_code, 'exc': exc}


def expected_cli(case, m):
    world = World.get(case['ledger'])
    line = ' '.join(case['query']) if case['query'] else case['stdin']
    texts = texts_for(world, [line])
    startup, target, events, state = m
    s0 = expected_step(world, texts, (startup, 0, state), same_stdout=False)
    e = expected_step(world, texts, (events, 0, state), same_stdout=False)
    stderr = s0['stderr'] + e['stderr']
    if target:
        stdout, content = e['stdout'], e['out']
    else:
        es = expected_step(world, texts, (events, 0, state), same_stdout=True)
        stdout, content = es['stdout'], None
    return {'stdout': stdout, 'stderr': stderr, 'file': content, 'exit': 1 if e['exc'] else 0, 'exc': e['exc'],
            'loose': e['loose']}


def check_cli(args):
    case, m = args
    try:
        a = run_cli(case)
        e = expected_cli(case, m)
        loose = e.pop('loose')
        diffs = [(k, a[k], e[k]) for k in ('stdout', 'stderr', 'file', 'exit', 'exc')
                 if a[k] != e[k] and not (loose and k in ('stdout', 'file'))]
        return diffs or None
    except Exception as ex:  # noqa: BLE001
        import traceback
        return [('harness-exception', repr(ex), traceback.format_exc()[-1500:])]


def show_cli(case):
    a = cli_args(case)
    a = [os.path.basename(x) if x.startswith(WORK) else x for x in a]
    return 'bean-query ' + ' '.join(shlex.quote(x) for x in a) + (f' <<< {case["stdin"]!r}' if not case['query'] else '')


def cli_signature(case, diffs):
    opts = []
    if case['quiet']:
        opts.append('-q')
    if case['format']:
        opts.append('-f ' + case['format'])
    if case['numberify']:
        opts.append('-m')
    if case['output']:
        ext = output_ext(case)
        opts.append('-o' if ext is None else '-o ' + ext)
    return 'cli:' + ','.join(d[0] for d in diffs) + ':' + ' '.join(opts) + ':' + case['ledger'] + ':' + \
        (' '.join(case['query']) if case['query'] else 'stdin ' + repr(case['stdin']))


def shrink_cli(case, model_of):
    """Drop options one at a time while the disagreement persists."""
    cur = dict(case)
    for key, neutral in (('numberify', False), ('output', None), ('output', 'out_s.txt'), ('format', None), ('quiet', False),
                         ('query', ['.set']), ('query', ['SELECT 1 AS x'])):
        if key == 'output' and neutral and not cur['output']:
            continue
        if key == 'format' and cur.get('stream') == 'output-name' and cur['output']:
            continue        # an EXPLICIT -f next to a suggestive -o name is the point of that stream: keep it visible
        cand = dict(cur)
        cand[key] = neutral
        if key == 'query':
            cand['stdin'] = ''
        if cand == cur:
            continue
        if check_cli((cand, model_of(cand))):
            cur = cand
    return cur


# --------------------------------------------------------------------------

def run(tier, rng):
    violations = []
    import time
    t0 = time.time()
    n_sessions = 150 if tier == 'quick' else 2000
    n_cli = 90 if tier == 'quick' else 800
    n_pure = 1200 if tier == 'quick' else 8000
    for k in LEDGERS:
        World.get(k)
    # fix-G: directed streams (named queries whose names need quoting; -o file names with a format-like extension),
    # drawn from the same PRNG without moving the draws of the streams below
    saved_state = rng.getstate()
    run_cases = run_grid_sessions() + [gen_run_session(rng) for _ in range(40 if tier == 'quick' else 600)]
    out_cases = cli_output_grid(rng, full=(tier != 'quick'))
    rng.setstate(saved_state)
    grid = grid_sessions()
    cases = [dict(c) for c in CORPUS] + grid + [gen_session(rng) for _ in range(n_sessions)] + run_cases
    models = model_sessions(cases)
    core.log(f'[C19] model sessions {time.time() - t0:.1f}s')
    results = core.pmap(_check_case, list(zip(cases, models)))
    core.log(f'[C19] shell sessions {time.time() - t0:.1f}s')
    seen = set()
    for case, m, r in zip(cases, models, results):
        if r is None:
            continue
        idx, diffs = r
        sub = dict(case, lines=case['lines'][:idx + 1])
        if len(seen) < 3:
            small = ddmin_batch(sub['lines'], disagree_many_for(sub))
            sub = dict(sub, lines=small)
            if sub.get('same_stdout'):
                alt = dict(sub, same_stdout=False)
                if _check_case((alt, model_sessions([alt], tag='c19s')[0])) is not None:
                    sub = alt
        mm = model_sessions([sub], tag='c19s')[0]
        again = _check_case((sub, mm))
        if again is None:
            again = (idx, diffs)
        sig = 'session:' + show(sub)
        if sig in seen:
            continue
        seen.add(sig)
        what = '; '.join(f'{d[0]}: shell {d[1]!r} / model {d[2]!r}' for d in again[1])[:900]
        violations.append(core.Violation(
            'shell-session', f'session {show(sub)} step {again[0]}: {what}',
            {'case': sub, 'step': again[0], 'diffs': again[1]}, signature=sig))
        if len(seen) >= 3:
            break

    # command line
    cli_cases = [
        {'ledger': 'C', 'format': None, 'fmt_long': True, 'numberify': False, 'output': None, 'quiet': True,
         'query': ['SELECT 1 AS x'], 'stdin': ''},
        {'ledger': 'C', 'format': 'csv', 'fmt_long': False, 'numberify': True, 'output': 'out_c.txt', 'quiet': False,
         'query': ['SELECT account, sum(position) AS total GROUP BY account'], 'stdin': ''},
    ] + [gen_cli(rng, k) for k in range(n_cli)] + out_cases
    cli_models = coq_eval('c19cli', [cli_expr(c) for c in cli_cases], 60)
    cli_results = [check_cli(x) for x in zip(cli_cases, cli_models)]
    cli_seen = set()
    for case, r in zip(cli_cases, cli_results):
        if not r:
            continue
        small = shrink_cli(case, lambda c: core.coq_eval('c19cli1', ['Model.Shell'], [cli_expr(c)])[0])
        d = check_cli((small, core.coq_eval('c19cli1', ['Model.Shell'], [cli_expr(small)])[0])) or r
        sig = cli_signature(small, d)
        if sig in cli_seen:
            continue
        cli_seen.add(sig)
        what = '; '.join(f'{x[0]}: shell {x[1]!r} / model {x[2]!r}' for x in d)[:900]
        violations.append(core.Violation('cli', f'{show_cli(small)}: {what}', {'cli': small, 'diffs': d}, signature=sig))
        if len(cli_seen) >= 2:
            break

    core.log(f'[C19] command line {time.time() - t0:.1f}s')
    npure, hist, pv = pure_cases(rng, n_pure)
    core.log(f'[C19] pure helpers {time.time() - t0:.1f}s')
    violations.extend(pv)

    # histograms
    line_kinds, set_arity, fmt_hist, flags = {}, {}, {}, {}
    nontrivial = set()
    steps = 0
    for case, m in zip(cases, models):
        changed = False
        prev = None
        for line, (events, stop, state) in zip(real_lines(case), m):
            steps += 1
            st = decode_state(state)
            if prev is not None and st != prev:
                changed = True
            prev = st
            for ev in events:
                if ev[0] == 0 and ev[2][0] in (1, 2, 3):
                    k = {1: 'render_text', 2: 'render_csv', 3: 'print'}[ev[2][0]]
                    line_kinds[k] = line_kinds.get(k, 0) + 1
                    if ev[2][0] == 1:
                        fl = ''.join('1' if b else '0' for b in (ev[2][1], ev[2][2], ev[2][3], ev[2][5], ev[2][6]))
                        flags[fl] = flags.get(fl, 0) + 1
                elif ev[0] == 0 and ev[2][0] == 0 and ev[2][1] == [ord(c) for c in '(empty)\n']:
                    line_kinds['(empty)'] = line_kinds.get('(empty)', 0) + 1
                elif ev[0] == 0 and ev[1] == 2:
                    line_kinds['error-message'] = line_kinds.get('error-message', 0) + 1
                elif ev[0] == 2:
                    line_kinds['informational'] = line_kinds.get('informational', 0) + 1
                elif ev[0] == 3:
                    line_kinds['exception'] = line_kinds.get('exception', 0) + 1
            fmt_hist[st.get('format')] = fmt_hist.get(st.get('format'), 0) + 1
        if changed and any(k for k in case['lines'] if not k.lstrip().startswith('.')):
            nontrivial.add(show(case))
    for case in cases:
        for l in case['lines']:
            s = l.strip()
            if s.lower().startswith(('.set', 'set')):
                try:
                    n = len(shlex.split(s.partition('set')[2] if 'set' in s else s[4:]))
                except ValueError:
                    n = 'unbalanced'
                set_arity[str(n)] = set_arity.get(str(n), 0) + 1
    cov = {
        'evaluations': steps + len(cli_cases) + npure,
        'distinct_nontrivial': len(nontrivial),
        'rule': 'random sessions (<=12 lines, one PRNG) over .set (0-4 arguments, valid/invalid values per type, quoting, '
                'non-field attribute names, dot-less and upper-case spellings), typed SELECT/BALANCES/JOURNAL/PRINT with '
                'case/whitespace/semicolon variants, garbage, .run NAME/*/listing on 3 generated ledgers (with/without '
                'named queries and load errors), informational and unknown commands; sessions in which the ledger file is '
                'rewritten (display precisions and named queries change) and reloaded, numberify on and off, the expected '
                'text rendered through the API on a fresh connection over the rewritten file; after every step all settings '
                '(vars(settings)) and the text on outfile/stdout/stderr, exception and return value are compared; '
                'non-trivial = distinct session in which a setting changed and a statement was typed; plus a grid: every '
                'field x every listed value (assign, echo, list). CLI: random '
                '-f/-m/-o/-q/QUERY|stdin combinations through CliRunner. Pure: onecmd dispatch on an instrumented shell, '
                'shlex.split/repr/strip/int against CPython. Directed (fix-G): ledger N whose query directive names need quoting '
                '(blanks, tab, quotes, apostrophe, backslash, `;`, `*`, empty, non-ASCII; also names that are single words of '
                'another name) x 7 spellings of the .run argument (double/single/posix quoting, backslashes, raw, adjacent quoted '
                'pieces, padded) + random sessions mixing them with other names, unknown names, unbalanced quotes and the typed '
                'text; CLI grid: -o names ending in every FORMATS key (3 letter cases) and look-alike / other extensions x '
                'explicit and absent -f x -m',
        'samples': [show(c) for c in cases[len(CORPUS) + len(grid):len(CORPUS) + len(grid) + 5]]
                   + [show_cli(c) for c in cli_cases[2:5]],
        'grid_sessions(field x value)': len(grid),
        'traces_validated_against_impl': len(cases) + len(cli_cases),
        'sessions': len(cases), 'sessions_with_ledger_rewrite_and_reload': sum(
            any(l.startswith(REWRITE) for l in c['lines']) for c in cases), 'session_steps': steps, 'cli_runs': len(cli_cases), 'pure_helper_cases': npure,
        'event_histogram': line_kinds, 'set_arity_histogram': set_arity, 'format_in_effect_histogram': fmt_hist,
        'render_text_flag_histogram(expand,boxed,spaced,narrow,unicode)': flags,
        'dispatch_histogram': hist,
        'cli_option_histogram': {
            '-q': sum(c['quiet'] for c in cli_cases), '-m': sum(c['numberify'] for c in cli_cases),
            '-o': sum(bool(c['output']) for c in cli_cases), '-f csv': sum(c['format'] == 'csv' for c in cli_cases),
            'ledger with errors': sum(c['ledger'] == 'C' for c in cli_cases),
            'stdin': sum(c['query'] is None for c in cli_cases)},
        'exhaustive': False,
    }
    # fix-G: evidence for the directed streams
    run_hist, spelled = {}, 0
    for case, m in zip(cases, models):
        if case.get('stream') != 'run-names':
            continue
        for line, (events, stop, state) in zip(real_lines(case), m):
            if not line.strip().lower().lstrip('.').startswith('run'):
                continue
            spelled += 1
            k = 'nothing-printed'
            for ev in events:
                if ev[0] == 3:
                    k = 'exception(shlex)'
                elif ev[0] == 0 and ev[1] == 2 and ev[2][0] == 0:
                    t = ''.join(map(chr, ev[2][1]))
                    k = 'not-found' if 'not found' in t else 'too-many-arguments' if 'too many' in t else 'other-error'
                elif ev[0] == 0 and ev[1] != 2:
                    k = 'query-run' if k == 'nothing-printed' else k
            run_hist[k] = run_hist.get(k, 0) + 1
    cov['run_name_stream'] = {
        'sessions': len(run_cases), 'grid_sessions(name x spelling)': len(run_grid_sessions()), 'run_lines': spelled,
        'named_queries': len(QUERIES_N), 'names_needing_quotes': sum(1 for _, n, _ in QUERIES_N if shlex.quote(n) != n),
        'spellings': list(RUN_SPELLINGS), 'outcome_histogram(model)': run_hist,
        'samples': [show(c) for c in run_cases[:2] + run_cases[-2:]]}
    oh = {}
    for c in out_cases:
        k = f"{os.path.splitext(c['output'].split('_', 1)[-1])[1] or '(none)'} / -f {c['format'] or '(absent)'}{' -m' if c['numberify'] else ''}"
        oh[k] = oh.get(k, 0) + 1
    cov['cli_output_name_stream'] = {'runs': len(out_cases), 'output_names': cli_output_names(),
                                     'extension_x_format_histogram': oh, 'samples': [show_cli(c) for c in out_cases[:3]]}
    return {'coverage': cov, 'violations': violations}


def replay(rec):
    if 'case' in rec:
        case = rec['case']
        m = model_sessions([case], tag='c19s')[0]
        return _check_case((case, m)) is None
    if 'cli' in rec:
        case = rec['cli']
        m = core.coq_eval('c19cli1', ['Model.Shell'], [cli_expr(case)])[0]
        return not check_cli((case, m))
    if 'line' in rec:
        m = core.coq_eval('c19c', ['Model.Shell'], [f'classify_out {cstr(rec["line"])}'])[0]
        a = classify_impl(rec['line'])
        mm = list(m)
        if mm[0] == 2 and ''.join(map(chr, mm[2])) not in set(command_names()):
            mm = [2, mm[1], mm[2], None]
        return a == mm
    return True
