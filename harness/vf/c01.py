"""C01: row-level evaluation, WHERE filtering, NULL semantics.
Correspondence: generated typed expression trees as targets and WHERE/FROM conditions on harness
tables, implementation rows vs Model/Exec.v (exec_out) evaluated by vm_compute; exhaustive depth-1
operator x overload x value matrix; implementation-only NULL-strictness sweep over the live registries."""
import datetime
import decimal
import itertools

from . import core, impl, values, exprgen
from .core import clist, copt
from .exprgen import T_INT, T_DEC, T_STR, T_DATE, T_BOOL, PY
from .shrink import ddmin_batch

D = decimal.Decimal
ASSUMPTIONS = [
    'regular-expression match is modelled for literal (metacharacter-free ASCII) patterns only: case-insensitive substring search',
    'Decimal arithmetic modelled for finite values at precision 28 ROUND_HALF_EVEN (bit-exact on as_tuple); no NaN/Infinity',
    'library functions (Eval.apply_func clauses calling Model/Dates.v / Model/StrFuncs.v): C18\'s assumptions apply - ASCII strings for '
    'int(str) / date(str) / case folding, dates within date.min..date.max; C01_library_source_* additionally trust the PyMini semantics '
    'and the library primitives of Model/PrimsEnv.v (see C18)',
    'dates stay within datetime.date.min..max: a statement on which Python\'s date arithmetic raises OverflowError("date value out of '
    'range") is counted (coverage key date_overflow_cases_counted_not_compared), not compared - the model\'s dates are unbounded',
    'the generator resolves operator overloads itself from its own typing of the expression (independent of the compiler)',
    'translator tie (C01_source_row_loop): the WHERE condition and the target expressions are opaque callables assumed to behave as the model expressions on every row of the table (C01_source_* for the node classes) and not to raise (C04); query.table yields one context object per row, in order (prim attr:table)',
]


def _dec_cast(v):
    """What the implicit decimal() cast of an untyped value must give (Python's Decimal(x), NULL when not convertible)."""
    if v is None:
        return None
    try:
        return D(v)
    except (ValueError, TypeError, decimal.InvalidOperation):
        return None


def _date_cast(v):
    if isinstance(v, datetime.date):
        return v
    if isinstance(v, str):
        try:
            return datetime.datetime.strptime(v, '%Y-%m-%d').date()
        except ValueError:
            return None
    return None


def gen_case(rng, depth, cols=None, rows=None, allow_from=True, unary_chains=0.0, lib=True):
    own_table = cols is None
    if cols is None:
        ncols = rng.randint(2, 6)
        types = [rng.choice(exprgen.ALL_TYPES) for _ in range(ncols)]
        cols = [(n, t) for n, t in zip('abcdef', types)]
    if rows is None:
        null_p = rng.choice([0.0, 0.15, 0.3, 0.5])
        nrows = rng.choice([0, 1, 2, 3, 5, 8, 12])
        rows = [tuple(values.gen_value(rng, PY[t], null_p) for _, t in cols) for _ in range(nrows)]
    obj = None
    model_rows = None
    if own_table and rng.random() < 0.35:
        # one untyped column: values of mixed Python types; the model sees two shadow columns decimal(o) and date(o)
        pool = [None, 0, 1, 2, -3, D('2.5'), D('0.75'), D('-1.5'), D('10'), '2.5', 'abc', '', True, datetime.date(2020, 1, 2), '2020-02-29']
        ovals = [rng.choice(pool) for _ in rows]
        n0 = len(cols)
        cols = cols + [('o', 'object')]
        rows = [r + (v,) for r, v in zip(rows, ovals)]
        model_rows = [r + (_dec_cast(v), _date_cast(v)) for r, v in zip(rows, ovals)]
        obj = {'o': (n0 + 1, n0 + 2)}
    g = exprgen.Gen(rng, cols, max_depth=depth, obj=obj, lib=lib, unary_chains=unary_chains)
    targets = [g.expr(rng.choice(exprgen.ALL_TYPES)) for _ in range(rng.randint(1, 3))]
    where = None
    mode = rng.random()
    if mode < 0.65:
        where = g.expr(rng.choice([T_BOOL, T_BOOL, T_BOOL, T_INT, T_STR, T_DEC]))
    frm = None
    if allow_from and rng.random() < 0.2:
        frm = g.expr(T_BOOL)
    return {'cols': cols, 'rows': rows, 'model_rows': model_rows, 'targets': [(t.text, t.coq) for t in targets], 'types': [t.type for t in targets],
            'where': (where.text, where.coq) if where else None, 'from': (frm.text, frm.coq) if frm else None,
            'ops': sorted(set(sum([list(t.ops) for t in targets] + [list(where.ops) if where else []]
                                  + [list(frm.ops) if frm else []], []))),
            'depth': max([t.depth for t in targets] + [where.depth if where else 0])}


def statement(c):
    al = c.get('aliases')
    s = 'SELECT ' + ', '.join(t + (f' AS {al[i]}' if al else '') for i, (t, _) in enumerate(c['targets']))
    if c['from']:
        s += ' FROM ' + c['from'][0]
    else:
        s += ' FROM ' + c.get('from_sql', '#t')
    if c['where']:
        s += ' WHERE ' + c['where'][0]
    return s


def run_impl(c):
    t = impl.make_table('t', [(n, object if ty == 'object' else PY[ty]) for n, ty in c['cols']], c['rows'])
    t.update = lambda **kw: t
    conn = impl.connection({'t': t, 'postings': t})
    try:
        curs = conn.execute(statement(c))
        return [0, values.canon_rows(curs.fetchall())]
    except Exception as e:  # noqa: BLE001
        return ['exception', impl.exc_class(e), str(e)[:200]]


def model_expr(c):
    if c['from'] and c['where']:
        w = f'(Some (EAnd [{c["from"][1]}; {c["where"][1]}]))'
    elif c['from']:
        w = f'(Some {c["from"][1]})'
    elif c['where']:
        w = f'(Some {c["where"][1]})'
    else:
        w = 'None'
    return f'exec_out {query_coq(c, w)} {values.rows_to_coq(c.get("model_rows") or c["rows"])}'


def where_coq(c):
    if c['from'] and c['where']:
        return f'(Some (EAnd [{c["from"][1]}; {c["where"][1]}]))'
    if c['from']:
        return f'(Some {c["from"][1]})'
    if c['where']:
        return f'(Some {c["where"][1]})'
    return 'None'


def query_coq(c, w=None):
    w = where_coq(c) if w is None else w
    n = len(c['targets'])
    q = ('{| q_where := ' + w + '; q_targets := ' + clist([t for _, t in c['targets']])
         + '; q_group := None; q_aggs := []; q_having := None; q_order := None; q_vis := '
         + clist([f'{i}%nat' for i in range(n)]) + '; q_distinct := false; q_limit := None |}')
    return q


IMPORTS = ['Base.PyValue', 'Base.Decimal', 'Model.Eval', 'Model.Order', 'Model.Exec']


def model_many(cases, tag='c01'):
    return core.coq_eval(tag, IMPORTS, [model_expr(c) for c in cases], shard=150)


def matrix_cases():
    """Exhaustive depth-1: every modelled binary operator overload x all value pairs incl. NULL/zero/negatives."""
    out = []
    numops = [('+', 'BAdd'), ('-', 'BSub'), ('*', 'BMul'), ('/', 'BDiv'), ('%', 'BMod'),
              ('=', 'BEq'), ('!=', 'BNe'), ('<', 'BLt'), ('<=', 'BLe'), ('>', 'BGt'), ('>=', 'BGe')]
    pool = {T_INT: [None, 0, 1, 2, 3, -1, -2, 7, 10],
            T_DEC: [None] + values.POOLS[D],
            T_STR: [None] + values.POOLS[str], T_DATE: [None] + values.POOLS[datetime.date]}
    for ta, tb in itertools.product([T_INT, T_DEC], repeat=2):
        rows = list(itertools.product(pool[ta], pool[tb]))
        targets = []
        for sym, tag in numops:
            tg = 'BDivInt' if (tag == 'BDiv' and ta == tb == T_INT) else tag
            targets.append((f'a {sym} b', f'(EBinary {tg} (ECol 0%nat) (ECol 1%nat))'))
        targets.append(('a BETWEEN b AND a', '(EBetween (ECol 0%nat) (ECol 1%nat) (ECol 0%nat))'))
        targets.append(('b BETWEEN a AND 2', '(EBetween (ECol 1%nat) (ECol 0%nat) (EConst (VInt 2)))'))
        out.append({'cols': [('a', ta), ('b', tb)], 'rows': rows, 'targets': targets, 'where': None, 'from': None,
                    'ops': [f'{tag}[{ta},{tb}]' for _, tag in numops], 'depth': 1})
    for t in (T_STR, T_DATE):
        rows = list(itertools.product(pool[t], pool[t]))
        targets = [(f'a {sym} b', f'(EBinary {tag} (ECol 0%nat) (ECol 1%nat))') for sym, tag in numops[5:]]
        if t == T_DATE:
            targets.append(('a - b', '(EBinary BSubDateDate (ECol 0%nat) (ECol 1%nat))'))
        out.append({'cols': [('a', t), ('b', t)], 'rows': rows, 'targets': targets, 'where': None, 'from': None,
                    'ops': [f'{tag}[{t},{t}]' for _, tag in numops[5:]], 'depth': 1})
    rows = list(itertools.product(pool[T_DATE], pool[T_INT]))
    out.append({'cols': [('a', T_DATE), ('b', T_INT)], 'rows': rows,
                'targets': [('a + b', '(EBinary BAddDateInt (ECol 0%nat) (ECol 1%nat))'),
                            ('b + a', '(EBinary BAddIntDate (ECol 1%nat) (ECol 0%nat))'),
                            ('a - b', '(EBinary BSubDateInt (ECol 0%nat) (ECol 1%nat))')],
                'where': None, 'from': None, 'ops': ['date+-int'], 'depth': 1})
    # truth tables of AND / OR / NOT over {NULL, TRUE, FALSE}^3 and WHERE truthiness
    tv = [None, True, False]
    rows = list(itertools.product(tv, tv, tv))
    out.append({'cols': [('a', T_BOOL), ('b', T_BOOL), ('c', T_BOOL)], 'rows': rows,
                'targets': [('a AND b', '(EAnd [ECol 0%nat; ECol 1%nat])'), ('a OR b', '(EOr [ECol 0%nat; ECol 1%nat])'),
                            ('a AND b AND c', '(EAnd [ECol 0%nat; ECol 1%nat; ECol 2%nat])'),
                            ('a OR b OR c', '(EOr [ECol 0%nat; ECol 1%nat; ECol 2%nat])'),
                            ('NOT a', '(EUnary UNot (ECol 0%nat))'), ('a IS NULL', '(EUnary UIsNull (ECol 0%nat))'),
                            ('a IS NOT NULL', '(EUnary UIsNotNull (ECol 0%nat))'),
                            ('coalesce(a, b, c)', '(ECoalesce [ECol 0%nat; ECol 1%nat; ECol 2%nat])')],
                'where': None, 'from': None, 'ops': ['truth-tables'], 'depth': 1})
    for cond, coq in [('a', '(ECol 0%nat)'), ('a OR b', '(EOr [ECol 0%nat; ECol 1%nat])'),
                      ('a AND NOT b', '(EAnd [ECol 0%nat; EUnary UNot (ECol 1%nat)])')]:
        out.append({'cols': [('a', T_BOOL), ('b', T_BOOL), ('c', T_BOOL)], 'rows': rows,
                    'targets': [('a', '(ECol 0%nat)'), ('b', '(ECol 1%nat)'), ('c', '(ECol 2%nat)')],
                    'where': (cond, coq), 'from': None, 'ops': ['where-truth'], 'depth': 1})
    out.extend(unary_matrix_cases())
    return out


UNARY = [('NOT', 'UNot'), ('IS NULL', 'UIsNull'), ('IS NOT NULL', 'UIsNotNull')]


def _un(op, e):
    """(text, coq) of one NULL-aware unary operator applied to (text, coq)"""
    sym, tag = op
    return ((f'(NOT {e[0]})' if tag == 'UNot' else f'({e[0]} {sym})'), f'(EUnary {tag} {e[1]})')


def unary_matrix_cases():
    """Exhaustive depth-2 (and NOT-runs up to 4): every pair U1(U2(x)) of the NULL-aware unary operators NOT / IS NULL /
    IS NOT NULL, and NOT^2..NOT^4, over every kind of NON-CONSTANT operand (bool column, AND, OR, comparison, IN, BETWEEN,
    match, bool(), an int / str column coerced by NOT), on all assignments of the operand columns incl. NULL; each one
    observed as a target cell, under IS NULL, under COALESCE(.., TRUE) and COALESCE(.., FALSE), and as WHERE condition
    bare / under NOT / under COALESCE / under IS NULL."""
    out = []
    tv = [None, True, False]
    c0, c1 = '(ECol 0%nat)', '(ECol 1%nat)'
    bool_ops = [('a', c0), ('(a AND b)', f'(EAnd [{c0}; {c1}])'), ('(a OR b)', f'(EOr [{c0}; {c1}])'),
                ('bool(a)', f'(EFunc FBool [{c0}])'), ('coalesce(a, b)', f'(ECoalesce [{c0}; {c1}])')]
    iv = [None, 0, 1, 2]
    int_ops = [('a', c0), ('(a < b)', f'(EBinary BLt {c0} {c1})'), ('(a = b)', f'(EBinary BEq {c0} {c1})'),
               ('(a != 1)', f'(EBinary BNe {c0} (EConst (VInt 1)))'),
               ('(a IN (1, 2))', f'(EIn false {c0} (Some [VInt 1; VInt 2]))'),
               ('(a NOT IN (1, 2))', f'(EIn true {c0} (Some [VInt 1; VInt 2]))'),
               ('(a BETWEEN 1 AND b)', f'(EBetween {c0} (EConst (VInt 1)) {c1})'),
               ('bool(a)', f'(EFunc FBool [{c0}])')]
    sv = [None, '', 'ab', 'Cash']
    str_ops = [('a', c0), ("(a ~ 'a')", f'(EBinary BMatch {c0} (EConst {values.to_coq("a")}))'),
               ("(a !~ 'a')", f'(EBinary BNotMatch {c0} (EConst {values.to_coq("a")}))'),
               ('(a < b)', f'(EBinary BLt {c0} {c1})')]
    for ty, dom, operands in ((T_BOOL, tv, bool_ops), (T_INT, iv, int_ops), (T_STR, sv, str_ops)):
        cols = [('a', ty), ('b', ty)]
        rows = list(itertools.product(dom, dom))
        for x in operands:
            chains = [_un(u1, _un(u2, x)) for u1 in UNARY for u2 in UNARY]
            nn = _un(UNARY[0], _un(UNARY[0], x))
            chains.append((f'(NOT NOT {x[0]})', nn[1]))                      # the spelling without parentheses
            nnn = _un(UNARY[0], nn)
            chains += [nnn, (f'(NOT NOT NOT {x[0]})', nnn[1]), _un(UNARY[0], nnn), _un(UNARY[1], nnn), _un(UNARY[0], _un(UNARY[1], nn))]
            targets = []
            for ch in chains:
                targets += [ch, _un(UNARY[1], ch), (f'coalesce({ch[0]}, TRUE)', f'(ECoalesce [{ch[1]}; EConst (VBool true)])'),
                            (f'coalesce({ch[0]}, FALSE)', f'(ECoalesce [{ch[1]}; EConst (VBool false)])')]
            out.append({'cols': cols, 'rows': rows, 'targets': targets, 'where': None, 'from': None,
                        'ops': ['unary-matrix/target'], 'depth': 2})
            ident = [('a', c0), ('b', c1)]
            for ch in (nn, chains[9], nnn):          # NOT NOT x in both spellings, NOT NOT NOT x
                for w in (ch, _un(UNARY[0], ch), (f'coalesce({ch[0]}, TRUE)', f'(ECoalesce [{ch[1]}; EConst (VBool true)])'),
                          _un(UNARY[1], ch)):
                    out.append({'cols': cols, 'rows': rows, 'targets': ident, 'where': w, 'from': None,
                                'ops': ['unary-matrix/where'], 'depth': 2})
    return out


def null_strictness_sweep():
    """Implementation only: every registered scalar function / operator overload returns NULL when any
    operand is NULL (the property text: arithmetic, comparison, match, membership, BETWEEN, ordinary calls)."""
    from beanquery import query_compile as qc
    bad, n = [], 0
    sample = object()
    for name, overloads in list(qc.FUNCTIONS.items()):
        for f in overloads:
            if issubclass(f, qc.EvalAggregator) or name in ('getitem',):
                continue
            nargs = len(f.__intypes__)
            for i in range(nargs):
                ops = [qc.EvalConstant(None if j == i else sample, object) for j in range(nargs)]
                n += 1
                try:
                    r = f(None, ops)(None)
                except Exception as e:  # noqa: BLE001
                    r = e
                if r is not None:
                    bad.append((f'function {name}{[getattr(t, "__name__", str(t)) for t in f.__intypes__]} arg {i} NULL', repr(r)[:80]))
    null_aware = {'Not', 'IsNull', 'IsNotNull'}
    for op, overloads in list(qc.OPERATORS.items()):
        for f in overloads:
            if op.__name__ in null_aware:
                continue
            nargs = len(f.__intypes__)
            for i in range(nargs):
                ops = [qc.EvalConstant(None if j == i else sample, object) for j in range(nargs)]
                n += 1
                try:
                    r = f(*ops)(None)
                except Exception as e:  # noqa: BLE001
                    r = e
                if r is not None:
                    bad.append((f'operator {f.__name__} operand {i} NULL', repr(r)[:80]))
    return n, bad


NEST_ROWS = [(1, True), (2, False), (None, None), (0, True)]
NEST_FORMS = {
    # form -> (innermost text, wrap one level, python: value of the innermost cell -> value after n levels)
    'NOT (parenthesised)': ('b', lambda e: f'(NOT {e})', lambda a, b, n: (not b) if n % 2 else bool(b)),
    'NOT NOT .. (no parentheses)': ('b', lambda e: f'NOT {e}', lambda a, b, n: (not b) if n % 2 else bool(b)),
    'IS NULL': ('b', lambda e: f'({e} IS NULL)', lambda a, b, n: (b is None) if n == 1 else False),
    '+ 1': ('a', lambda e: f'({e} + 1)', lambda a, b, n: None if a is None else a + n),
    'parentheses': ('a', lambda e: f'({e})', lambda a, b, n: a),
}


def nesting_probe_one(form, n):
    """None, or (statement, got, expected): an operator nested n deep over a column, against the value computed in Python
    (property text: 'all well-typed expression trees of any depth')."""
    leaf, wrap, py = NEST_FORMS[form]
    e = leaf
    for _ in range(n):
        e = wrap(e)
    sql = f'SELECT {e} FROM #t'
    want = [(py(a, b, n),) for a, b in NEST_ROWS]
    conn = impl.connection({'t': impl.make_table('t', [('a', int), ('b', bool)], NEST_ROWS)})
    try:
        got = conn.execute(sql).fetchall()
    except Exception as ex:  # noqa: BLE001
        got = 'raised ' + type(ex).__name__
    if got != want or [type(r[0]) for r in got] != [type(r[0]) for r in want]:
        return sql, got, want
    return None


NEST_DEPTHS = (2, 3, 4, 5, 6, 8, 10)
NEST_DEEP = 40


def shrink(c):
    base = c

    def with_rows(idxs):
        d = dict(base)
        d['rows'] = [base['rows'][i] for i in idxs]
        if base.get('model_rows'):
            d['model_rows'] = [base['model_rows'][i] for i in idxs]
        return d

    def fails(cands):
        cs = [with_rows(r) for r in cands]
        ms = model_many(cs, tag='c01s')
        return [run_impl(x) != m for x, m in zip(cs, ms)]
    if len(c['rows']) >= 2:
        c = with_rows(ddmin_batch(list(range(len(c['rows']))), fails))
    if len(c['targets']) >= 2:
        def with_t(ts):
            d = dict(c)
            d['targets'] = ts
            return d

        def fails_t(cands):
            cs = [with_t(t) for t in cands]
            ms = model_many(cs, tag='c01s')
            return [run_impl(x) != m for x, m in zip(cs, ms)]
        c = with_t(ddmin_batch(c['targets'], fails_t))
    return c


# ---- (fix-I) sequences on ONE connection: the table registered under a name is REPLACED between executions of the same text
def _un_bin(tag, x, y):
    return f'(EBinary {tag} {x} {y})'


_C0, _C1 = '(ECol 0%nat)', '(ECol 1%nat)'
POLY_ANY = [('a', _C0), ('b', _C1), ('(a IS NULL)', f'(EUnary UIsNull {_C0})'), ('(b IS NOT NULL)', f'(EUnary UIsNotNull {_C1})'),
            ('(a = b)', _un_bin('BEq', _C0, _C1)), ('(a < b)', _un_bin('BLt', _C0, _C1)), ('(a != b)', _un_bin('BNe', _C0, _C1)),
            ('(a >= b)', _un_bin('BGe', _C0, _C1)), ('coalesce(a, b)', f'(ECoalesce [{_C0}; {_C1}])')]
POLY_NUM = [('(a * 2)', _un_bin('BMul', _C0, '(EConst (VInt 2))')), ('(a + b)', _un_bin('BAdd', _C0, _C1)),
            ('(a - b)', _un_bin('BSub', _C0, _C1)), ('(a > 1)', _un_bin('BGt', _C0, '(EConst (VInt 1))'))]
POLY_BOOL = {'(a IS NULL)', '(b IS NOT NULL)', '(a = b)', '(a < b)', '(a != b)', '(a >= b)', '(a > 1)'}


def _gen_rows(rng, cols, nrows=None):
    null_p = rng.choice([0.0, 0.15, 0.3])
    nrows = rng.choice([1, 2, 3, 5, 8]) if nrows is None else nrows
    return [tuple(values.gen_value(rng, PY[t], null_p) for _, t in cols) for _ in range(nrows)]


def gen_sequence(rng, depth):
    """2-4 executions on one connection; before each one the user table `t` is (re)registered by conn.tables['t'] = table."""
    kind = rng.choice(['other-rows', 'other-rows', 'to-no-rows', 'from-no-rows', 'other-type', 'other-type', 'intervening-statement',
                       'intervening-statement', 'three-generations', 'same-object-rows-replaced', 'same-table-twice'])
    if kind == 'other-type':
        numeric = rng.random() < 0.5
        menu = POLY_ANY + (POLY_NUM if numeric else [])
        types = rng.sample([T_INT, T_DEC] if numeric else [T_INT, T_DEC, T_STR, T_DATE], 2)
        targets = [rng.choice(menu) for _ in range(rng.randint(1, 3))]
        where = rng.choice([None] + [m for m in menu if m[0] in POLY_BOOL])
        steps = []
        for t in types + ([types[0]] if rng.random() < 0.3 else []):
            cols = [('a', t), ('b', t)]
            steps.append({'case': {'cols': cols, 'rows': _gen_rows(rng, cols), 'targets': targets, 'where': where, 'from': None,
                                   'ops': [], 'depth': 1}})
        return {'kind': kind, 'steps': steps}
    ncols = rng.randint(2, 4)
    cols = [(n, rng.choice(exprgen.ALL_TYPES)) for n in 'abcd'[:ncols]]
    base = gen_case(rng, depth, cols=cols, rows=_gen_rows(rng, cols), allow_from=False, lib=False)
    again = lambda nrows=None: dict(base, rows=_gen_rows(rng, cols, nrows))      # noqa: E731
    if kind == 'other-rows':
        cs = [base, again()]
    elif kind == 'to-no-rows':
        cs = [base, again(0)]
    elif kind == 'from-no-rows':
        cs = [dict(base, rows=[]), again()]
    elif kind == 'three-generations':
        cs = [base, again(), again(rng.choice([0, 2, 4]))]
    elif kind == 'same-table-twice':
        cs = [base, base]
    elif kind == 'same-object-rows-replaced':
        cs = [base, again()]
    else:
        other = gen_case(rng, depth, cols=cols, rows=base['rows'], allow_from=False, lib=False)
        second = again()
        cs = [base, dict(other, rows=rng.choice([base['rows'], second['rows']])), second]
    steps = [{'case': c} for c in cs]
    if kind == 'same-object-rows-replaced':
        steps[1]['keep_object'] = True
    return {'kind': kind, 'steps': steps}


def _exec_desc(conn, sql):
    try:
        curs = conn.execute(sql)
        desc = [[d.name, getattr(d.datatype, '__name__', str(d.datatype))] for d in curs.description]
        return [0, values.canon_rows(curs.fetchall())], desc
    except Exception as e:  # noqa: BLE001
        return ['exception', impl.exc_class(e), str(e)[:200]], None


def _seq_table(c):
    t = impl.make_table('t', [(n, PY[ty]) for n, ty in c['cols']], list(c['rows']))
    t.update = lambda **kw: t
    return t


def run_sequence(seq):
    """per step: (outcome on the shared connection, its description, outcome on a fresh connection, its description)"""
    conn = impl.connection({})
    out, tab = [], None
    for st in seq['steps']:
        c = st['case']
        if st.get('keep_object') and tab is not None:
            tab.rows = list(c['rows'])
        else:
            tab = _seq_table(c)
            conn.tables['t'] = tab
        got, gdesc = _exec_desc(conn, statement(c))
        fresh, fdesc = _exec_desc(impl.connection({'t': _seq_table(c)}), statement(c))
        out.append([got, gdesc, fresh, fdesc])
    return out


def sequence_first_bad(seq, out, models):
    """None, or (index of the first step that is wrong, why)"""
    for k, ((got, gdesc, fresh, fdesc), m) in enumerate(zip(out, models)):
        if got[:2] == ['exception', 'other:OverflowError'] and 'date value out of range' in str(got[2]):
            continue
        if got != m:
            return k, f'returns {got} but BQL semantics (model) on the table registered at that time give {m}'
        if got != fresh or gdesc != fdesc:
            return k, f'returns {got} described as {gdesc} but a fresh connection holding that table returns {fresh} described as {fdesc}'
    return None


def check_sequence(seq, tag='c01q'):
    return sequence_first_bad(seq, run_sequence(seq), model_many([st['case'] for st in seq['steps']], tag=tag))


def shrink_sequence(seq):
    k, _ = check_sequence(seq)
    seq = dict(seq, steps=seq['steps'][:k + 1])
    i = 0
    while i < len(seq['steps']) - 1:
        cand = dict(seq, steps=seq['steps'][:i] + seq['steps'][i + 1:])
        if check_sequence(cand):
            seq = cand
        else:
            i += 1
    # fewer rows, judged against the fresh connection alone (no model evaluation per candidate)
    def differs(q):
        return any(got != fresh or gd != fd for got, gd, fresh, fd in run_sequence(q))
    if differs(seq):
        for si in range(len(seq['steps'])):
            ri = len(seq['steps'][si]['case']['rows']) - 1
            while ri >= 0:
                c = seq['steps'][si]['case']
                steps = list(seq['steps'])
                steps[si] = dict(steps[si], case=dict(c, rows=c['rows'][:ri] + c['rows'][ri + 1:]))
                cand = dict(seq, steps=steps)
                if differs(cand):
                    seq = cand
                ri -= 1
    return seq


def show_sequence(seq):
    return ' ; '.join(('t.rows = ' if st.get('keep_object') else "conn.tables['t'] = ") + f'{st["case"]["cols"]} {st["case"]["rows"]} ; '
                      + statement(st['case']) for st in seq['steps'])


def sequence_stream(tier, rng):
    depth = 2 if tier == 'quick' else 3
    seqs = [gen_sequence(rng, rng.randint(1, depth)) for _ in range(260 if tier == 'quick' else 4000)]
    outs = core.pmap(run_sequence, seqs)
    flat = [st['case'] for q in seqs for st in q['steps']]
    ms = model_many(flat, tag='c01q')
    violations, hist, pos = [], {}, 0
    for q, out in zip(seqs, outs):
        n = len(q['steps'])
        models, pos = ms[pos:pos + n], pos + n
        hist[q['kind']] = hist.get(q['kind'], 0) + 1
        bad = sequence_first_bad(q, out, models)
        if bad and len(violations) < 3:
            small = shrink_sequence(q)
            k, why = check_sequence(small)
            violations.append(core.Violation(
                'table-replaced', f'on one connection: {show_sequence(small)}: execution {k + 1} {why}',
                {'sequence': small}, signature='sequence:' + show_sequence(small)))
    return violations, {'table_replacement_sequences': len(seqs), 'table_replacement_executions': len(flat),
                        'table_replacement_kinds': dict(sorted(hist.items()))}


# ---- (fix-I) `~` / `!~` on non-ASCII text: implementation vs Python's re.search(pattern, subject, re.IGNORECASE) (the model
# covers ASCII literal patterns only, see ASSUMPTIONS)
UNI_SUBJECTS = ['\u0130stanbul Kart', 'ISTANBUL KART', 'istanbul kart', 'Il\u0131ca Market', 'ILICA market', 'D\u0130YARBAKIR',
                '\u0391\u03a0\u039f\u03a3\u03a4\u0391\u03a3\u0397 \u0391\u0395', '\u0391\u03c0\u03cc\u03c3\u03c4\u03b1\u03c3\u03b7',
                '\u03bf\u03b4\u03cc\u03c2 \u03a3\u03bf\u03bb\u03c9\u03bc\u03bf\u03cd', '\u039f\u0394\u039f\u03a3',
                'Ma\u017fchinenbau GmbH', 'MASCHINENBAU', 'Stra\u00dfe 5', 'STRASSE', 'GRO\u1e9eE', '\u212aelvin Lab', 'kelvin', '\u212bngstr\u00f6m',
                '\u00e5ngstr\u00d6m', '\ufb01nance', 'FINANCE', '\u00b5Soft', '\u039cSOFT \u03bc', '\u01c5ungla', '\u01c6ungla', 'Caf\u00e9 \u00c9t\u00e9',
                'CAFE\u0301', '\u0416\u0443\u043a \u0436\u0423\u041a', 'Assets:Cash', 'Expenses:Food:Caf\u00e9', '']
UNI_SUBST = [('i', '\u0130'), ('I', '\u0131'), ('i', '\u0131'), ('\u0130', 'i'), ('\u0131', 'I'), ('s', '\u017f'), ('S', '\u017f'), ('\u017f', 's'),
             ('\u03c3', '\u03c2'), ('\u03c2', '\u03a3'), ('\u03a3', '\u03c2'), ('\u03c2', '\u03c3'), ('k', '\u212a'), ('K', '\u212a'), ('\u212a', 'k'),
             ('ss', '\u00df'), ('\u00df', 'SS'), ('\u00df', '\u1e9e'), ('\u00e5', '\u212b'), ('\u212b', '\u00e5'), ('\u00b5', '\u03bc'), ('\u03bc', '\u00b5'),
             ('\u039c', '\u00b5'), ('fi', '\ufb01'), ('\ufb01', 'FI'), ('\u01c5', '\u01c4'), ('\u01c6', '\u01c5'), ('\u00e9', 'e\u0301')]
_META = set('.^$*+?{}[]\\|()')


def gen_unicode_pattern(rng, subjects):
    """a metacharacter-free pattern: a substring of a subject in another letter case / with a special-casing character exchanged"""
    s = rng.choice([x for x in subjects if x])
    if rng.random() < 0.6:
        s = rng.choice(s.split())
    i = rng.randrange(len(s))
    p = s[i:i + rng.randint(1, 8)]
    for _ in range(rng.choice([1, 1, 2])):
        how = rng.choice(['upper', 'lower', 'swapcase', 'casefold', 'title', 'subst', 'subst', 'keep'])
        if how == 'subst':
            subs = [(a, b) for a, b in UNI_SUBST if a in p] or [(None, None)]
            a, b = rng.choice(subs)
            p = p.replace(a, b) if a else p
        elif how != 'keep':
            p = getattr(p, how)()
    p = ''.join(ch for ch in p if ch not in _META and ch not in '\'"')
    return p


def gen_unicode_case(rng):
    subjects = rng.sample(UNI_SUBJECTS, rng.randint(3, 7))
    rows = []
    for s in subjects:
        rows.append((s if rng.random() > 0.1 else None, gen_unicode_pattern(rng, subjects) if rng.random() > 0.1 else None))
    return {'rows': rows, 'pattern': gen_unicode_pattern(rng, subjects), 'subject': rng.choice([x for x in subjects if x])}


def _re_match(s, p):
    import re
    if s is None or p is None:
        return None
    return re.search(p, s, re.IGNORECASE) is not None


def _neg(v):
    return None if v is None else not v


def run_unicode_case(c):
    """[] or the list of (statement, what, got, expected) disagreements"""
    t = impl.make_table('t', [('s', str), ('p', str)], c['rows'])
    conn = impl.connection({'t': t})
    P, S = c['pattern'], c['subject']
    bad = []
    sql = f"SELECT s ~ '{P}', s !~ '{P}', s ~ p, s !~ p, '{S}' ~ p, '{S}' !~ '{P}', (s ~ '{P}') IS NULL FROM #t"
    want = [(_re_match(s, P), _neg(_re_match(s, P)), _re_match(s, p), _neg(_re_match(s, p)), _re_match(S, p), _neg(_re_match(S, P)),
             s is None) for s, p in c['rows']]
    checks = [(sql, want)]
    for cond, f in ((f"s ~ '{P}'", lambda s, p: _re_match(s, P)), (f"s !~ '{P}'", lambda s, p: _neg(_re_match(s, P))),
                    ('s ~ p', _re_match), ('s !~ p', lambda s, p: _neg(_re_match(s, p))),
                    (f"NOT (s ~ '{P}')", lambda s, p: not _re_match(s, P)), (f"'{S}' ~ p AND s IS NOT NULL", lambda s, p: _re_match(S, p) and s is not None)):
        checks.append((f'SELECT s, p FROM #t WHERE {cond}', [(s, p) for s, p in c['rows'] if f(s, p)]))
    # (BQL's NOT is NULL-aware: NOT NULL is TRUE - Model/Eval.v UNot, covered by unary_matrix_cases)
    for q, w in checks:
        try:
            got = [tuple(r) for r in conn.execute(q).fetchall()]
        except Exception as e:  # noqa: BLE001
            got = 'raised ' + repr(e)[:200]
        if got != w:
            bad.append([q, repr(got), repr(w)])
    return bad


def unicode_match_stream(tier, rng):
    cases = [gen_unicode_case(rng) for _ in range(300 if tier == 'quick' else 5000)]
    outs = core.pmap(run_unicode_case, cases)
    violations = []
    hist = {'rows': 0, 'null_operands': 0, 'patterns_non_ascii': 0, 'patterns_ascii': 0, 'cells_true': 0, 'cells_false': 0,
            'special_characters_in_patterns': {}}
    for c, bad in zip(cases, outs):
        for s, p in c['rows'] + [(c['subject'], c['pattern'])]:
            hist['rows'] += 1
            hist['null_operands'] += s is None or p is None
            if p is not None:
                hist['patterns_ascii' if p.isascii() else 'patterns_non_ascii'] += 1
                for ch in p:
                    if not ch.isascii() and any(ch in a or ch in b for a, b in UNI_SUBST):
                        k = 'U+%04X' % ord(ch)
                        hist['special_characters_in_patterns'][k] = hist['special_characters_in_patterns'].get(k, 0) + 1
            m = _re_match(s, p)
            hist['cells_true'] += m is True
            hist['cells_false'] += m is False
        if bad and len(violations) < 3:
            small = shrink_unicode_case(c)
            q, got, want = run_unicode_case(small)[0]
            violations.append(core.Violation(
                'unicode-match', f'{q} over rows (s, p) {small["rows"]}: implementation {got} but the case-insensitive regular-expression '
                f'search re.search(p, s, re.IGNORECASE) gives {want}', {'unicode_match': small, 'statement': q, 'got': got, 'expected': want},
                signature='unicode-match:' + q + ' rows=' + repr(small['rows'])))
    return violations, {'unicode_match_cases': len(cases), 'unicode_match_statements': 7 * len(cases), 'unicode_match_histogram': hist}


def shrink_unicode_case(c):
    for r in c['rows']:
        x = dict(c, rows=[r])
        if run_unicode_case(x):
            return x
    return c


def run(tier, rng):
    n = 2500 if tier == 'quick' else 40000
    depth = 3 if tier == 'quick' else 5
    cases = matrix_cases() + [gen_case(rng, rng.randint(1, depth)) for _ in range(n)]
    # a further stream (after the first one, whose cases stay what they were): trees in which a bool node is, one time in four,
    # a run of 2-4 directly nested NOT / IS NULL / IS NOT NULL over a non-constant bool operand
    cases += [gen_case(rng, rng.randint(1, depth), unary_chains=0.25, lib=False) for _ in range(n // 4)]
    impl_out = core.pmap(run_impl, cases)
    model_out = model_many(cases)
    violations, seen = [], set()
    ophist, depth_hist = {}, {}
    distinct, nontrivial, errors = set(), 0, 0
    date_overflows = 0
    for c, i, m in zip(cases, impl_out, model_out):
        key = statement(c) + repr(c['rows'])
        if key not in distinct:
            distinct.add(key)
            nulls = any(v is None for r in c['rows'] for v in r)
            if c['depth'] >= 2 and c['rows'] and nulls:
                nontrivial += 1
        for o in c['ops']:
            ophist[o] = ophist.get(o, 0) + 1
        depth_hist[c['depth']] = depth_hist.get(c['depth'], 0) + 1
        if i[0] == 'exception':
            errors += 1
        if i[:2] == ['exception', 'other:OverflowError'] and 'date value out of range' in str(i[2]):
            # datetime.date arithmetic leaving year 1..9999 raises in Python; the model's dates are unbounded (ASSUMPTIONS):
            # counted, not compared
            date_overflows += 1
            continue
        if i != m:
            if len(seen) >= 3:
                continue
            small = shrink(c)
            sig = 'eval:' + statement(small) + ' rows=' + repr(small['rows'])
            if sig in seen:
                continue
            seen.add(sig)
            violations.append(core.Violation(
                'row-eval', f'{statement(small)} over {small["cols"]} rows {small["rows"]}: implementation {run_impl(small)} '
                f'but BQL semantics (model) give {model_many([small], tag="c01s")[0]}',
                {'case': small, 'statement': statement(small), 'impl': run_impl(small),
                 'model': model_many([small], tag='c01s')[0]}, signature=sig))
    nsweep, bad = null_strictness_sweep()
    for what, got in bad[:3]:
        violations.append(core.Violation('null-strictness', f'{what}: returned {got} instead of NULL',
                                         {'what': what, 'got': got}, signature='null:' + what))
    nnest = 0
    for form in NEST_FORMS:
        for depth_n in NEST_DEPTHS:
            nnest += 1
            r = nesting_probe_one(form, depth_n)
            if r:
                violations.append(core.Violation('nesting', f'{r[0]} over rows {NEST_ROWS}: got {r[1]}, expected {r[2]}',
                                                 {'nesting': [form, depth_n], 'statement': r[0], 'got': repr(r[1]), 'expected': repr(r[2])},
                                                 signature=f'nesting:{form}:{depth_n}:{r[1] if isinstance(r[1], str) else "wrong value"}'))
                break
    deep = [(form, nesting_probe_one(form, NEST_DEEP)) for form in NEST_FORMS]
    nnest += len(deep)
    deep_bad = [(f, r) for f, r in deep if r]
    if deep_bad:
        kinds = sorted({r[1] if isinstance(r[1], str) else 'wrong value' for _, r in deep_bad})
        f0, r0 = deep_bad[0]
        violations.append(core.Violation(
            'deep-nesting', f'operators nested {NEST_DEEP} deep ({", ".join(f for f, _ in deep_bad)}): {"; ".join(kinds)}; e.g. {r0[0][:120]}...',
            {'nesting': [f0, NEST_DEEP], 'forms': [f for f, _ in deep_bad], 'statement': r0[0], 'got': repr(r0[1]), 'expected': repr(r0[2])},
            signature=f'deep-nesting:depth {NEST_DEEP}:' + '+'.join(kinds)))
    # (fix-I) drawn after every other stream: the streams above see the random numbers they saw before
    qviol, qcov = sequence_stream(tier, rng)
    uviol, ucov = unicode_match_stream(tier, rng)
    violations.extend(qviol + uviol)
    cov = {
        'nesting_probes': nnest, **qcov, **ucov,
        'evaluations': len(cases) + nsweep + nnest + qcov['table_replacement_executions'] + ucov['unicode_match_statements'],
        'distinct_nontrivial': nontrivial,
        'date_overflow_cases_counted_not_compared': date_overflows,
        'rule': 'random typed expression trees (depth<=%d) over tables of 2-6 typed columns, 0-12 rows, NULL density 0-50%%, used as '
                'targets and as WHERE / FROM conditions; exhaustive depth-1 matrix: every modelled binary operator overload x all '
                'pairs of pool values incl. NULL, zero, negatives, AND/OR/NOT/IS NULL/COALESCE truth tables over {NULL,TRUE,FALSE}^3; '
                'runs of 2-4 directly nested NOT / IS NULL / IS NOT NULL over non-constant bool operands in the random trees (operator_histogram '
                'unary-chain/n) and exhaustively at depth 2: every pair of those operators, NOT^2..NOT^4, spelled with and without parentheses, over '
                'bool column / AND / OR / comparison / IN / BETWEEN / match / bool() / coalesce operands on all assignments of {NULL,..} to the operand '
                'columns, each observed as a cell, under IS NULL, under COALESCE and as WHERE condition (unary_matrix_cases); '
                'one operator nested 2-10 and 40 deep over a column vs the value computed in Python (nesting_probes); '
                'NULL-strictness sweep over every registered function and operator overload x NULL position; '
                'sequences of 2-4 executions on ONE connection where the user table registered under the name is replaced between executions '
                '(other rows / no rows / another column type / the same object with other rows; same statement text, optionally a different '
                'statement in between): every execution vs the model on the table registered at that time and vs a fresh connection (rows and '
                'description); ~ and !~ with metacharacter-free patterns on non-ASCII subjects (case variants and special-casing characters of the '
                'subject\'s own substrings; constant and column operands, NULLs; as cells and as WHERE conditions) vs re.search(.., re.IGNORECASE); '
                'non-trivial = distinct (statement, table) with depth>=2, >=1 row and >=1 NULL' % depth,
        'samples': [statement(c) for c in cases[len(matrix_cases()):len(matrix_cases()) + 5]],
        'traces_validated_against_impl': len(cases), 'null_strictness_checks': nsweep,
        'unary_matrix_cases': len(unary_matrix_cases()),
        'unary_chain_trees': sum(v for k, v in ophist.items() if k.startswith('unary-chain/')),
        'operator_histogram': dict(sorted(ophist.items())), 'depth_histogram': depth_hist,
        'implementation_exceptions': errors, 'exhaustive': False,
    }
    return {'coverage': cov, 'violations': violations}


def replay(rec):
    if 'sequence' in rec:
        q = rec['sequence']
        for st in q['steps']:
            c = st['case']
            c['cols'] = [tuple(x) for x in c['cols']]
            c['rows'] = [tuple(_unjson(v, t) for v, (_, t) in zip(r, c['cols'])) for r in c['rows']]
        return check_sequence(q, tag='c01s') is None
    if 'unicode_match' in rec:
        c = rec['unicode_match']
        c['rows'] = [tuple(r) for r in c['rows']]
        return not run_unicode_case(c)
    if 'nesting' in rec:
        return nesting_probe_one(rec['nesting'][0], rec['nesting'][1]) is None
    if 'case' not in rec:
        n, bad = null_strictness_sweep()
        return not bad
    c = rec['case']
    c['rows'] = [tuple(_unjson(v, t) for v, (_, t) in zip(r, c['cols'])) for r in c['rows']]
    return run_impl(c) == model_many([c], tag='c01s')[0]


def _unjson(v, t):
    if v is None:
        return None
    if t == T_DEC:
        return D(v)
    if t == T_DATE:
        return datetime.date.fromisoformat(v)
    return v


def generate():
    """translator tie: regenerate coq/Gen/SrcEval.v (evaluation nodes) and coq/Gen/SrcExec.v (the executor's row loop)
    from the source of the imported code (py2mini)"""
    from . import gen_src
    out = dict(gen_src.generate('eval'))
    out.update(gen_src.generate('exec'))
    out.update(gen_src.generate('env'))      # the scalar library behind Eval.apply_func (C01_library_source_*)
    return out
