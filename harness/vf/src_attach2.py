"""Group `attach2` of the translator-based tie (C09, bld-inv2): what beanquery.sources.beancount.attach does to the
connection's containers.  Group `attach` (src_attach.py) ties Connection.attach up to the call of the source module's
attach, which receives the connection ITSELF; this group translates that callee.

Translated on every run into coq/Gen/SrcAttach2.v:
* `source_attach` = beanquery.sources.beancount.attach, the WHOLE function, with the connection (`context`, the first
  parameter) as the object whose attributes are the interpreter's fields;
* `attach2_tables`: for every element of the LIVE module-level list TABLES, in list order: (number of the opaque callable
  that stands for the class, qualified class name, the class's `name` attribute) - the data the primitive "attr:name"
  on a class is given its meaning from;
* `attach2_written`: the attributes of the connection the function assigns / mutates (computed from the desugared body).

Attach2Translator = py2mini.FuncTranslator (self_name = the first parameter) + the rules (AST -> AST, each fails closed)
B1 item store on a container of the connection   `ctx.A[k] = v` (statement)   -> `ctx.A = $dict.set(ctx.A, k, v)`
B2 in-place method of a container of the connection, as an expression STATEMENT (result discarded)
                                                  `ctx.A.update(x)`            -> `ctx.A = $dict.update(ctx.A, x)`
                                                  `ctx.A.extend(x)`            -> `ctx.A = $list.extend(ctx.A, x)`
   Fact B1/B2 encode (value semantics): the container is reachable only through the connection's attribute.
B3 the module-level list TABLES as a loop iterable `for t in TABLES:` (TABLES resolved against the function's globals,
   identified by identity with the live module attribute, every element a class) -> the constant list of the opaque
   callables standing for the classes, in list order.  `t.name` is then the primitive "attr:name" on such a callable,
   `t(a, b)` a call of it.
Any other use of `ctx` than `ctx.A` (passing the connection on, aliasing it) and any other mutation is rejected."""
import ast
import inspect
import sys

from . import py2mini
from .py2mini import Untranslatable, gstr, glist

PRIMS = ()
INPLACE = {'update': 'dict.update', 'extend': 'list.extend'}
_last = {}


def _qual(c):
    return f'{c.__module__}.{c.__qualname__}'


class Attach2Translator(py2mini.FuncTranslator):
    def __init__(self, func, refs, prims=()):
        params = list(inspect.signature(func).parameters)
        if not params:
            raise Untranslatable('no parameters')
        super().__init__(func, refs, self_name=params[0], prims=prims)
        self.ctx = params[0]
        self.params = self.params                      # the receiver stays in the parameter list (call_method binds it)
        self.module = sys.modules[func.__module__]
        self.tables = None
        self.written = []
        self.fd.body = [self.desugar(s) for s in self.fd.body]
        # the connection may only be used as `ctx.A`
        for n in ast.walk(self.fd):
            for c in ast.iter_child_nodes(n):
                if isinstance(c, ast.Name) and c.id == self.ctx and not isinstance(c.ctx, ast.Param if hasattr(ast, 'Param') else ()):
                    if not (isinstance(n, ast.Attribute) and n.value is c):
                        raise Untranslatable(f'{self.ctx} is used other than as {self.ctx}.<attribute>')

    def _ctx_attr(self, e):
        return isinstance(e, ast.Attribute) and isinstance(e.value, ast.Name) and e.value.id == self.ctx

    def _pcall(self, prim, *args):
        return ast.Call(func=ast.Name(id='$' + prim, ctx=ast.Load()), args=list(args), keywords=[])

    def _load(self, attr):
        return ast.Attribute(value=ast.Name(id=self.ctx, ctx=ast.Load()), attr=attr, ctx=ast.Load())

    def _store(self, attr):
        if attr not in self.written:
            self.written.append(attr)
        return ast.Attribute(value=ast.Name(id=self.ctx, ctx=ast.Load()), attr=attr, ctx=ast.Store())

    def desugar(self, s):
        if isinstance(s, ast.Assign) and len(s.targets) == 1 and isinstance(s.targets[0], ast.Subscript) \
                and self._ctx_attr(s.targets[0].value) and not isinstance(s.targets[0].slice, ast.Slice):          # B1
            a = s.targets[0].value.attr
            return ast.Assign(targets=[self._store(a)], value=self._pcall('dict.set', self._load(a), s.targets[0].slice, s.value))
        if isinstance(s, ast.Expr) and isinstance(s.value, ast.Call) and isinstance(s.value.func, ast.Attribute) \
                and self._ctx_attr(s.value.func.value) and s.value.func.attr in INPLACE and not s.value.keywords \
                and len(s.value.args) == 1 and not isinstance(s.value.args[0], ast.Starred):                       # B2
            a = s.value.func.value.attr
            return ast.Assign(targets=[self._store(a)],
                              value=self._pcall(INPLACE[s.value.func.attr], self._load(a), s.value.args[0]))
        if isinstance(s, ast.For):
            if s.orelse:
                raise Untranslatable('for .. else')
            if isinstance(s.iter, ast.Name) and s.iter.id not in self.locals:                                       # B3
                obj = self.resolve_free(s.iter.id)
                if obj is not getattr(self.module, s.iter.id, None) or not isinstance(obj, list) \
                        or not all(inspect.isclass(c) for c in obj):
                    raise Untranslatable(f'{s.iter.id}: not a module-level list of classes')
                if self.tables is not None:
                    raise Untranslatable('two loops over a module-level list')
                self.tables = (s.iter.id, list(obj))
                s.iter = self._pcall('tables')
            s.body = [self.desugar(x) for x in s.body]
            return s
        if isinstance(s, ast.If):
            s.body = [self.desugar(x) for x in s.body]
            s.orelse = [self.desugar(x) for x in s.orelse]
            return s
        if isinstance(s, (ast.While, ast.With, ast.Try, ast.FunctionDef, ast.ClassDef, ast.Delete, ast.Global, ast.Nonlocal)):
            raise Untranslatable(f'statement {type(s).__name__}')
        if isinstance(s, (ast.Assign, ast.AugAssign, ast.AnnAssign)):
            for t in (s.targets if isinstance(s, ast.Assign) else [s.target]):
                for n in ast.walk(t):
                    if isinstance(n, ast.Name) and n.id == self.ctx:
                        raise Untranslatable(f'assignment through {self.ctx} that is not an item store on an attribute')
        return s

    def expr(self, e):
        if isinstance(e, ast.Call) and isinstance(e.func, ast.Name) and e.func.id.startswith('$'):
            prim = e.func.id[1:]
            if prim == 'tables':
                return '(XList ' + glist([f'(XConst (PRef {self.refs.ref(_qual(c))}))' for c in self.tables[1]]) + ')'
            return f'(XPrim {gstr(prim)} {glist([self.expr(a) for a in e.args])})'
        return super().expr(e)


class Attach2Group:
    @staticmethod
    def translate_all(spec, prims=()):
        refs = py2mini.Refs()
        defs, info = [], {}
        tables, written = [], []
        for name, fn, origin in spec:
            tr = Attach2Translator(fn, refs, prims=prims)
            term, defaults = tr.translate()
            defs.append((name, origin + '; parameters: ' + ', '.join(tr.params) + '; rules B1-B3 of harness/vf/src_attach2.py',
                         term, defaults))
            info[name] = {'origin': origin, 'lines': len(inspect.getsource(fn).splitlines())}
            if tr.tables is None:
                raise Untranslatable(f'{origin}: no loop over a module-level list of table classes')
            for c in tr.tables[1]:
                nm = getattr(c, 'name', None)
                if not isinstance(nm, str):
                    raise Untranslatable(f'{_qual(c)}.name is not a string')
                tables.append((refs.ref(_qual(c)), _qual(c), nm))
            written = list(tr.written)
            listname = tr.tables[0]
        text = py2mini.render(defs, refs)
        text += (f'\n(* the LIVE module-level list {listname}, in order: (opaque callable standing for the class, class, its `name`) *)\n'
                 'Definition attach2_tables : list (nat * string * string) :=\n  ' +
                 glist([f'({k}%nat, {gstr(q)}, {gstr(n)})' for k, q, n in tables]) + '.\n'
                 '\n(* the attributes of the connection the function assigns (after B1 / B2) *)\n'
                 'Definition attach2_written : list string := ' + glist([gstr(w) for w in written]) + '.\n')
        _last.clear()
        _last.update({'src_attach2_tables': [n for _, _, n in tables], 'src_attach2_written': written})
        return text, info


def report():
    return dict(_last)


def spec_attach2():
    import beanquery.sources.beancount as src
    return [('source_attach', src.attach, 'beanquery.sources.beancount.attach')]


def register(groups):
    groups['attach2'] = ('SrcAttach2.v', spec_attach2, {'translator': Attach2Group, 'prims': PRIMS})
