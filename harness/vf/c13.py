"""C13: OPEN / CLOSE / CLEAR.

Correspondence, on generated ledger FILES (multi-currency, lots at cost, sales of lots,
conversions with @ prices, postings on the option Equity accounts, non-transaction directives,
sometimes renamed option accounts / conversion currency) loaded by the Beancount loader:

* relational checker (independent of the Coq model): for every clause combination the rows
  of `SELECT ... FROM [OPEN ON d] [CLOSE [ON e]] [CLEAR]` are regrouped into transactions and
  the conservation laws of the property are evaluated against an independent fold over the
  ORIGINAL entries: window, order, Assets/Liabilities inventories as of e, Income/Expenses
  activity / zero with CLEAR, other Equity accounts, every transaction balances (weights),
  total at cost zero with CLOSE; filters: rows with a FROM expression = the rows without it
  that satisfy the expression; BALANCES / BALANCES AT cost / JOURNAL / PRINT / aggregated SELECT
  agree with the plain rows; the table copy does not leak clauses into later statements.
* model comparison: the complete list of returned transactions (dates, flags, postings with
  units, cost, price, in order) equals Model/Summarize.v `run_clause` (compile check + prepare_c),
  including CompilationError for CLOSE before OPEN.
* shell: `.run name` on `query` directives = the statement with the CLOSE date predicted by
  Model `shell_close`.
"""
import datetime
import decimal
import io
import os
import shutil
import traceback

from . import core, impl
from .core import cZ, clist, copt, cbool
from .shrink import ddmin

D = decimal.Decimal
TMP = '/tmp/C13/run%d' % os.getpid()

ASSUMPTIONS = [
    'beancount.ops.summarize (open/close/clear and helpers), Inventory, the loader and booking are Beancount code: '
    'modelled in Model/Summarize.v (integer amounts), validated by the correspondence run, not verified',
    'entries returned by the loader are sorted by date (sorted_dates hypothesis; checked on every generated ledger)',
    'the five summarisation accounts come from the options and live under the Equity root (opts_equity; checked)',
    'generated amounts, costs and prices are integers so that weights are exact; Decimal arithmetic is C01',
    'original transactions carry flags * or ! (never S, T, C) and unique narrations t<i> identifying them in the output',
    'translator tie (C13_source_prepare): PyMini semantics (Model/PyMini.v) and translator (harness/vf/py2mini.py, '
    'src_ledger.py) are trusted; summarize.open_opt/close_opt/clear_opt are opaque: assumed to return (operation applied '
    'to the entries, index) [summarize_ok]; isinstance(x, datetime.date) is Model/PrimsLedger.v isinstance; the table '
    'attributes are open: date|None, close: date|True|None, clear: True|None (checked on the parser output on every run)',
    'translator tie of the statement level (bld-compiler3; C13_source_compile_from*; Gen/SrcFrom.v regenerated from compiler.py on every run): trusted in addition to the C05_source_* base: translator rules K12-K14 of harness/vf/src_compiler.py - K12 STATE THREADING: a call `x = self.m(..)` of a Compiler method that may assign self.table (the set of such attributes and methods is recomputed from the live class by threading_info and emitted next to the terms; the proofs check it is ["table"]) is read as `self.table, x = self.m(self.table, ..)`, i.e. an opaque callable that receives the table and returns the table it leaves behind next to its value; such a call anywhere else than as the whole right-hand side of an assignment is rejected; K13 set(..)/set comparison as order-insensitive list operations; K14 the leading constant of \'..{}\'.format(..) selects the exception kind - and the encodings of coq/Model/PrimsSelect.v: a table is any value with hasattr(t,\'update\') / t.update(open=,close=,clear=) uninterpreted, EvalQuery / EvalPivot are records of their constructor arguments, str.format/join are uninterpreted text; the receiver\'s attributes are a concrete prefix (its table and its methods as opaque callables) followed by an arbitrary rest; what the opaque callables return is a hypothesis of each theorem (the model\'s value; for C08_source_table_restored: ANY table and any well-shaped result)',
]

ROOTS = ['Assets', 'Equity', 'Expenses', 'Income', 'Liabilities']

# ----------------------------------------------------------------------------
# ledger generator (JSON-able representation, rendered to Beancount syntax)

ACCOUNTS = ['Assets:Bank', 'Assets:BankEUR', 'Assets:Broker', 'Assets:Cash', 'Liabilities:Card', 'Liabilities:Loan',
            'Income:Salary', 'Income:Gains', 'Expenses:Food', 'Expenses:Travel', 'Expenses:Rent',
            'Equity:Opening-Balances', 'Equity:Owner', 'Equity:Earnings:Current', 'Equity:Earnings:Previous',
            'Equity:Conversions:Current']
CURS = ['USD', 'EUR', 'CAD']
STOCKS = ['HOOL', 'VEA']
HOT_DATES = ['2019-12-30', '2019-12-31', '2020-01-01', '2020-01-02', '2020-06-30', '2020-07-01',
             '2020-12-31', '2021-01-01', '2019-11-15', '2020-03-10', '2020-03-10', '2020-09-09', '2021-02-14']
OPTION_VARIANTS = [
    {},
    {},
    {},
    {'account_current_earnings': 'Profit', 'account_previous_earnings': 'Retained'},
    {'account_previous_balances': 'Start', 'account_current_conversions': 'Fx:Now', 'account_previous_conversions': 'Fx:Before'},
    {'conversion_currency': 'NOTHING2'},
]


def rdate(rng):
    if rng.random() < 0.6:
        return rng.choice(HOT_DATES)
    return (datetime.date(2019, 11, 1) + datetime.timedelta(days=rng.randrange(0, 480))).isoformat()


def gen_ledger(rng, max_txns=22):
    n = rng.choice([0, 1, 2, 3, 5, 5, 8, 8, 12, 12, 12, 16, 16, max_txns, max_txns, max_txns])
    dates = sorted(rdate(rng) for _ in range(n))
    txns = []
    lots = []   # [stock, price, cur, date, label, remaining]
    kinds = {}
    for i, date in enumerate(dates):
        r = rng.random()
        cur = rng.choice(CURS)
        flag = rng.choice('**!')
        amt = rng.randint(1, 400)
        posts = None
        kind = None
        if r < 0.28:
            kind = 'transfer'
            a1, a2 = rng.sample(ACCOUNTS, 2)
            posts = [(a1, amt, cur, None, None), (a2, -amt, cur, None, None)]
        elif r < 0.42:
            kind = 'income-expense'
            a1 = rng.choice(['Assets:Bank', 'Assets:Cash', 'Liabilities:Card'])
            a2 = rng.choice(['Income:Salary', 'Expenses:Food', 'Expenses:Rent', 'Expenses:Travel', 'Income:Gains'])
            posts = [(a2, amt, cur, None, None), (a1, -amt, cur, None, None)]
        elif r < 0.52:
            kind = 'split'
            m = rng.randint(1, 90)
            a1, a2, a3 = rng.sample(ACCOUNTS, 3)
            posts = [(a1, amt + m, cur, None, None), (a2, -amt, cur, None, None), (a3, -m, cur, None, None)]
        elif r < 0.66:
            kind = 'buy-lot'
            stk = rng.choice(STOCKS)
            p = rng.randint(2, 60)
            q = rng.randint(1, 9)
            label = rng.choice([None, None, 'lot%d' % i])
            posts = [('Assets:Broker', q, stk, (p, cur, None, label), None), ('Assets:Bank', -q * p, cur, None, None)]
            lots.append([stk, p, cur, date, label, q])
        elif r < 0.82 and any(l[5] > 0 for l in lots):
            kind = 'sell-lot'
            lot = rng.choice([l for l in lots if l[5] > 0])
            m = rng.randint(1, lot[5])
            lot[5] -= m
            sp = rng.randint(1, 80)
            posts = [('Assets:Broker', -m, lot[0], (lot[1], lot[2], lot[3], lot[4]), (sp, lot[2])),
                     ('Assets:Bank', m * sp, lot[2], None, None)]
            if sp != lot[1]:
                posts.append(('Income:Gains', -m * (sp - lot[1]), lot[2], None, None))
        elif r < 0.90:
            kind = 'conversion-at-price'
            c2 = rng.choice([c for c in CURS if c != cur])
            rate = rng.randint(1, 5)
            posts = [(rng.choice(['Assets:Bank', 'Assets:Cash']), -amt * rate, cur, None, None),
                     (rng.choice(['Assets:BankEUR', 'Assets:Cash']), amt, c2, None, (rate, cur))]
        else:
            kind = 'foreign-expense-at-price'
            c2 = rng.choice([c for c in CURS if c != cur])
            rate = rng.randint(1, 5)
            posts = [(rng.choice(['Expenses:Travel', 'Expenses:Food', 'Income:Salary']), amt, c2, None, (rate, cur)),
                     (rng.choice(['Liabilities:Card', 'Assets:Bank']), -amt * rate, cur, None, None)]
        kinds[kind] = kinds.get(kind, 0) + 1
        txns.append({'date': date, 'flag': flag, 'posts': posts})
    extra = []
    for _ in range(rng.randint(0, 4)):
        d = rdate(rng) if rng.random() < 0.7 else '2021-%02d-01' % rng.randint(3, 9)
        k = rng.choice(['price', 'price', 'note', 'event', 'query'])
        extra.append((d, k, rng.choice(STOCKS + ['EUR']), rng.randint(1, 90)))
    return {'options': dict(rng.choice(OPTION_VARIANTS)), 'txns': txns, 'extra': extra, 'kinds': kinds}


def render(ledger, queries=()):
    out = ['option "operating_currency" "USD"']
    for k, v in ledger['options'].items():
        out.append(f'option "{k}" "{v}"')
    for a in ACCOUNTS:
        out.append(f'2018-12-31 open {a}')
    out.append('')
    for i, t in enumerate(ledger['txns']):
        out.append(f'{t["date"]} {t["flag"]} "t{i}"')
        for (a, n, c, cost, price) in t['posts']:
            s = f'  {a}  {n} {c}'
            if cost is not None:
                parts = [f'{cost[0]} {cost[1]}']
                if cost[2]:
                    parts.append(cost[2])
                if cost[3]:
                    parts.append(f'"{cost[3]}"')
                s += ' {' + ', '.join(parts) + '}'
            if price is not None:
                s += f' @ {price[0]} {price[1]}'
            out.append(s)
        out.append('')
    for (d, k, sym, n) in ledger['extra']:
        if k == 'price':
            out.append(f'{d} price {sym} {n} USD')
        elif k == 'note':
            out.append(f'{d} note Assets:Bank "n{n}"')
        elif k == 'event':
            out.append(f'{d} event "loc" "e{n}"')
        else:
            out.append(f'{d} query "x{n}" "SELECT account"')
    for (d, name, text) in queries:
        out.append(f'{d} query "{name}" "{text}"')
    return '\n'.join(out) + '\n'


def write_ledger(ledger, tag, queries=()):
    os.makedirs(TMP, exist_ok=True)
    path = os.path.join(TMP, f'{tag}.beancount')
    with open(path, 'w') as f:
        f.write(render(ledger, queries))
    return path


# ----------------------------------------------------------------------------
# implementation side

def from_clause(op, cl, clr, flt=None):
    parts = []
    if flt:
        parts.append(flt[0])
    if op:
        parts.append(f'OPEN ON {op}')
    if cl == 'ALL':
        parts.append('CLOSE')
    elif cl:
        parts.append(f'CLOSE ON {cl}')
    if clr:
        parts.append('CLEAR')
    return ('FROM ' + ' '.join(parts)) if parts else ''


ROWS_SELECT = 'SELECT entry, account, position'   # few targets: TatSu parsing costs ~8 ms per target


def cost_t(c):
    return None if c is None else (c.number, c.currency, c.date, c.label)


def own_weight(units, cost, price):
    """convert.get_weight re-done by the harness."""
    if cost is not None:
        return (cost.number * units.number, cost.currency)
    if price is not None:
        return (price.number * units.number, price.currency)
    return (units.number, units.currency)


def txn_of_entry(e):
    return {'date': e.date, 'flag': e.flag, 'narr': e.narration,
            'posts': [(p.account, p.units.number, p.units.currency, cost_t(p.cost),
                       None if p.price is None else (p.price.number, p.price.currency),
                       own_weight(p.units, p.cost, p.price)) for p in e.postings]}


class RowMismatch(Exception):
    pass


def txns_of_rows(rows):
    """Regroup posting rows (entry, account, position) into transactions: consecutive rows of
    the same entry object must be exactly its postings, in order."""
    out = []
    i = 0
    while i < len(rows):
        e = rows[i][0]
        t = txn_of_entry(e)
        for k, p in enumerate(e.postings):
            if i + k >= len(rows) or rows[i + k][0] is not e:
                raise RowMismatch(f'entry {e.date} {e.narration!r}: {len(e.postings)} postings but fewer rows')
            _, acct, pos = rows[i + k]
            if acct != p.account or pos.units != p.units or pos.cost != p.cost:
                raise RowMismatch(f'entry {e.date} {e.narration!r}: row {k} is ({acct}, {pos}) but the posting is '
                                  f'({p.account}, {p.units}, {p.cost})')
        i += len(e.postings)
        out.append(t)
    return out


def txns_of_entries(entries):
    from beancount.core import data
    return [txn_of_entry(e) for e in entries if isinstance(e, data.Transaction) and e.postings]


def add_inv(inv, key, n):
    v = inv.get(key, 0) + n
    if v == 0:
        inv.pop(key, None)
    else:
        inv[key] = v


def inventories(txns, pred=lambda t: True):
    """account -> {(currency, cost): number}, zero lots dropped -- an independent fold."""
    res = {}
    for t in txns:
        if pred(t):
            for (a, n, c, cost, _p, _w) in t['posts']:
                add_inv(res.setdefault(a, {}), (c, cost), n)
    return {a: i for a, i in res.items() if i}


def cost_totals(txns, sel=lambda a: True):
    tot = {}
    for t in txns:
        for (a, n, c, cost, _p, _w) in t['posts']:
            if sel(a):
                if cost is None:
                    add_inv(tot, c, n)
                else:
                    add_inv(tot, cost[1], n * cost[0])
    return tot


def inv_of_inventory(inventory):
    res = {}
    for pos in inventory:
        add_inv(res, (pos.units.currency, cost_t(pos.cost)), pos.units.number)
    return res


def is_orig(t):
    return t['flag'] in '*!'


FILTERS = [
    ('year = 2020', lambda t: t['date'].year == 2020),
    ('date >= 2020-03-10', lambda t: t['date'] >= datetime.date(2020, 3, 10)),
    ("flag = '*'", lambda t: t['flag'] == '*'),
    ('month <= 6', lambda t: t['date'].month <= 6),
    ("narration ~ 't1'", lambda t: 't1' in (t['narr'] or '')),
    ("NOT flag = 'S'", lambda t: t['flag'] != 'S'),
    ('day = 31 OR day = 1', lambda t: t['date'].day in (1, 31)),
]


def run_statement(conn, stmt, rows_to_txns=False):
    try:
        rows = conn.execute(stmt).fetchall()
        return 'ok', (txns_of_rows(rows) if rows_to_txns else rows)
    except RowMismatch as e:
        return 'exc', ('row-mismatch', str(e)[:300])
    except Exception as e:  # noqa: BLE001
        return 'exc', (impl.exc_class(e), str(e)[:160])


_AST_CACHE = {}
_SENT_OPEN = datetime.date(1900, 1, 1)
_SENT_CLOSE = datetime.date(1900, 1, 2)


def run_rows_cached(conn, op, cl, clr):
    """The plain-rows statement through compile + execute, with the TatSu parse of the statement
    text done once per clause shape (the dates are then set on a copy of the parsed
    From node, as BQLShell.parse does for the default CLOSE date)."""
    import copy
    key = (op is not None, 'ALL' if cl == 'ALL' else cl is not None, clr)
    if key not in _AST_CACHE:
        text = f'{ROWS_SELECT} {from_clause(op and _SENT_OPEN.isoformat(), cl if cl in (None, "ALL") else _SENT_CLOSE.isoformat(), clr)}'
        _AST_CACHE[key] = impl.beanquery.parser.parse(text)
    node = copy.deepcopy(_AST_CACHE[key])
    if node.from_clause is not None:
        if op is not None:
            assert node.from_clause.open == _SENT_OPEN
            node.from_clause.open = op
        if cl not in (None, 'ALL'):
            assert node.from_clause.close == _SENT_CLOSE
            node.from_clause.close = cl
    try:
        return 'ok', txns_of_rows(conn.execute(node).fetchall())
    except RowMismatch as e:
        return 'exc', ('row-mismatch', str(e)[:300])
    except Exception as e:  # noqa: BLE001
        return 'exc', (impl.exc_class(e), str(e)[:160])


def d_iso(d):
    return None if d is None else (d if isinstance(d, str) else d.isoformat())


def case_dates(orig_txns, entries, n_dates=9):
    """OPEN/CLOSE dates: before / inside / after the span, equal to entry dates, one day around them
    (in priority order, the first n_dates distinct ones)."""
    one = datetime.timedelta(days=1)
    tds = sorted({t['date'] for t in orig_txns})
    pri = [datetime.date(2018, 12, 30)]                 # before every directive
    if tds:
        mid = tds[len(tds) // 2]
        pri += [mid, tds[-1] + one, tds[0], mid + one, tds[-1]]
    pri.append(datetime.date(2022, 1, 1))               # after everything
    if entries:
        pri.append(entries[-1].date)
    pri.append(datetime.date(2020, 1, 1))
    ds = []
    for d in pri:
        if d not in ds:
            ds.append(d)
    return sorted(ds[:n_dates])


def inv_combos_all(dates):
    return [(op, cl) for op in dates for cl in dates if cl < op]


def position_class(d, tds):
    if d is None:
        return 'absent'
    if d == 'ALL':
        return 'no-date'
    if not tds:
        return 'empty-ledger'
    if d < tds[0]:
        return 'before-span'
    if d > tds[-1]:
        return 'after-span'
    return 'on-entry-date' if d in tds else 'inside-span'


def check_laws(orig, got, op, cl, clr, specials, roots):
    """The conservation laws of the property on the implementation's rows `got`
    (transactions), against the original transactions `orig`. Returns a list of
    (law, message)."""
    bad = []
    e = None if cl in (None, 'ALL') else cl
    in_win = lambda t: (op is None or t['date'] >= op) and (e is None or t['date'] < e)
    before_e = lambda t: e is None or t['date'] < e
    # window / unchanged / order
    got_orig = [t for t in got if is_orig(t)]
    want = [t for t in orig if in_win(t)]
    strip = lambda t: (t['date'], t['flag'], t['narr'], [p[:5] for p in t['posts']])
    if [strip(t) for t in got_orig] != [strip(t) for t in want]:
        outside = [t['narr'] for t in got_orig if not in_win(t)]
        bad.append(('window', f'original transactions returned {[t["narr"] for t in got_orig]} expected '
                              f'{[t["narr"] for t in want]} (outside window: {outside})'))
    for t in got:
        if not is_orig(t) and t['flag'] not in 'STC':
            bad.append(('foreign-entry', f'returned transaction with flag {t["flag"]!r}'))
    # dates never decrease
    ds = [t['date'] for t in got]
    if ds != sorted(ds):
        bad.append(('date-order', f'returned dates not sorted: {ds}'))
    # every transaction balances
    for t in got:
        w = {}
        for p in t['posts']:
            add_inv(w, p[5][1], p[5][0])
        if w:
            bad.append(('unbalanced', f'{t["date"]} {t["flag"]} {t["narr"]!r} weights sum to {w}'))
    inv_got = inventories(got)
    inv_asof = inventories(orig, before_e)
    inv_win = inventories(orig, in_win)
    accounts = set(inv_got) | set(inv_asof)
    for a in sorted(accounts):
        r = roots.get(a.split(':')[0])
        if r in ('Assets', 'Liabilities') or (r == 'Equity' and a not in specials):
            if inv_got.get(a, {}) != inv_asof.get(a, {}):
                bad.append(('balance-preserved', f'{a}: returned rows total {inv_got.get(a, {})} but balance as of '
                                                 f'{e or "ledger end"} is {inv_asof.get(a, {})}'))
        elif r in ('Income', 'Expenses'):
            exp = {} if clr else inv_win.get(a, {})
            if inv_got.get(a, {}) != exp:
                bad.append(('income-expenses', f'{a}: returned rows total {inv_got.get(a, {})} expected {exp}'))
    if cl is not None:
        tot = cost_totals(got)
        if tot:
            bad.append(('total-cost-zero', f'with CLOSE the returned rows total at cost {tot}, expected zero'))
        # ... i.e. Equity carries minus (A+L as of e + I/E of the window)
    else:
        # without CLOSE the generated entries are each neutral at cost
        tot = cost_totals([t for t in got if not is_orig(t)])
        if tot:
            bad.append(('generated-cost-zero', f'generated entries total at cost {tot}'))
    return bad


def conv(maps, txns, ids=True):
    """transactions -> nested int lists in the model's output format."""
    amap, cmap, lmap = maps
    out = []
    for t in txns:
        posts = []
        for (a, n, c, cost, price, _w) in t['posts']:
            assert n == int(n), n
            co = []
            if cost is not None:
                assert cost[0] == int(cost[0])
                co = [[int(cost[0]), cmap[cost[1]], cost[2].toordinal(), lmap[cost[3]]]]
            pr = []
            if price is not None:
                assert price[0] == int(price[0])
                pr = [[int(price[0]), cmap[price[1]]]]
            posts.append([list(amap[a]), int(n), cmap[c], co, pr])
        tid = int(t['narr'][1:]) if (ids and is_orig(t)) else -1
        out.append([t['date'].toordinal(), ord(t['flag']), tid, posts])
    return out


def work_ledger(arg):
    """All statements for one generated ledger. Returns a JSON-able record."""
    idx, ledger, n_extra, seed = arg[:4]
    n_dates = arg[4] if len(arg) > 4 else 9
    import random
    rng = random.Random(seed)
    res = {'idx': idx, 'violations': [], 'cases': [], 'stmts': 0, 'hist': {}, 'ledger': ledger}
    hist = res['hist']

    def bump(k, v):
        hist.setdefault(k, {})
        hist[k][v] = hist[k].get(v, 0) + 1

    try:
        import beanquery
        from beancount.core import data
        from beancount.parser import options as bc_options
        path = write_ledger(ledger, f'l{os.getpid()}_{idx}')
        conn = beanquery.connect('beancount:' + path)
        os.unlink(path)
        table = conn.tables['entries']
        entries, opts = table.entries, table.options
        res['load_errors'] = len(conn.errors)
        orig = txns_of_entries(entries)
        ds = [e.date for e in entries]
        res['sorted'] = ds == sorted(ds)
        prev = bc_options.get_previous_accounts(opts)   # earnings, balances(opening), conversions
        cur = bc_options.get_current_accounts(opts)     # earnings, conversions
        specials = [prev[0], prev[1], prev[2], cur[0], cur[1]]
        roots = {opts['name_assets']: 'Assets', opts['name_liabilities']: 'Liabilities', opts['name_equity']: 'Equity',
                 opts['name_income']: 'Income', opts['name_expenses']: 'Expenses'}
        res['specials_equity'] = all(roots.get(s.split(':')[0]) == 'Equity' for s in specials)
        ccur = opts['conversion_currency']
        # maps for the model
        accts = sorted({p[0] for t in orig for p in t['posts']} | set(specials))
        amap = {a: (ROOTS.index(roots[a.split(':')[0]]), i) for i, a in enumerate(accts)}
        curs = sorted({p[2] for t in orig for p in t['posts']} | {p[3][1] for t in orig for p in t['posts'] if p[3]}
                      | {p[4][1] for t in orig for p in t['posts'] if p[4]} | {ccur})
        cmap = {c: i + 1 for i, c in enumerate(curs)}
        labels = sorted({p[3][3] for t in orig for p in t['posts'] if p[3] and p[3][3]})
        lmap = {None: 0}
        lmap.update({l: i + 1 for i, l in enumerate(labels)})
        maps = (amap, cmap, lmap)
        # model ledger: every directive, transactions with postings
        ml = []
        for e_ in entries:
            if isinstance(e_, data.Transaction) and e_.postings:
                ml.append(conv(maps, txns_of_entries([e_]))[0])
            else:
                ml.append([e_.date.toordinal(), 0, -2, []])
        res['model_ledger'] = ml
        res['model_opts'] = [list(amap[s]) for s in specials] + [cmap[ccur]]
        tds = sorted({t['date'] for t in orig})
        dates = case_dates(orig, entries, n_dates)
        n_post = sum(len(t['posts']) for t in orig)

        def plain_ok():
            st, rows = run_statement(conn, 'SELECT account, position')
            return st == 'ok' and len(rows) == n_post

        combos = []
        for op in [None] + dates:
            for cl in [None, 'ALL'] + dates:
                for clr in (False, True):
                    combos.append((op, cl, clr))
        base = {}
        for (op, cl, clr) in combos:
            invalid = op is not None and cl not in (None, 'ALL') and cl < op
            stmt = f'{ROWS_SELECT} {from_clause(d_iso(op), d_iso(cl), clr)}'
            if rng.random() < 0.12:
                st, rows = run_statement(conn, stmt, True)
                bump('parse', 'statement text parsed')
            else:
                st, rows = run_rows_cached(conn, op, cl, clr)
                bump('parse', 'parsed once per clause shape, dates set on the AST')
            res['stmts'] += 1
            bump('open', position_class(op, tds))
            bump('close', position_class(cl, tds))
            bump('clauses', ('O' if op else '-') + ('C' if cl else '-') + ('c' if cl == 'ALL' else '-') + ('R' if clr else '-'))
            rec = {'op': op and op.toordinal(), 'cl': 'ALL' if cl == 'ALL' else (cl and cl.toordinal()), 'clr': clr,
                   'stmt': stmt}
            if st == 'exc':
                rec['impl'] = ['exc', rows[0]]
                if not (invalid and rows[0] == 'CompilationError'):
                    res['violations'].append({'law': 'exception:' + rows[0], 'stmt': stmt,
                                              'msg': f'{rows[0]}: {rows[1]}', 'clause': [d_iso(op), d_iso(cl), clr]})
            else:
                got = rows
                base[(op, cl, clr)] = got
                rec['impl'] = ['ok', conv(maps, got)]
                if invalid:
                    res['violations'].append({'law': 'close-before-open-accepted', 'stmt': stmt,
                                              'msg': 'CLOSE date before OPEN date was not rejected',
                                              'clause': [d_iso(op), d_iso(cl), clr]})
                else:
                    for law, msg in check_laws(orig, got, op, cl, clr, specials, roots):
                        res['violations'].append({'law': law, 'stmt': stmt, 'msg': msg,
                                                  'clause': [d_iso(op), d_iso(cl), clr]})
            res['cases'].append(rec)
        if not plain_ok():
            res['violations'].append({'law': 'clause-leak', 'stmt': 'SELECT account, position',
                                      'msg': 'a statement without FROM clause no longer sees the original postings',
                                      'clause': None})
        # secondary statements on a sample of the valid combinations
        valid = [c for c in combos if c in base]
        sample = rng.sample(valid, min(n_extra, len(valid))) if valid else []
        for (op, cl, clr) in sample:
            got = base[(op, cl, clr)]
            fc = from_clause(d_iso(op), d_iso(cl), clr)
            clause = [d_iso(op), d_iso(cl), clr]

            def viol(law, stmt, msg):
                res['violations'].append({'law': law, 'stmt': stmt, 'msg': msg, 'clause': clause})
            # FROM filter expressions: independence
            for flt in rng.sample(FILTERS, 2):
                stmt = f'{ROWS_SELECT} {from_clause(d_iso(op), d_iso(cl), clr, flt)}'
                st, rows = run_statement(conn, stmt, True)
                res['stmts'] += 1
                bump('filter', flt[0])
                strip = lambda ts: [(t['date'], t['flag'], t['narr'], t['posts']) for t in ts]
                if st != 'ok':
                    viol('exception:' + rows[0], stmt, f'{rows[0]}: {rows[1]}')
                elif strip(rows) != strip([t for t in got if flt[1](t)]):
                    viol('filter-independence', stmt, 'rows with the FROM expression differ from the rows without it '
                                                      'that satisfy the expression')
            invs = inventories(got)
            # aggregated SELECT
            stmt = f'SELECT account, sum(position), sum(cost(position)) {fc} GROUP BY account'
            st, rows = run_statement(conn, stmt)
            res['stmts'] += 1
            bump('kind', 'SELECT-aggregate')
            if st != 'ok':
                viol('exception:' + rows[0], stmt, f'{rows[0]}: {rows[1]}')
            else:
                agg = {a: inv_of_inventory(i) for a, i, _ in rows}
                agg = {a: i for a, i in agg.items() if i}
                costs = {}
                for a, _, ci in rows:
                    c_ = {k[0]: v for k, v in inv_of_inventory(ci).items()}
                    if c_:
                        costs[a] = c_
                want_costs = {}
                for a in invs:
                    c_ = cost_totals(got, lambda x, a=a: x == a)
                    if c_:
                        want_costs[a] = c_
                if agg != invs or costs != want_costs:
                    viol('aggregate-mismatch', stmt, f'sum(position)/sum(cost(position)) per account {agg} / {costs} differ '
                                                     f'from the totals of the plain rows {invs} / {want_costs}')
            # BALANCES
            at = rng.choice(['', ' AT cost'])
            stmt = f'BALANCES{at} {fc}'
            st, rows = run_statement(conn, stmt)
            res['stmts'] += 1
            bump('kind', 'BALANCES' + at)
            if st != 'ok':
                viol('exception:' + rows[0], stmt, f'{rows[0]}: {rows[1]}')
            else:
                b = {a: inv_of_inventory(i) for a, i in rows}
                b = {a: i for a, i in b.items() if i}
                if at:
                    w = {}
                    for a in invs:
                        c_ = cost_totals(got, lambda x, a=a: x == a)
                        if c_:
                            w[a] = {(k, None): v for k, v in c_.items()}
                else:
                    w = invs
                if b != w:
                    viol('balances-mismatch', stmt, f'BALANCES {b} differ from the totals of the plain rows {w}')
            # JOURNAL
            stmt = f'JOURNAL {fc}'
            st, rows = run_statement(conn, stmt)
            res['stmts'] += 1
            bump('kind', 'JOURNAL')
            if st != 'ok':
                viol('exception:' + rows[0], stmt, f'{rows[0]}: {rows[1]}')
            else:
                j = [(r[0], r[1], r[4], r[5].units.number, r[5].units.currency, cost_t(r[5].cost)) for r in rows]
                w = [(t['date'], t['flag'], p[0], p[1], p[2], p[3]) for t in got for p in t['posts']]
                tot = {}
                for t in got:
                    for p in t['posts']:
                        add_inv(tot, (p[2], p[3]), p[1])
                last = inv_of_inventory(rows[-1][6]) if rows else {}
                if j != w or last != tot:
                    viol('journal-mismatch', stmt, 'JOURNAL rows / final running balance differ from the plain rows')
            # PRINT (what execute_print selects before printing) -- also with a filter
            flt = rng.choice([None] + FILTERS)
            stmt = f'PRINT {from_clause(d_iso(op), d_iso(cl), clr, flt)}'
            res['stmts'] += 1
            bump('kind', 'PRINT')
            try:
                q = conn.compile(conn.parse(stmt))
                ents = [row.entry for row in q.table if q.where is None or q.where(row)]
                out = io.StringIO()
                from beanquery import query_execute
                query_execute.execute_print(q, out)
                p = txns_of_entries(ents)
                strip = lambda ts: [(t['date'], t['flag'], t['narr'], t['posts']) for t in ts]
                w = [t for t in got if flt is None or flt[1](t)]
                n_printed = sum(1 for line in out.getvalue().splitlines()
                                if line[:4].isdigit() and len(line) > 11 and line[11] in '*!STC')
                if strip(p) != strip(w) or n_printed != len(w):
                    viol('print-mismatch', stmt, f'PRINT selects {len(p)} / prints {n_printed} transactions; the plain rows '
                                                 f'have {len(w)}')
            except Exception as e:  # noqa: BLE001
                viol('exception:' + impl.exc_class(e), stmt, f'{impl.exc_class(e)}: {e}')
        # nested statements: a SELECT with its own FROM clause as right operand of IN / NOT IN inside a
        # query with its own FROM clause: the nested FROM presents the ledger according to ITS clauses only,
        # so the statement returns the outer rows filtered by the stand-alone inner result
        def shape(c):
            return ('O' if c[0] else '-') + ('c' if c[1] == 'ALL' else 'C' if c[1] else '-') + ('R' if c[2] else '-')
        by_shape = {}
        for c in valid:
            by_shape.setdefault(shape(c), []).append(c)
        shapes = sorted(by_shape)
        flat = lambda ts: [(t['date'], t['flag'], t['narr']) + p[:4] for t in ts for p in t['posts']]
        n_nested = 2 * n_extra + 8
        for k in range(n_nested if valid else 0):
            outer = rng.choice(by_shape[rng.choice(shapes)])
            inner = rng.choice(by_shape[rng.choice(shapes)])
            flt = rng.choice(FILTERS) if (shape(inner) == '---' or rng.random() < 0.5) else None
            neg = rng.random() < 0.4
            ofc = from_clause(d_iso(outer[0]), d_iso(outer[1]), outer[2])
            ifc = from_clause(d_iso(inner[0]), d_iso(inner[1]), inner[2], flt)
            stmt = f'{ROWS_SELECT} {ofc} WHERE account {"NOT " if neg else ""}IN (SELECT account {ifc})'
            clause = [[d_iso(x) if not isinstance(x, bool) else x for x in outer],
                      [d_iso(x) if not isinstance(x, bool) else x for x in inner]]
            res['stmts'] += 2
            bump('nested', shape(outer) + ' / ' + shape(inner) + (' +expr' if flt else ''))
            bump('kind', 'nested NOT IN' if neg else 'nested IN')
            st0, inner_rows = run_statement(conn, f'SELECT DISTINCT account {ifc}')
            st, rows = run_statement(conn, stmt)
            if st0 != 'ok' or st != 'ok':
                bad_ = rows if st != 'ok' else inner_rows
                res['violations'].append({'law': 'exception:' + bad_[0], 'stmt': stmt, 'msg': f'{bad_[0]}: {bad_[1]}',
                                          'clause': clause})
                continue
            accts = {r[0] for r in inner_rows}
            # the stand-alone inner statement itself agrees with the plain rows of its clause combination
            want_accts = {p[0] for t in base[inner] if flt is None or flt[1](t) for p in t['posts']}
            got_rows = [(e_.date, e_.flag, e_.narration, a_, pos.units.number, pos.units.currency, cost_t(pos.cost))
                        for (e_, a_, pos) in rows]
            # query_compile.EvalConstantSubquery1D: "Subqueries not returning any row are treated as NULL", so both
            # `x IN (empty)` and `x NOT IN (empty)` are NULL and select nothing (operator semantics, not C13's subject)
            want_rows = [r for r in flat(base[outer]) if (r[3] in accts) != neg] if accts else []
            bump('nested_inner_result', 'empty' if not accts else 'non-empty')
            if accts != want_accts:
                res['violations'].append({'law': 'nested-inner-standalone', 'stmt': f'SELECT DISTINCT account {ifc}',
                                          'msg': f'accounts {sorted(accts)} differ from those of the plain rows {sorted(want_accts)}',
                                          'clause': clause})
            elif got_rows != want_rows:
                res['violations'].append({
                    'law': 'nested-from-independent', 'stmt': stmt,
                    'msg': f'returns {len(got_rows)} rows; the rows of `{ROWS_SELECT} {ofc}` whose account is '
                           f'{"not " if neg else ""}in the result of the stand-alone `SELECT DISTINCT account {ifc}` '
                           f'({len(accts)} accounts) are {len(want_rows)}',
                    'clause': clause})
        # CLOSE before OPEN inside a nested FROM clause is rejected whatever the outer clauses are; an inner OPEN
        # after the OUTER close date is not (covered above: the two FROM clauses are independent)
        for (op, cl) in rng.sample(inv_combos_all(dates), min(4, len(inv_combos_all(dates)))):
            outer = rng.choice(valid) if valid else (None, None, False)
            ofc = from_clause(d_iso(outer[0]), d_iso(outer[1]), outer[2])
            stmt = (f'SELECT account {ofc} WHERE account {rng.choice(["IN", "NOT IN"])} '
                    f'(SELECT account {from_clause(d_iso(op), d_iso(cl), rng.random() < 0.5)})')
            res['stmts'] += 1
            bump('kind', 'invalid-order:nested')
            try:
                conn.compile(conn.parse(stmt))
                res['violations'].append({'law': 'close-before-open-accepted', 'stmt': stmt,
                                          'msg': 'CLOSE date before OPEN date in a nested FROM clause was not rejected',
                                          'clause': [d_iso(op), d_iso(cl), False]})
            except Exception as e:  # noqa: BLE001
                if impl.exc_class(e) != 'CompilationError':
                    res['violations'].append({'law': 'exception:' + impl.exc_class(e), 'stmt': stmt,
                                              'msg': f'{impl.exc_class(e)}: {e}', 'clause': [d_iso(op), d_iso(cl), False]})
        # invalid date order for the other statement kinds
        inv_combos = [(op, cl) for op in dates for cl in dates if cl < op]
        for (op, cl) in rng.sample(inv_combos, min(3, len(inv_combos))):
            for kw in ('BALANCES', 'JOURNAL', 'PRINT', 'SELECT account WHERE date > 2000-01-01'):
                if kw.startswith('SELECT'):
                    stmt = f'SELECT account {from_clause(d_iso(op), d_iso(cl), False)} WHERE number > 0'
                else:
                    stmt = f'{kw} {from_clause(d_iso(op), d_iso(cl), rng.random() < 0.5)}'
                res['stmts'] += 1
                bump('kind', 'invalid-order:' + kw.split()[0])
                try:
                    conn.compile(conn.parse(stmt))
                    res['violations'].append({'law': 'close-before-open-accepted', 'stmt': stmt,
                                              'msg': 'CLOSE date before OPEN date was not rejected',
                                              'clause': [d_iso(op), d_iso(cl), False]})
                except Exception as e:  # noqa: BLE001
                    if impl.exc_class(e) != 'CompilationError':
                        res['violations'].append({'law': 'exception:' + impl.exc_class(e), 'stmt': stmt,
                                                  'msg': f'{impl.exc_class(e)}: {e}',
                                                  'clause': [d_iso(op), d_iso(cl), False]})
        if not plain_ok():
            res['violations'].append({'law': 'clause-leak', 'stmt': 'SELECT account, position',
                                      'msg': 'a statement without FROM clause no longer sees the original postings',
                                      'clause': None})
        res['n_txns'] = len(orig)
    except Exception:  # noqa: BLE001
        res['error'] = traceback.format_exc()
    # keep the payload small: drop cases of ledgers whose output is not needed again
    return res


# ----------------------------------------------------------------------------
# model side

def c_acct(a):
    return f'({["Assets", "Equity", "Expenses", "Income", "Liabilities"][a[0]]}, {cZ(a[1])})'


def c_posting(p):
    a, n, c, co, pr = p
    cost = 'None' if not co else f'(Some (mkCost {cZ(co[0][0])} {cZ(co[0][1])} {cZ(co[0][2])} {cZ(co[0][3])}))'
    price = 'None' if not pr else f'(Some ({cZ(pr[0][0])}, {cZ(pr[0][1])}))'
    return f'mkP {c_acct(a)} {cZ(n)} {cZ(c)} {cost} {price}'


def c_txn(t):
    return f'mkT {cZ(t[0])} {cZ(t[1])} {cZ(t[2])} {clist([c_posting(p) for p in t[3]])}'


def c_clause(rec):
    op = copt(rec['op'], cZ)
    if rec['cl'] is None:
        cl = 'None'
    elif rec['cl'] == 'ALL':
        cl = '(Some CloseAll)'
    else:
        cl = f'(Some (CloseOn {cZ(rec["cl"])}))'
    return f'({op}, {cl}, {cbool(rec["clr"])})'


def model_many(results, tag='c13', per_file=2):
    tag = f'{tag}_{os.getpid()}'
    """One `Eval vm_compute` per (ledger, clause); the ledger and the options are
    Definitions shared by the clauses of a file. -> per ledger, the list of parsed outputs."""
    import subprocess  # noqa: F401
    from concurrent.futures import ThreadPoolExecutor
    d = os.path.join(core.BUILD, 'cases', tag)
    shutil.rmtree(d, ignore_errors=True)
    os.makedirs(d)
    hdr = core.HEADER.format(imports='From Verif Require Import Model.Summarize.')
    jobs = []
    for k in range(0, len(results), per_file):
        part = results[k:k + per_file]
        path = os.path.join(d, f'cases_{k // per_file:04d}.v')
        n = 0
        with open(path, 'w') as f:
            f.write(hdr)
            for j, res in enumerate(part):
                o = res['model_opts']
                f.write(f'Definition O{j} := mkOpts ' + ' '.join(c_acct(a) for a in o[:5]) + ' ' + cZ(o[5]) + '.\n')
                f.write(f'Definition L{j} := {clist([c_txn(t) for t in res["model_ledger"]])}.\n')
                for rec in res['cases']:
                    f.write(f'Eval vm_compute in show (run_clause O{j} L{j} {c_clause(rec)}).\n')
                    n += 1
        jobs.append((path, n))
    with ThreadPoolExecutor(core.NCPU) as ex:
        parts = list(ex.map(core._run_shard, jobs))
    shutil.rmtree(d, ignore_errors=True)
    flat = [r for p_ in parts for r in p_]
    out = []
    pos = 0
    for res in results:
        out.append(flat[pos:pos + len(res['cases'])])
        pos += len(res['cases'])
    return out


def model_view(m):
    """model output of one clause -> the comparison format of `conv`."""
    if m[0] == 1:
        return ['exc', 'CompilationError']
    return ['ok', [[t[0], t[1], t[2], [[p[0], p[1], p[2], p[3], p[4]] for p in t[3]]] for t in m[1]]]


def norm_impl(i):
    return i


def compare_ledger(res, mout):
    """-> list of violation dicts for one ledger (model vs implementation)."""
    out = []
    for rec, m in zip(res['cases'], mout):
        mv = model_view(m)
        if rec['impl'] != mv:
            if rec['impl'][0] == 'ok' and mv[0] == 'ok':
                a, b = rec['impl'][1], mv[1]
                k = next((j for j in range(min(len(a), len(b))) if a[j] != b[j]), min(len(a), len(b)))
                msg = (f'returned transactions differ from the summarize model at position {k}: implementation '
                       f'{a[k] if k < len(a) else None} model {b[k] if k < len(b) else None} '
                       f'(lengths {len(a)} / {len(b)})')
            else:
                msg = f'implementation {rec["impl"][:2] if rec["impl"][0] == "exc" else "rows"} model {mv[:2] if mv[0] == "exc" else "rows"}'
            out.append({'law': 'model-mismatch', 'stmt': rec['stmt'], 'msg': msg,
                        'clause': [rec['op'], rec['cl'], rec['clr']]})
    return out


# ----------------------------------------------------------------------------
# shell: default CLOSE date of `.run`

SHELL_FORMS = [
    # (query text with {close} placeholder where a CLOSE clause would go, select_with_from, own close)
    ('SELECT date, flag, account, position FROM OPEN ON 2020-01-01{close}', True, None),
    ('SELECT date, flag, account, position FROM year >= 2019{close}', True, None),
    ('SELECT date, flag, account, position FROM{close} CLEAR', True, None),
    ('SELECT date, flag, account, position FROM OPEN ON 2020-01-01 CLOSE ON 2020-07-01', True, 'ON'),
    ('SELECT date, flag, account, position FROM OPEN ON 2020-01-01 CLOSE', True, 'ALL'),
    ('SELECT account, sum(position) FROM OPEN ON 2019-12-31{close} CLEAR GROUP BY account ORDER BY account', True, None),
    ('SELECT date, flag, account, position', False, None),
    ('BALANCES FROM OPEN ON 2020-01-01', False, None),
    ('JOURNAL FROM OPEN ON 2020-01-01', False, None),
    ('SELECT date, account, position FROM OPEN ON 2021-01-01{close}', True, None),
]
SHELL_QDATES = ['2020-03-10', '2020-07-01', '2021-01-01', '2019-01-01', '2022-01-01', '2020-12-31']


def work_shell(arg):
    idx, ledger = arg
    from beanquery import shell
    import contextlib
    queries = []
    forms = []
    k = 0
    for qd in SHELL_QDATES:
        for (text, swf, own) in SHELL_FORMS:
            name = f'q{k}'
            k += 1
            queries.append((qd, name, text.replace('{close}', '')))
            forms.append((name, qd, text, swf, own))
    path = write_ledger(ledger, f's{os.getpid()}_{idx}', queries)
    recs = []
    try:
        out = io.StringIO()
        err = io.StringIO()
        with contextlib.redirect_stderr(err), contextlib.redirect_stdout(out):
            sh = shell.BQLShell(path, out)

        def run(cmd):
            for f in (out, err):
                f.seek(0)
                f.truncate(0)
            with contextlib.redirect_stderr(err), contextlib.redirect_stdout(out):
                try:
                    sh.onecmd(cmd)
                except Exception as e:  # noqa: BLE001
                    out.write(f'EXC {type(e).__name__}: {e}')
            return out.getvalue() + '\n--stderr--\n' + err.getvalue()
        for (name, qd, text, swf, own) in forms:
            got = run(f'.run {name}')
            recs.append({'name': name, 'qdate': qd, 'text': text, 'swf': swf, 'own': own, 'got': got})
        # expected outputs are produced after the model has spoken (second pass): keep the runner handy
        # ... typed into a FRESH shell that never executed `.run` (a shell session must not remember the
        # default CLOSE date of an earlier `.run`; see also work_shell_session)
        with contextlib.redirect_stderr(err), contextlib.redirect_stdout(out):
            sh = shell.BQLShell(path, out)
        for r in recs:
            r['with_close'] = run(r['text'].replace('{close}', f' CLOSE ON {r["qdate"]}'))
            r['without'] = run(r['text'].replace('{close}', ''))
    finally:
        os.unlink(path)
    return recs


SESSION_TYPED = [
    'SELECT date, flag, account, position FROM year >= 2019',
    'SELECT date, flag, account, position FROM OPEN ON 2020-01-01',
    'SELECT date, flag, account, position FROM CLEAR',
    'SELECT account, sum(position) FROM OPEN ON 2019-12-31 CLEAR GROUP BY account ORDER BY account',
    'SELECT date, account, position',
    'BALANCES FROM OPEN ON 2020-01-01',
    'JOURNAL FROM year >= 2019',
    "JOURNAL 'Assets' FROM OPEN ON 2020-01-01 CLEAR",
    'SELECT date, flag, account, position FROM OPEN ON 2020-01-01 CLOSE ON 2020-07-01',
    'SELECT date, flag, account, position FROM OPEN ON 2020-01-01 CLOSE',
]


def work_shell_session(arg):
    """Shell SESSIONS: `.run NAME` / `.run *` followed by typed statements in the same shell. Every typed
    statement must print what the same statement gives through the API on a fresh connection (rendered with
    the shell's own renderer): nothing of the `.run` (its default CLOSE date) may stick to the session."""
    idx, ledger, seed = arg
    import contextlib
    import random
    import beanquery
    from beanquery import shell
    rng = random.Random(seed)
    tds = sorted({t['date'] for t in ledger['txns']})
    # query directives dated inside the span, so that transactions follow them
    qdates = sorted({tds[len(tds) // 3], tds[len(tds) // 2], tds[0]})
    named = []
    for i, qd in enumerate(qdates):
        named.append((qd, f's{i}', rng.choice(SESSION_TYPED[:4])))
    named.append((qdates[0], 'sb', 'BALANCES FROM OPEN ON 2019-12-31'))
    path = write_ledger(ledger, f'n{os.getpid()}_{idx}', named)
    out_v = []
    stats = {'typed': 0, 'discriminating': 0, 'sessions': 0}
    try:
        api = beanquery.connect('beancount:' + path)
        settings = shell.Settings(format='text', numberify=False)

        def api_text(stmt):
            conn = api
            curs = conn.execute(stmt)
            o = io.StringIO()
            shell.FORMATS['text'](curs.description, curs.fetchall(), o, dcontext=conn.options['dcontext'], **settings.todict())
            return o.getvalue()
        expected = {t: api_text(t) for t in SESSION_TYPED}
        for first in [f'.run {n}' for _, n, _ in named] + ['.run *', '.run s0\n.run *']:
            out = io.StringIO()
            err = io.StringIO()
            with contextlib.redirect_stderr(err), contextlib.redirect_stdout(out):
                sh = shell.BQLShell(path, out)
                for cmd in first.split('\n'):
                    try:
                        sh.onecmd(cmd)
                    except Exception as e:  # noqa: BLE001
                        out.write(f'EXC {type(e).__name__}: {e}')
            stats['sessions'] += 1
            # the date a stale default would be: that of the (last) query run
            stale = named[-1][0] if first.endswith('*') else next(d for d, n, _ in named if first == f'.run {n}')
            for stmt in rng.sample(SESSION_TYPED, 6):
                out.seek(0)
                out.truncate(0)
                with contextlib.redirect_stderr(err), contextlib.redirect_stdout(out):
                    try:
                        sh.onecmd(stmt)
                    except Exception as e:  # noqa: BLE001
                        out.write(f'EXC {type(e).__name__}: {e}')
                got = out.getvalue()
                stats['typed'] += 1
                if ' CLOSE' not in stmt and ' FROM ' in stmt and stmt.startswith('SELECT'):
                    try:
                        k = stmt.index(' GROUP BY') if ' GROUP BY' in stmt else len(stmt)
                        with_stale = stmt[:k].replace(' CLEAR', '') + f' CLOSE ON {stale}' + (' CLEAR' if ' CLEAR' in stmt[:k] else '') + stmt[k:]
                        if api_text(with_stale) != expected[stmt]:
                            stats['discriminating'] += 1
                    except Exception:  # noqa: BLE001
                        pass
                if got != expected[stmt]:
                    out_v.append({'law': 'shell-session', 'stmt': f'{first!r} then {stmt!r}',
                                  'msg': f'after {first!r} the typed statement prints {len(got.splitlines())} lines; the same '
                                         f'statement through the API on a fresh connection renders {len(expected[stmt].splitlines())} '
                                         f'lines (first difference: '
                                         f'{next(((a, b) for a, b in zip(got.splitlines() + [None], expected[stmt].splitlines() + [None]) if a != b), None)})',
                                  'clause': None})
    finally:
        os.unlink(path)
    return out_v, stats


def shell_model(recs):
    exprs = []
    for r in recs:
        cl = 'None' if r['own'] is None else ('(Some CloseAll)' if r['own'] == 'ALL' else '(Some (CloseOn 737607))')
        exprs.append(f'o_close (shell_close {cbool(r["swf"])} {cl} (Some {cZ(datetime.date.fromisoformat(r["qdate"]).toordinal())}))')
    return core.coq_eval('c13sh_%d' % os.getpid(), ['Model.Summarize'], exprs, shard=1000)


def check_shell(recs, mouts):
    out = []
    for r, m in zip(recs, mouts):
        qord = datetime.date.fromisoformat(r['qdate']).toordinal()
        if r['own'] is None:
            # the model says whether the default CLOSE date is applied
            applied = (m == [2, qord])
            assert applied or m == [], m
            want = r['with_close'] if applied else r['without']
        else:
            assert m in ([1], [2, 737607]), m
            applied = False
            want = r['without']
        differs = r['with_close'] != r['without']
        if r['got'] != want:
            out.append({'law': 'shell-default-close', 'stmt': f'.run {r["name"]}  -- {r["qdate"]} query "{r["text"]}"',
                        'msg': f'.run output differs from the statement with the CLOSE clause predicted by the model '
                               f'(default applied: {applied})', 'clause': None})
        r['applied'] = applied
        r['discriminating'] = differs
    return out


# ----------------------------------------------------------------------------

CORPUS = [
    {'options': {}, 'kinds': {}, 'extra': [('2021-06-01', 'price', 'HOOL', 120), ('2020-06-01', 'query', 'x', 1)], 'txns': [
        {'date': '2019-02-01', 'flag': '*', 'posts': [('Assets:Cash', 1000, 'USD', None, None), ('Income:Salary', -1000, 'USD', None, None)]},
        {'date': '2019-03-01', 'flag': '*', 'posts': [('Assets:Broker', 2, 'HOOL', (100, 'USD', None, None), None), ('Assets:Cash', -200, 'USD', None, None)]},
        {'date': '2020-02-01', 'flag': '*', 'posts': [('Assets:Cash', -110, 'USD', None, None), ('Assets:Cash', 10, 'EUR', None, (11, 'USD'))]},
        {'date': '2020-03-01', 'flag': '!', 'posts': [('Expenses:Food', 10, 'EUR', None, None), ('Assets:Cash', -10, 'EUR', None, None)]},
        {'date': '2021-03-01', 'flag': '*', 'posts': [('Expenses:Food', 20, 'USD', None, None), ('Assets:Cash', -20, 'USD', None, None)]},
    ]},
    {'options': {}, 'kinds': {}, 'extra': [], 'txns': []},
]


def signature(v):
    return f'{v["law"]}'


def shrink_violation(v, ledger):
    """Smallest sub-ledger on which the same law still fails for the same clause."""
    law = v['law']

    def fails(txns):
        l2 = dict(ledger)
        l2['txns'] = txns
        r = work_ledger((0, l2, 0, 0))
        if 'error' in r:
            return False
        vs = list(r['violations'])
        if law == 'model-mismatch':
            vs += compare_ledger(r, model_many([r], tag='c13s')[0])
        return any(x['law'] == law for x in vs)
    try:
        if len(ledger['txns']) >= 2 and law != 'model-mismatch':
            l2 = dict(ledger)
            l2['txns'] = ddmin(ledger['txns'], fails, max_tests=60)
            return l2
        if len(ledger['txns']) >= 2:
            l2 = dict(ledger)
            l2['txns'] = ddmin(ledger['txns'], fails, max_tests=12)
            return l2
    except Exception:  # noqa: BLE001
        core.log(traceback.format_exc())
    return ledger


def first_violation(ledger, law):
    r = work_ledger((0, ledger, 6, 0))
    if 'error' in r:
        return {'law': 'harness-error', 'stmt': '', 'msg': r['error'], 'clause': None}
    vs = list(r['violations']) + compare_ledger(r, model_many([r], tag='c13s')[0])
    return next((x for x in vs if x['law'] == law), None)


def run(tier, rng):
    n_ledgers = 20 if tier == 'quick' else 200
    n_extra = 8 if tier == 'quick' else 14
    n_dates = 6 if tier == 'quick' else 9
    shutil.rmtree(TMP, ignore_errors=True)
    os.makedirs(TMP, exist_ok=True)
    ledgers = list(CORPUS) + [gen_ledger(rng) for _ in range(n_ledgers)]
    args = [(i, l, n_extra, rng.randrange(1 << 30), n_dates) for i, l in enumerate(ledgers)]
    results = core.pmap(work_ledger, args, chunksize=1) if len(args) >= 64 else _pmap_small(work_ledger, args)
    errors = [r for r in results if 'error' in r]
    if errors:
        raise RuntimeError('worker failed: ' + errors[0]['error'])
    mouts = model_many(results)
    raw = []
    for r, m in zip(results, mouts):
        for v in r['violations'] + compare_ledger(r, m):
            raw.append((v, r['ledger']))
    # generator validity
    for r in results:
        if not r['sorted']:
            raw.append(({'law': 'assumption-sorted', 'stmt': '', 'msg': 'loader returned entries not sorted by date', 'clause': None}, r['ledger']))
        if not r['specials_equity']:
            raw.append(({'law': 'assumption-opts-equity', 'stmt': '', 'msg': 'an option account is not under Equity', 'clause': None}, r['ledger']))
    # shell
    shell_ledgers = [ledgers[0]] + [l for l in ledgers[2:] if len(l['txns']) >= 5][: (2 if tier == 'quick' else 10)]
    shell_recs = _pmap_small(work_shell, list(enumerate(shell_ledgers)))
    n_shell = 0
    n_shell_disc = 0
    for recs, l in zip(shell_recs, shell_ledgers):
        ms = shell_model(recs)
        for v in check_shell(recs, ms):
            raw.append((v, l))
        n_shell += len(recs)
        n_shell_disc += sum(1 for r in recs if r['discriminating'])

    sess_ledgers = [ledgers[0]] + [l for l in ledgers[2:] if len({t['date'] for t in l['txns']}) >= 4][: (3 if tier == 'quick' else 16)]
    sess = _pmap_small(work_shell_session, [(i, l, rng.randrange(1 << 30)) for i, l in enumerate(sess_ledgers)])
    sess_stats = {'typed': 0, 'discriminating': 0, 'sessions': 0}
    for (vs, st), l in zip(sess, sess_ledgers):
        for v in vs:
            raw.append((v, l))
        for k in sess_stats:
            sess_stats[k] += st[k]

    violations = []
    seen = set()
    for v, ledger in raw:
        sig = signature(v)
        if sig in seen:
            continue
        seen.add(sig)
        if len(violations) < 3 and not v['law'].startswith(('assumption', 'shell')):
            small = shrink_violation(v, ledger)
            v2 = first_violation(small, v['law']) or v
            if v2 is not v:
                ledger = small
            v = v2
        violations.append(core.Violation(
            v['law'], f'{v["stmt"]}: {v["msg"][:600]}',
            {'ledger': ledger, 'beancount': render(ledger), 'statement': v['stmt'], 'clause': v['clause'],
             'law': v['law'], 'message': v['msg']}, signature=sig))
        if len(violations) >= 6:
            break

    hist = {}
    for r in results:
        for k, d in r['hist'].items():
            for kk, n in d.items():
                hist.setdefault(k, {})
                hist[k][kk] = hist[k].get(kk, 0) + n
    hist['txns_per_ledger'] = {}
    hist['posting_kinds'] = {}
    for r in results:
        hist['txns_per_ledger'][r['n_txns']] = hist['txns_per_ledger'].get(r['n_txns'], 0) + 1
        for k, n in r['ledger'].get('kinds', {}).items():
            hist['posting_kinds'][k] = hist['posting_kinds'].get(k, 0) + n
    hist['options'] = {}
    for r in results:
        k = ','.join(sorted(r['ledger']['options'])) or 'default'
        hist['options'][k] = hist['options'].get(k, 0) + 1
    n_cases = sum(len(r['cases']) for r in results)
    n_stmts = sum(r['stmts'] for r in results)
    nontrivial = sum(1 for r in results for c in r['cases']
                     if c['impl'][0] == 'ok' and any(t[1] in (83, 84, 67) for t in c['impl'][1]))
    cov = {
        'evaluations': n_stmts + n_shell * 3 + sess_stats['typed'],
        'distinct_nontrivial': nontrivial,
        'clause_combinations_compared_with_model': n_cases,
        'ledgers': len(results),
        'ledgers_with_load_errors': sum(1 for r in results if r.get('load_errors')),
        'shell_sessions': sess_stats['sessions'], 'shell_session_typed_statements': sess_stats['typed'],
        'shell_session_typed_statements_where_a_stale_close_would_change_output': sess_stats['discriminating'],
        'shell_run_queries': n_shell, 'shell_run_queries_where_default_close_changes_output': n_shell_disc,
        'rule': 'generated ledger files (0-22 transactions on colliding dates around year ends: transfers, income/expense, splits, '
                'lots bought at cost with and without labels, partial sales of lots at a price with gains, currency '
                'conversions and foreign expenses at @ prices, postings on the option Equity accounts; price/note/event/query '
                'directives incl. after the last transaction; renamed option accounts / conversion currency) x every '
                '(OPEN date or none) x (no CLOSE, CLOSE, CLOSE ON date) x CLEAR over up to 9 dates (before/after the span, entry dates, '
                'day after, directive end) incl. CLOSE before OPEN; per combination the posting rows are checked against the '
                'conservation laws (independent fold over the original entries) and compared with the Coq model; on a sample: '
                '2 FROM filters, aggregated SELECT, BALANCES [AT cost], JOURNAL, PRINT [filter]; nested statements `<outer FROM> WHERE account [NOT] IN (SELECT account <inner FROM>)` with outer and inner clause shapes drawn uniformly from all 12 x 12 (inner optionally with an expression) '
                'must return the outer rows filtered by the stand-alone inner result, and CLOSE before OPEN inside the nested FROM is rejected; '
                'shell: `.run name` vs the statement with the CLOSE date predicted by the model typed into a fresh shell, and shell SESSIONS '
                '(`.run NAME` / `.run *` on query directives dated inside the span, then typed SELECT / BALANCES / JOURNAL statements in the same '
                'shell, each equal to the API result on a fresh connection rendered by the shell renderer); non-trivial = combination '
                'whose result contains generated (S/T/C) entries',
        'samples': [c['stmt'] for c in results[0]['cases'][40:44]] + [render(ledgers[3])[:700]],
        'traces_validated_against_impl': n_cases,
        'histograms': hist, 'exhaustive': False,
    }
    shutil.rmtree(TMP, ignore_errors=True)
    return {'coverage': cov, 'violations': violations}


def _pmap_small(fn, items):
    import multiprocessing as mp
    items = list(items)
    if len(items) <= 1:
        return [fn(x) for x in items]
    ctx = mp.get_context('fork')
    with ctx.Pool(min(core.NCPU, len(items))) as pool:
        return pool.map(fn, items, 1)


# ----------------------------------------------------------------------------
# translator tie (PyMini): BeanTable.prepare
def _clause_value_census():
    """the kinds of values the parser puts into From.open / close / clear (what BeanTable.update hands to prepare):
    the encoding the theorem C13_source_prepare is stated over (date | None, date | True | None, True | None)"""
    from beanquery import parser
    seen = {'open': set(), 'close': set(), 'clear': set()}
    for op in ('', 'OPEN ON 2020-01-01'):
        for cl in ('', 'CLOSE ON 2021-01-01', 'CLOSE'):
            for clr in ('', 'CLEAR'):
                text = f'SELECT date FROM year = 2020 {op} {cl} {clr}'
                node = parser.parse(text).from_clause
                for k in seen:
                    v = getattr(node, k)
                    seen[k].add('None' if v is None else 'True' if v is True else
                                'date' if type(v) is datetime.date else repr(type(v)))
    allowed = {'open': {'None', 'date'}, 'close': {'None', 'date', 'True'}, 'clear': {'None', 'True'}}
    bad = {k: sorted(v - allowed[k]) for k, v in seen.items() if v - allowed[k]}
    if bad:
        raise RuntimeError(f'From clause attribute values outside the encoding of C13_source_prepare: {bad}')
    return {k: sorted(v) for k, v in seen.items()}


def generate():
    """translator tie: regenerate coq/Gen/SrcLedgerPrepare.v from the source of the imported BeanTable.prepare"""
    from . import gen_src
    out = gen_src.generate('ledger_prepare')
    # bld-compiler3: Compiler._compile_from -> coq/Gen/SrcFrom.v (C13_source_compile_from*, Proofs/SrcFrom.v)
    out.update(gen_src.generate('from'))
    out['src_ledger_prepare_clause_values'] = _clause_value_census()
    return out


def replay(rec):
    ledger = rec['ledger']
    ledger['txns'] = [{'date': t['date'], 'flag': t['flag'],
                       'posts': [(p[0], p[1], p[2], tuple(p[3]) if p[3] else None, tuple(p[4]) if p[4] else None)
                                 for p in t['posts']]} for t in ledger['txns']]
    ledger['extra'] = [tuple(x) for x in ledger['extra']]
    law = rec['law']
    if law == 'shell-session':
        return not work_shell_session((0, ledger, 0))[0]
    if law.startswith('shell'):
        recs = work_shell((0, ledger))
        return not check_shell(recs, shell_model(recs))
    return first_violation(ledger, law) is None
