"""C02: aggregation. Correspondence: generated aggregate SELECTs (grouping keys by expression / output name /
position, visible or hidden, explicit or implicit; every aggregate function; arithmetic over aggregates; WHERE,
HAVING, ORDER BY, DISTINCT, LIMIT) on harness tables vs Model/Exec.v (exec_out)."""
import random
import datetime
import decimal

from . import core, impl, values, exprgen
from .core import clist, copt, cbool, cpair, cZ
from .exprgen import T_INT, T_DEC, T_STR, T_DATE, T_BOOL, PY, E, mk
from .shrink import ddmin_batch

D = decimal.Decimal
ASSUMPTIONS = [
    'the harness resolves GROUP BY / ORDER BY references and allocates aggregate handles itself (independent of the compiler)',
    'grouping keys compare with Python == (1 == 1.0 == TRUE); the first row of a group supplies the key representative',
    'Decimal sums modelled bit-exactly (as_tuple) at precision 28',
    # translator tie (group `agg`, harness/vf/src_agg.py -> coq/Gen/SrcAgg.v; C02_source_*)
    'C02_source_*: the PyMini semantics and the primitives of Model/PrimsAgg.v are trusted: the store is a list indexed by '
    'handle, the dict `aggregates` an insertion-ordered association list keyed by Python == of the key tuple (d[k] = v on '
    'a present key keeps the stored key and its position), `+` on scalars is Eval.bin BAdd (a TypeError being the error '
    'value VErr, as in the executor model), an Allocator / aggregator node is the tuple of its attributes and its methods '
    'are the TRANSLATED method bodies',
    'C02_source_* aliasing assumptions of the desugaring (src_agg.py A1-A9): protocol methods change their first argument '
    '(store / allocator) only in place (A1: in-out argument); the aggregate nodes in c_aggregate_exprs are pairwise distinct '
    'objects changed only through the loop variable (A2); a compiled expression is a function of the context and of the '
    'state of those nodes only (A3); `store = aggregates[key]` is defaultdict.__missing__ with create() inlined (A4) and '
    'the list it yields is reachable only through `store` and the dict entry until the end of the block, where it is '
    'written back; aggregates and key are not rebound in between (A5, checked syntactically)',
    'C02_source_scan_loop / _agg_branch: operands, WHERE and grouping targets are opaque callables whose values are not '
    'exceptions (C04) and do not depend on the state of the aggregate nodes; the values of a min/max argument column are '
    'pairwise comparable (same kind); compiler.get_columns_and_aggregates is an opaque callable returning (columns, the '
    'aggregate nodes below the target in hunting order), and those nodes, concatenated over the non-grouped targets, are '
    'the aggregates of the model query in handle order (C02_source_allocate_loop proves handle = position)',
    'C02_source_output_loop / _agg_branch: a non-grouped target is an opaque callable of (context, aggregate nodes) that, '
    'with the finalised value slots[h] parked on node h, returns Eval.eval ctx slots e (EvalAggregator.__call__ = EAgg h: '
    'C02_source_finalize_call) whenever that is not an exception; no cell of an output row is an exception value (C04); '
    'having_index lies inside the target list; StopIteration of next() is modelled as the IndexError of pop(0) (never '
    'raised: every key has one cell per grouped target, proved for the store the scan builds)',
    'C02_source_sum_over_inventories (group `agginv`, src_agginv.py -> coq/Gen/SrcAggInv.v, shared with C12): '
    '`store[self.handle].add_amount/add_position/add_inventory(value)` is read the slot - update - write back (rule A10: the '
    'accumulator Inventory is reachable only through its store slot; value semantics cannot see aliasing, the shape of the '
    'source term and the correspondence of C12 do); the Inventory methods are Model/Inventory.v\'s on encoded values '
    '(Model/PrimsAggInv.v), dtype() returns a fresh empty inventory (recorded from live instances), the operand is an '
    'opaque pure callable',
]
IMPORTS = ['Base.PyValue', 'Base.Decimal', 'Model.Eval', 'Model.Order', 'Model.Exec', 'Model.Subquery']
EXTRA_TARGETS = ['Model/Subquery.vo']      # items_of: the value list of an IN (SELECT ...) in the WHERE clause of the gen_in_case stream


class AggGen:
    """Aggregate expressions: leaves are aggregate calls (allocated handles), inner nodes arithmetic/comparison."""

    def __init__(self, rng, g):
        self.rng, self.g = rng, g
        self.aggs = []     # Gallina agg records, handle = index

    def leaf(self, t):
        r = self.rng.random()
        d = self.rng.randint(0, 2)
        if t == T_INT and r < 0.25:
            return self.alloc('count(*)', 'ACountStar', '(EConst VNull)', T_INT, 'count(*)')
        if t == T_INT and r < 0.45:
            a = self.g.expr(self.rng.choice(exprgen.ALL_TYPES), d)
            return self.alloc(f'count({a.text})', 'ACount', a.coq, T_INT, 'count(x)')
        if t in (T_INT, T_DEC) and r < 0.65:
            # sum(int) -> int, sum(decimal) -> decimal, sum(bool) -> int (counts the TRUE values)
            ta = T_BOOL if (t == T_INT and self.rng.random() < 0.3) else t
            a = self.g.expr(ta, d)
            zero = {'int': '(VInt 0)', 'decimal': '(VDec (mkdec false 0 0))', 'bool': '(VInt 0)'}[ta]
            return self.alloc(f'sum({a.text})', f'(ASum {zero})', a.coq, t, f'sum[{ta}]')
        a = self.g.expr(t, d)
        fn, tag = self.rng.choice([('first', 'AFirst'), ('last', 'ALast'), ('min', 'AMin'), ('max', 'AMax')])
        return self.alloc(f'{fn}({a.text})', tag, a.coq, t, f'{fn}[{t}]')

    def alloc(self, text, fun, argcoq, t, tag):
        h = len(self.aggs)
        self.aggs.append('{| afun := ' + fun + '; aarg := ' + argcoq + ' |}')
        return E(text, f'(EAgg {h}%nat)', t, [tag], 1)

    def expr(self, t, depth):
        if depth <= 0 or self.rng.random() < 0.5:
            return self.leaf(t)
        d = depth - 1
        if t == T_INT:
            sym, tag = self.rng.choice([('+', 'BAdd'), ('-', 'BSub'), ('*', 'BMul'), ('%', 'BMod')])
            a, b = self.expr(T_INT, d), self.mix(T_INT, d)
            return mk(f'({a.text} {sym} {b.text})', f'(EBinary {tag} {a.coq} {b.coq})', T_INT, 'agg-arith', a, b)
        if t == T_DEC:
            ta, tb = self.rng.choice([(T_DEC, T_DEC), (T_DEC, T_INT), (T_INT, T_DEC), (T_INT, T_INT)])
            if (ta, tb) == (T_INT, T_INT):
                sym, tag = '/', 'BDivInt'
            else:
                sym, tag = self.rng.choice([('+', 'BAdd'), ('-', 'BSub'), ('*', 'BMul'), ('/', 'BDiv')])
            a, b = self.expr(ta, d), self.mix(tb, d)
            return mk(f'({a.text} {sym} {b.text})', f'(EBinary {tag} {a.coq} {b.coq})', T_DEC, 'agg-arith', a, b)
        if t == T_BOOL:
            tt = self.rng.choice([T_INT, T_DEC, T_INT])
            sym, tag = self.rng.choice([('=', 'BEq'), ('!=', 'BNe'), ('<', 'BLt'), ('<=', 'BLe'), ('>', 'BGt'), ('>=', 'BGe')])
            a, b = self.expr(tt, d), self.mix(tt, d)
            return mk(f'({a.text} {sym} {b.text})', f'(EBinary {tag} {a.coq} {b.coq})', T_BOOL, 'agg-compare', a, b)
        return self.leaf(t)

    def mix(self, t, d):
        """second operand: another aggregate expression or a constant (never a bare column)."""
        if self.rng.random() < 0.4 and t in (T_INT, T_DEC):
            return self.g.const(t)
        return self.expr(t, d)


_TW_COLS = [('a', T_INT), ('b', T_INT), ('c', T_DEC), ('d', T_DEC), ('e', T_STR), ('f', T_STR)]
_TW_SWAP = {'a': 'b', 'b': 'a', 'c': 'd', 'd': 'c', 'e': 'f', 'f': 'e'}


def _twin_text(text):
    """Swap a<->b, c<->d, e<->f in column position (outside string literals)."""
    import re
    parts = text.split("'")
    for i in range(0, len(parts), 2):
        parts[i] = re.sub(r'\b([a-f])\b', lambda m: _TW_SWAP[m.group(1)], parts[i])
    return "'".join(parts)


def _twin_coq(coq):
    import re
    return re.sub(r'\(ECol (\d+)%nat\)', lambda m: '(ECol %d%%nat)' % (int(m.group(1)) ^ 1), coq)


class TwinAggGen(AggGen):
    """Round 8 (seed C02-m15: aggregate slots shared between nodes with the same repr): look-alike aggregates in one
    statement - the same function over operands of the same shape that differ only in WHICH same-typed column they read,
    often directly under a unary minus - next to each other in targets, HAVING and ORDER BY."""

    def __init__(self, rng, g):
        super().__init__(rng, g)
        self.hist = []

    def alloc(self, text, fun, argcoq, t, tag):
        self.hist.append((text, fun, argcoq, t, tag))
        return super().alloc(text, fun, argcoq, t, tag)

    def leaf(self, t):
        r = self.rng.random()
        prior = [h for h in self.hist if h[3] == t and _twin_text(h[0]) != h[0]]
        if prior and r < 0.45:
            text, fun, argcoq, tt, tag = self.rng.choice(prior)
            return super().alloc(_twin_text(text), fun, _twin_coq(argcoq), tt, 'twin:' + tag)
        if t in (T_INT, T_DEC) and r < 0.7:
            i = self.rng.choice([0, 1] if t == T_INT else [2, 3])
            col = _TW_COLS[i][0]
            zero = '(VInt 0)' if t == T_INT else '(VDec (mkdec false 0 0))'
            fn, fun = self.rng.choice([('sum', f'(ASum {zero})'), ('min', 'AMin'), ('max', 'AMax'), ('first', 'AFirst'), ('last', 'ALast')])
            return self.alloc(f'{fn}((-{col}))', fun, f'(EUnary UNeg (ECol {i}%nat))', t, f'{fn}[neg {t}]')
        return super().leaf(t)


def gen_twin_case(rng):
    null_p = rng.choice([0.0, 0.15, 0.3])
    nrows = rng.choice([1, 2, 3, 5, 8])
    rows = [tuple(values.gen_value(rng, PY[t], null_p) for _, t in _TW_COLS) for _ in range(nrows)]
    c = gen_case(rng, cols=list(_TW_COLS), rows=rows, agg_cls=TwinAggGen)
    c['stream'] = 'twin'
    return c


def gen_case(rng, cols=None, rows=None, force_alias=False, alias_fmt='x{}', agg_cls=None):
    if cols is None:
        ncols = rng.randint(2, 5)
        cols = [(n, rng.choice(exprgen.ALL_TYPES)) for n in 'abcde'[:ncols]]
    if rows is None:
        null_p = rng.choice([0.0, 0.15, 0.3, 0.5])
        nrows = rng.choice([0, 1, 2, 3, 5, 8, 12])
        rows = [tuple(values.gen_value(rng, PY[t], null_p) for _, t in cols) for _ in range(nrows)]
    g = exprgen.Gen(rng, cols, max_depth=2)
    ag = (agg_cls or AggGen)(rng, g)
    nkeys = rng.choice([0, 1, 1, 2, 2, 3])
    keys = []
    seen = set()
    for _ in range(nkeys):
        k = g.expr(rng.choice(exprgen.ALL_TYPES), rng.choice([0, 0, 1, 2]))
        if not k.cols or k.text in seen:   # constants as keys are legal but pointless; duplicates merge
            continue
        seen.add(k.text)
        keys.append(k)
    nagg = rng.randint(0 if keys else 1, 3) if agg_cls is None else rng.randint(2, 4)
    aggs = [ag.expr(rng.choice([T_INT, T_INT, T_DEC, T_STR, T_DATE, T_BOOL]), rng.choice([0, 0, 1, 2])) for _ in range(nagg)]
    # which keys are visible
    vis_keys = [k for k in keys if rng.random() < 0.7]
    hid_keys = [k for k in keys if k not in vis_keys]
    visible = [('key', k) for k in vis_keys] + [('agg', a) for a in aggs]
    rng.shuffle(visible)
    if not visible:
        visible = [('key', keys[0])]
        vis_keys, hid_keys = [keys[0]], keys[1:]
    targets = []
    for i, (kind, e) in enumerate(visible):
        alias = alias_fmt.format(i) if (force_alias or rng.random() < 0.3) else None
        targets.append({'kind': kind, 'text': e.text, 'coq': e.coq, 'alias': alias, 'type': e.type,
                        'bare': e.text in [c for c, _ in cols]})
    implicit = (not hid_keys) and aggs and rng.random() < 0.35
    group_items = []
    if not implicit:
        for i, t in enumerate(targets):
            if t['kind'] == 'key':
                form = rng.choice(['pos', 'name', 'expr'])
                if form == 'pos':
                    group_items.append(str(i + 1))
                elif form == 'name' and (t['alias'] or t['bare']):
                    group_items.append(t['alias'] or t['text'])
                else:
                    group_items.append(t['text'])
        group_items += [k.text for k in hid_keys]
        if group_items and rng.random() < 0.25:
            # the same key named twice (possibly in another reference form) must not change anything
            for i, t in enumerate(targets):
                if t['kind'] == 'key' and rng.random() < 0.6:
                    group_items.append(rng.choice([str(i + 1), t['text'], t['alias'] or t['text']]))
                    break
            else:
                group_items.append(rng.choice(group_items))
        rng.shuffle(group_items)
        if not group_items:
            implicit = True
    having = ag.expr(T_BOOL, rng.choice([1, 2])) if (not implicit and rng.random() < 0.4) else None
    where = g.expr(T_BOOL, 2) if rng.random() < 0.4 else None
    # ORDER BY
    order = []
    extra_order = []
    if rng.random() < 0.5:
        for _ in range(rng.randint(1, 3)):
            desc = rng.choice(['', ' ASC', ' DESC'])
            r = rng.random()
            if r < 0.45:
                i = rng.randrange(len(targets))
                order.append(('pos', i, desc))
            elif r < 0.75:
                cand = [i for i, t in enumerate(targets) if t['alias'] or t['bare']]
                if cand:
                    order.append(('name', rng.choice(cand), desc))
                else:
                    order.append(('pos', rng.randrange(len(targets)), desc))
            else:
                e = ag.expr(rng.choice([T_INT, T_DEC]), 1)
                extra_order.append(e)
                order.append(('hidden', len(extra_order) - 1, desc))
    distinct = rng.random() < 0.2
    limit = rng.choice([None, None, None, 0, 1, 2, 5])
    ops = sorted(set(sum([list(e.ops) for _, e in visible] + [list(k.ops) for k in hid_keys], [])))
    return {'cols': cols, 'rows': rows, 'targets': targets, 'hid_keys': [(k.text, k.coq) for k in hid_keys],
            'implicit': bool(implicit), 'group_items': group_items,
            'having': (having.text, having.coq) if having else None,
            'where': (where.text, where.coq) if where else None,
            'order': order, 'extra_order': [(e.text, e.coq) for e in extra_order],
            'distinct': distinct, 'limit': limit, 'aggs': ag.aggs, 'ops': ops,
            'nkeys': len(keys), 'nagg': nagg}


# ---- aggregate statements whose WHERE clause holds x [NOT] IN (SELECT ... FROM #u ...), the nested SELECT being a plain,
# grouped or aggregated query of its own (0-2 aggregates, HAVING, ORDER BY an aggregate, LIMIT), next to aggregates of the
# outer statement in its targets AND in HAVING / ORDER BY: every aggregate expression of the outer statement folds its own
# argument over the group's rows, whatever else was compiled in between.
def _inner_q(where, targets, group, aggs, having, order, limit):
    return ('{| q_where := ' + (f'(Some {where})' if where else 'None') + '; q_targets := ' + clist(targets)
            + '; q_group := ' + ('None' if group is None else 'Some ' + clist([f'{i}%nat' for i in group]))
            + '; q_aggs := ' + clist(aggs) + '; q_having := ' + copt(having, lambda h: f'{h}%nat')
            + '; q_order := ' + ('None' if not order else '(Some ' + clist([cpair(f'{i}%nat', cbool(d)) for i, d in order]) + ')')
            + '; q_vis := [0%nat]; q_distinct := false; q_limit := ' + copt(limit, cZ) + ' |}')


UROWS = '@UROWS@'      # stands for the rows of #u in the Gallina text of a case (filled in by model_expr, so that they can shrink)


def gen_in_subquery(rng):
    """-> (sql, Gallina query, shape) of a single-column SELECT over #u(k, w int, g str)"""
    k, w, g = '(ECol 0%nat)', '(ECol 1%nat)', '(ECol 2%nat)'
    n = rng.choice([0, 1, 2, 3])
    cnt = '{| afun := ACountStar; aarg := (EConst VNull) |}'
    sumw = '{| afun := (ASum (VInt 0)); aarg := (ECol 1%nat) |}'
    shape = rng.choice(['plain', 'plain-where', 'group-having', 'group-having-2', 'group-agg', 'all-agg', 'group-order-agg-limit',
                        'group-plain'])
    if shape == 'plain':
        return 'SELECT k FROM #u', _inner_q(None, [k], None, [], None, None, None), shape
    if shape == 'plain-where':
        return (f'SELECT k FROM #u WHERE w > {n}', _inner_q(f'(EBinary BGt {w} (EConst (VInt {n})))', [k], None, [], None, None, None), shape)
    if shape == 'group-plain':
        return 'SELECT k FROM #u GROUP BY k', _inner_q(None, [k], [0], [], None, None, None), shape
    if shape == 'group-having':
        return (f'SELECT k FROM #u GROUP BY k HAVING count(*) > {n}',
                _inner_q(None, [k, f'(EBinary BGt (EAgg 0%nat) (EConst (VInt {n})))'], [0], [cnt], 1, None, None), shape)
    if shape == 'group-having-2':
        return (f'SELECT k FROM #u GROUP BY k HAVING sum(w) + count(*) > {n + 1}',
                _inner_q(None, [k, f'(EBinary BGt (EBinary BAdd (EAgg 0%nat) (EAgg 1%nat)) (EConst (VInt {n + 1})))'], [0], [sumw, cnt], 1,
                         None, None), shape)
    fn, tag = rng.choice([('max', 'AMax'), ('min', 'AMin'), ('first', 'AFirst'), ('last', 'ALast')])
    agk = '{| afun := ' + tag + '; aarg := (ECol 0%nat) |}'
    if shape == 'group-agg':
        return f'SELECT {fn}(k) FROM #u GROUP BY g', _inner_q(None, ['(EAgg 0%nat)', g], [1], [agk], None, None, None), shape
    if shape == 'all-agg':
        return f'SELECT {fn}(k) FROM #u', _inner_q(None, ['(EAgg 0%nat)'], [], [agk], None, None, None), shape
    lim = rng.choice([1, 2, 3])
    return (f'SELECT k FROM #u GROUP BY k ORDER BY sum(w) DESC, k LIMIT {lim}',
            _inner_q(None, [k, '(EAgg 0%nat)'], [0], [sumw], None, [(1, True), (0, False)], lim), shape)


def gen_in_case(rng):
    for _ in range(50):
        c = gen_case(rng)
        cand = [(i, n, t) for i, (n, t) in enumerate(c['cols']) if t in (T_INT, T_DEC, T_STR, T_DATE)]
        if cand and c['nagg'] >= 1:
            break
    i, x, t = rng.choice(cand)
    # further aggregates of the outer statement behind the WHERE clause: HAVING / ORDER BY
    ag = AggGen(rng, exprgen.Gen(rng, c['cols'], max_depth=2))
    ag.aggs = c['aggs']
    if not c['implicit'] and not c['having'] and rng.random() < 0.6:
        h = ag.expr(T_BOOL, rng.choice([1, 2]))
        c['having'] = (h.text, h.coq)
    if not any(kind == 'hidden' for kind, _, _ in c['order']) and rng.random() < 0.5:
        e = ag.expr(rng.choice([T_INT, T_DEC]), 1)
        c['extra_order'].append((e.text, e.coq))
        c['order'] = list(c['order']) + [('hidden', len(c['extra_order']) - 1, rng.choice(['', ' DESC']))]
    # the second table: its k column shares values with the outer column
    present = [r[i] for r in c['rows'] if r[i] is not None]
    pool = list(dict.fromkeys(present))[:4] + [v for v in values.POOLS[PY[t]][:2]]
    nu = rng.choice([0, 1, 2, 4, 6])
    urows = [(None if rng.random() < 0.1 else rng.choice(pool), rng.choice([0, 1, 2, 3, 5]), rng.choice(['p', 'q', None])) for _ in range(nu)]
    preds, shapes = [], []
    for _ in range(rng.choice([1, 1, 1, 2])):
        neg = rng.random() < 0.35
        isql, iq, shape = gen_in_subquery(rng)
        items = f'(items_of (exec {iq} {UROWS}))'
        preds.append((f'({x} {"NOT IN" if neg else "IN"} ({isql}))', f'(EIn {cbool(neg)} (ECol {i}%nat) {items})'))
        shapes.append(shape + ('/not' if neg else ''))
    parts = list(preds)
    if c['where']:
        parts.insert(rng.randrange(len(parts) + 1), c['where'])
    if len(parts) == 1:
        c['where'] = parts[0]
    else:
        kw, tag = ('AND', 'EAnd') if rng.random() < 0.75 else ('OR', 'EOr')
        c['where'] = ('(' + f' {kw} '.join(p[0] for p in parts) + ')', f'({tag} {clist([p[1] for p in parts])})')
    c['ucols'] = [('k', t), ('w', T_INT), ('g', T_STR)]
    c['urows'] = urows
    c['in_shapes'] = shapes
    c['in_column'] = x
    return c


# ---- aggregates over the grouping keys themselves (fix-J): count / first / last / min / max / sum applied to an expression that IS
# a grouping key (whatever way the key is referenced: expression, output name, position, implicit; visible or hidden), as
# a target, as a hidden ORDER BY key or inside HAVING, on tables where a good share of the key values is NULL: the NULL
# group is an ordinary group whose count(key) is 0, first/last/min/max(key) NULL and sum(key) the type's zero.
KEYAGG_FUNS = [('count', 'ACount'), ('count', 'ACount'), ('count', 'ACount'), ('first', 'AFirst'), ('last', 'ALast'),
               ('min', 'AMin'), ('max', 'AMax'), ('sum', None)]
SUM_ZERO = {'int': '(VInt 0)', 'decimal': '(VDec (mkdec false 0 0))', 'bool': '(VInt 0)'}


def gen_keyagg_case(rng):
    for _ in range(200):
        ncols = rng.randint(2, 4)
        cols = [(n, rng.choice(exprgen.ALL_TYPES)) for n in 'abcde'[:ncols]]
        null_p = rng.choice([0.3, 0.5])
        nrows = rng.choice([3, 5, 8, 12])
        rows = [tuple(values.gen_value(rng, PY[t], null_p) for _, t in cols) for _ in range(nrows)]
        c = gen_case(rng, cols, rows)
        keys = [(t['text'], t['coq'], t['type'], 'visible') for t in c['targets'] if t['kind'] == 'key']
        keys += [(text, coq, None, 'hidden') for text, coq in c['hid_keys']]
        if keys:
            break
    c['order'] = list(c['order'])
    c['keyagg'] = []
    for _ in range(rng.choice([1, 1, 2])):
        ktext, kcoq, ktype, vis = rng.choice(keys)
        fn, tag = rng.choice(KEYAGG_FUNS)
        if fn == 'sum':
            if ktype not in SUM_ZERO:
                fn, tag = 'count', 'ACount'
            else:
                tag = f'(ASum {SUM_ZERO[ktype]})'
        h = len(c['aggs'])
        c['aggs'] = c['aggs'] + ['{| afun := ' + tag + '; aarg := ' + kcoq + ' |}']
        text, coq = f'{fn}({ktext})', f'(EAgg {h}%nat)'
        rtype = T_INT if fn == 'count' or (fn == 'sum' and ktype == T_BOOL) else ktype
        place = rng.choice(['target', 'target', 'order', 'having'])
        if place == 'having' and (c['implicit'] or c['having'] or fn != 'count'):
            place = 'target'
        if place == 'target':
            c['targets'].append({'kind': 'agg', 'text': text, 'coq': coq, 'alias': rng.choice([None, f'ka{h}']), 'type': rtype,
                                 'bare': False})
        elif place == 'order':
            c['extra_order'] = c['extra_order'] + [(text, coq)]
            c['order'].append(('hidden', len(c['extra_order']) - 1, rng.choice(['', ' DESC'])))
        else:
            n = rng.choice([0, 1, 2])
            c['having'] = (f'({text} > {n})', f'(EBinary BGt {coq} (EConst (VInt {n})))')
        c['keyagg'].append(f'{fn}:{vis}:{place}')
        c['nagg'] += 1
    return c


# ---- ill-formed neighbours (fix-J): an aggregate statement WITHOUT a GROUP BY clause (implicit grouping by its non-aggregate
# targets, or aggregates only) whose ORDER BY holds a NON-aggregate expression that is not one of the targets. There is no
# partition of which that expression could be a key: the statement is rejected (Compile.v: uncovered non-aggregate target; C05), and
# in any case the rows, if any were produced, must be those of the partition by the non-aggregate TARGETS: one row for each
# distinct value of them, each aggregate folded over the whole group (model of the statement without the extra item; as multisets).
def gen_uncovered_order_case(rng):
    for _ in range(500):
        c = gen_case(rng)
        if not (c['implicit'] and c['nagg'] >= 1 and len(c['rows']) >= 2):
            continue
        if not any(t['kind'] == 'key' for t in c['targets']) and rng.random() < 0.6:      # aggregates only: the smaller half
            continue
        g = exprgen.Gen(rng, c['cols'], max_depth=1)
        e = g.expr(rng.choice(exprgen.ALL_TYPES), rng.choice([0, 0, 1]))
        names = {t['text'] for t in c['targets']} | {t['alias'] for t in c['targets'] if t['alias']}
        if not e.cols or e.text in names:
            continue
        c['order'] = list(c['order'])
        c['ill_order'] = (e.text, rng.choice(['', ' ASC', ' DESC']), rng.randrange(len(c['order']) + 1))
        c['distinct'], c['limit'] = False, None
        return c
    raise RuntimeError('gen_uncovered_order_case: no case')


def base_of(c):
    d = dict(c)
    d.pop('ill_order', None)
    return d


def ill_verdict(c, impl_res, base_model):
    """None when the outcome is admissible: rejected at compile time, or exactly the rows of the partition by the targets."""
    if impl_res[0] == 'exception':
        return None if impl_res[1] == 'CompilationError' else f'fails with {impl_res[1]}: {impl_res[2]}'
    if base_model[0] == 0 and sorted(map(repr, impl_res[1])) == sorted(map(repr, base_model[1])):
        return None
    return 'accepted, and the rows are not one row per distinct value of the non-aggregate targets'


def shrink_ill(c):
    def with_rows(rows):
        d = dict(c)
        d['rows'] = rows
        return d

    def fails(cands):
        cs = [with_rows(r) for r in cands]
        ms = model_many([base_of(x) for x in cs], tag='c02s')
        return [ill_verdict(x, run_impl(x), m) is not None for x, m in zip(cs, ms)]
    return with_rows(ddmin_batch(c['rows'], fails)) if len(c['rows']) >= 2 else c


def statement(c):
    tl = ', '.join(t['text'] + (f' AS {t["alias"]}' if t['alias'] else '') for t in c['targets'])
    s = 'SELECT ' + ('DISTINCT ' if c['distinct'] else '') + tl + ' FROM ' + c.get('from_sql', '#t')
    if c['where']:
        s += ' WHERE ' + c['where'][0]
    if not c['implicit']:
        s += ' GROUP BY ' + ', '.join(c['group_items'])
        if c['having']:
            s += ' HAVING ' + c['having'][0]
    if c['order'] or c.get('ill_order'):
        ks = []
        for kind, i, desc in c['order']:
            if kind == 'pos':
                ks.append(f'{i + 1}{desc}')
            elif kind == 'name':
                t = c['targets'][i]
                ks.append(f'{t["alias"] or t["text"]}{desc}')
            else:
                ks.append(f'{c["extra_order"][i][0]}{desc}')
        if c.get('ill_order'):       # gen_uncovered_order_case: a non-aggregate ORDER BY item that is no target and no key
            text, desc, at = c['ill_order']
            ks.insert(min(at, len(ks)), text + desc)
        s += ' ORDER BY ' + ', '.join(ks)
    if c['limit'] is not None:
        s += f' LIMIT {c["limit"]}'
    return s


def run_impl(c):
    t = impl.make_table('t', [(n, PY[ty]) for n, ty in c['cols']], c['rows'])
    tables = {'t': t}
    if 'urows' in c:
        tables['u'] = impl.make_table('u', [(n, PY[ty]) for n, ty in c['ucols']], c['urows'])
    conn = impl.connection(tables)
    try:
        curs = conn.execute(statement(c))
        return [0, values.canon_rows(curs.fetchall())]
    except Exception as e:  # noqa: BLE001
        return ['exception', impl.exc_class(e), str(e)[:200]]


def model_expr(c):
    q = query_coq(c)
    if 'urows' in c:
        q = q.replace(UROWS, values.rows_to_coq(c['urows']))
    return f'exec_out {q} {values.rows_to_coq(c["rows"])}'


def query_coq(c):
    targets = [t['coq'] for t in c['targets']]
    nvis = len(targets)
    group = [i for i, t in enumerate(c['targets']) if t['kind'] == 'key']
    for _, coq in c['hid_keys']:
        group.append(len(targets))
        targets.append(coq)
    having = None
    if c['having'] and not c['implicit']:
        having = len(targets)
        targets.append(c['having'][1])
    spec = None
    if c['order']:
        spec = []
        base = len(targets)
        for _, coq in c['extra_order']:
            targets.append(coq)
        for kind, i, desc in c['order']:
            d = desc == ' DESC'
            spec.append((base + i if kind == 'hidden' else i, d))
    q = ('{| q_where := ' + (f'(Some {c["where"][1]})' if c['where'] else 'None')
         + '; q_targets := ' + clist(targets)
         + '; q_group := Some ' + clist([f'{i}%nat' for i in group])
         + '; q_aggs := ' + clist(c['aggs'])
         + '; q_having := ' + copt(having, lambda h: f'{h}%nat')
         + '; q_order := ' + ('None' if spec is None else '(Some ' + clist([cpair(f'{i}%nat', cbool(d)) for i, d in spec]) + ')')
         + '; q_vis := ' + clist([f'{i}%nat' for i in range(nvis)])
         + '; q_distinct := ' + cbool(c['distinct']) + '; q_limit := ' + copt(c['limit'], cZ) + ' |}')
    return q


def model_many(cases, tag='c02'):
    return core.coq_eval(tag, IMPORTS, [model_expr(c) for c in cases], shard=150)


def shrink(c):
    def with_rows(rows):
        d = dict(c)
        d['rows'] = rows
        return d

    def fails(cands):
        cs = [with_rows(r) for r in cands]
        ms = model_many(cs, tag='c02s')
        return [run_impl(x) != m for x, m in zip(cs, ms)]
    if len(c['rows']) >= 2:
        c = with_rows(ddmin_batch(c['rows'], fails))
    if len(c.get('urows', ())) >= 2:
        base = c

        def with_urows(urows):
            d = dict(base)
            d['urows'] = urows
            return d

        def fails_u(cands):
            cs = [with_urows(r) for r in cands]
            ms = model_many(cs, tag='c02s')
            return [run_impl(x) != m for x, m in zip(cs, ms)]
        c = with_urows(ddmin_batch(c['urows'], fails_u))
    return c


def additivity_check(c):
    """Implementation only (metamorphic): group-wise count(*) adds up to the ungrouped count over the same WHERE."""
    t = impl.make_table('t', [(n, PY[ty]) for n, ty in c['cols']], c['rows'])
    conn = impl.connection({'t': t})
    keycols = [n for n, _ in c['cols']][:2]
    w = (' WHERE ' + c['where'][0]) if c['where'] else ''
    try:
        g = conn.execute(f'SELECT {", ".join(keycols)}, count(*) AS n FROM #t{w} GROUP BY {", ".join(keycols)}').fetchall()
        tot = conn.execute(f'SELECT count(*) AS n FROM #t{w}').fetchall()
        flat = conn.execute(f'SELECT {keycols[0]} FROM #t{w}').fetchall()
        # count(<grouping key>): the NULL group contributes 0; the key referenced by name, implicitly, and hidden
        kc = ', '.join(f'count({k}) AS c{j}' for j, k in enumerate(keycols))
        forms = [f'SELECT {", ".join(keycols)}, {kc} FROM #t{w} GROUP BY {", ".join(keycols)}',
                 f'SELECT {", ".join(keycols)}, {kc} FROM #t{w}',
                 f'SELECT {kc} FROM #t{w} GROUP BY {", ".join(keycols)}']
        gk = [conn.execute(f).fetchall() for f in forms]
        totk = conn.execute(f'SELECT {kc} FROM #t{w}').fetchall()
        flatk = conn.execute(f'SELECT {", ".join(keycols)} FROM #t{w}').fetchall()
    except Exception as e:  # noqa: BLE001
        return f'exception {e!r}'
    nk = len(keycols)
    wantk = [sum(r[j] is not None for r in flatk) for j in range(nk)]
    for f, rows in zip(forms, gk):
        sums = [sum(r[len(r) - nk + j] for r in rows) for j in range(nk)]
        if sums != wantk or (totk and list(totk[0]) != wantk):
            return (f'{f}: group-wise count(key) values add up to {sums}, the ungrouped count(key) is {list(totk[0]) if totk else None}, '
                    f'the selected rows hold {wantk} non-NULL key values')
    total = tot[0][0] if tot else 0
    if sum(r[-1] for r in g) != total or total != len(flat):
        return f'group counts {[r[-1] for r in g]} do not add up to total {total} / selected rows {len(flat)}'
    if not flat and tot:
        return 'empty selection produced an output row'
    return None


def inventory_fold_one(spec, grouped):
    """One case of the inventory stream: None if the implementation agrees with the independent fold, else
    (query, got, expected)."""
    from beancount.core import amount, inventory
    D = decimal.Decimal

    def build():
        rows = []
        for g, ps in spec:
            if ps is None:
                rows.append((g, None))
            else:
                inv = inventory.Inventory()
                for num, cur in ps:
                    inv.add_amount(amount.Amount(D(num), cur))
                rows.append((g, inv))
        return rows

    def canon(inv):
        return None if inv is None else sorted((str(p.units.number), p.units.currency) for p in inv)
    rows = build()
    t = impl.make_table('t', [('g', str), ('inv', inventory.Inventory)], rows)
    conn = impl.connection({'t': t})
    q = ('SELECT g, first(inv) AS f, sum(inv) AS s, last(inv) AS l, count(inv) AS n FROM #t GROUP BY g' if grouped
         else 'SELECT first(inv) AS f, sum(inv) AS s, last(inv) AS l, count(inv) AS n FROM #t')
    # expected: partition in order of first appearance, fold each class over fresh values
    fresh = build()
    classes = {}
    for g, inv in fresh:
        classes.setdefault(g if grouped else '', []).append(inv)
    want = []
    for g, invs in classes.items():
        tot = inventory.Inventory()
        for inv in invs:
            if inv is not None:
                tot.add_inventory(inv)
        nn = [i for i in invs if i is not None]
        row = [canon(nn[0]) if nn else None, canon(tot), canon(invs[-1]), len(nn)]
        want.append(([g] if grouped else []) + row)
    try:
        outs = []
        for _rep in range(2):
            got = conn.execute(q).fetchall()
            outs.append([([r[0]] if grouped else []) + [canon(r[-4]), canon(r[-3]), canon(r[-2]), r[-1]] for r in got])
        table_after = [canon(inv) for _, inv in rows]
    except Exception as e:  # noqa: BLE001
        return q, f'exception {e!r}', want
    table_want = [canon(inv) for _, inv in fresh]
    if outs[0] != want or outs[1] != want or table_after != table_want:
        return (q, {'first_run': outs[0], 'second_run': outs[1], 'table_after': table_after},
                {'rows': want, 'table': table_want})
    return None


def inventory_fold_check(rng, n):
    """Implementation vs an independent fold: user tables with an Inventory column, grouped sum / first / last / count
    next to each other, each statement executed twice (aggregation must not modify or alias its input values: the
    second run and the table itself are compared with the first)."""
    bad, ran = [], 0
    for _ in range(n):
        spec = []
        for _ in range(rng.randint(2, 7)):
            g = rng.choice(['a', 'b', 'c'])
            if rng.random() < 0.15:
                spec.append((g, None))
            else:
                spec.append((g, [(rng.choice([1, 2, 3, -1, -2]), rng.choice(['USD', 'EUR', 'HOOL']))
                                 for _ in range(rng.randint(0, 2))]))
        grouped = rng.random() < 0.7
        r = inventory_fold_one(spec, grouped)
        ran += 1
        if r is not None:
            bad.append((r[0], spec, r[1], r[2], grouped))
    return ran, bad


LEDGER = '''2020-01-01 open Assets:Cash
2020-01-01 open Assets:Bank
2020-01-02 note Assets:Cash "alpha"
2020-01-03 note Assets:Cash "beta"
2020-01-04 note Assets:Bank "alpha"
2020-01-05 note Assets:Bank "alpha"
2020-01-06 event "location" "Paris"
2020-01-07 event "location" "Rome"
2020-01-08 event "employer" "Paris"
2020-02-01 * "A" "x"
  Assets:Cash  1 USD
  Assets:Bank -1 USD
2020-02-02 * "B" "x"
  Assets:Cash  2 USD
  Assets:Bank -2 USD
'''


def typed_table_grouping():
    """GROUP BY / ORDER BY on the typed directive tables, whose columns are attribute getters: two columns of equal
    datatype must not be confused (finding D3). Oracle: grouping computed in Python from the loaded entries."""
    import collections
    import os
    import tempfile
    from beancount.core import data
    with tempfile.NamedTemporaryFile('w', suffix='.beancount', delete=False) as f:
        f.write(LEDGER)
        path = f.name
    bad = []
    n = 0
    try:
        conn = impl.beanquery.connect('beancount:' + path)
        entries = conn.tables['entries'].entries if hasattr(conn.tables['entries'], 'entries') else None
        from beancount import loader
        entries, _, _ = loader.load_file(path)
        notes = [e for e in entries if isinstance(e, data.Note)]
        events = [e for e in entries if isinstance(e, data.Event)]
        txns = [e for e in entries if isinstance(e, data.Transaction)]
        specs = [('notes', notes, 'account', 'comment'), ('notes', notes, 'comment', 'account'),
                 ('events', events, 'type', 'description'), ('events', events, 'description', 'type'),
                 ('transactions', txns, 'payee', 'narration'), ('transactions', txns, 'narration', 'payee')]
        for table, objs, key, other in specs:
            n += 2
            want = collections.OrderedDict()
            for o in objs:
                want[getattr(o, key)] = want.get(getattr(o, key), 0) + 1
            try:
                got = conn.execute(f'SELECT {key}, count(*) FROM #{table} GROUP BY {key}').fetchall()
                if got != list(want.items()):
                    bad.append((f'SELECT {key}, count(*) FROM #{table} GROUP BY {key}', got, list(want.items())))
            except Exception as e:  # noqa: BLE001
                bad.append((f'SELECT {key}, count(*) FROM #{table} GROUP BY {key}', repr(e), list(want.items())))
            # a target not covered by GROUP BY must be rejected, not silently grouped by another column
            try:
                got = conn.execute(f'SELECT {other}, count(*) FROM #{table} GROUP BY {key}').fetchall()
                bad.append((f'SELECT {other}, count(*) FROM #{table} GROUP BY {key}', got, 'CompilationError (target not covered by GROUP BY)'))
            except impl.beanquery.CompilationError:
                pass
            except Exception as e:  # noqa: BLE001
                bad.append((f'SELECT {other}, count(*) FROM #{table} GROUP BY {key}', repr(e), 'CompilationError'))
            # ORDER BY a non-selected column of the same datatype
            n += 1
            want_o = [getattr(o, key) for o in sorted(objs, key=lambda o: getattr(o, other))]
            try:
                got = [r[0] for r in conn.execute(f'SELECT {key} FROM #{table} ORDER BY {other}').fetchall()]
                if got != want_o:
                    bad.append((f'SELECT {key} FROM #{table} ORDER BY {other}', got, want_o))
            except Exception as e:  # noqa: BLE001
                bad.append((f'SELECT {key} FROM #{table} ORDER BY {other}', repr(e), want_o))
    finally:
        os.unlink(path)
    return n, bad


def generate():
    """translator tie: regenerate coq/Gen/SrcAgg.v (Allocator, the protocol methods of the aggregator classes, the parts
    of the aggregated branch of execute_select) from the source of the imported code (py2mini, src_agg.py)"""
    from . import gen_src, src_agg
    out = dict(gen_src.generate('agg'))
    out['src_agg_classes'] = list(src_agg.AggGroup.info.get('classes', []))
    out['src_agg_left_out'] = list(src_agg.AggGroup.info.get('left_out', []))
    out['src_agg_desugaring_rules_used'] = list(src_agg.AggGroup.info.get('rules_used', []))
    # the classes src_agg leaves out (sum over Amount / Position / Inventory): group `agginv`, owned by C12
    # (C02_source_sum_over_inventories); last, so that a failure there does not keep Gen/SrcAgg.v stale
    from . import src_agginv
    out.update(gen_src.generate('agginv'))
    out.update(src_agginv.report())
    return out


def run(tier, rng):
    n = 2000 if tier == 'quick' else 30000
    cases = [gen_case(rng) for _ in range(n)]
    n_plain = len(cases)
    cases += [gen_in_case(rng) for _ in range(400 if tier == 'quick' else 6000)]
    n_ka = 400 if tier == 'quick' else 6000
    cases += [gen_keyagg_case(rng) for _ in range(n_ka)]
    tw_rng = random.Random(rng.random())
    n_tw = 500 if tier == 'quick' else 6000
    cases += [gen_twin_case(tw_rng) for _ in range(n_tw)]
    impl_out = core.pmap(run_impl, cases)
    model_out = model_many(cases)
    violations, seen = [], set()
    # ill-formed neighbours: non-aggregate ORDER BY item that is no target, no GROUP BY clause
    ill = [gen_uncovered_order_case(rng) for _ in range(200 if tier == 'quick' else 3000)]
    ill_impl = core.pmap(run_impl, ill)
    ill_model = model_many([base_of(c) for c in ill], tag='c02i')
    ill_hist = {'cases': len(ill), 'rejected_CompilationError': 0, 'accepted_with_partition_rows': 0, 'targets_all_aggregates': 0,
                'with_key_targets': 0, 'order_items': {}, 'groups_with_several_rows': 0}
    ill_seen = set()
    for c, i, m in zip(ill, ill_impl, ill_model):
        ill_hist['rejected_CompilationError'] += i[0] == 'exception' and i[1] == 'CompilationError'
        ill_hist['accepted_with_partition_rows'] += i[0] == 0
        allagg = not any(t['kind'] == 'key' for t in c['targets'])
        ill_hist['targets_all_aggregates'] += allagg
        ill_hist['with_key_targets'] += not allagg
        no = len(c['order']) + 1
        ill_hist['order_items'][no] = ill_hist['order_items'].get(no, 0) + 1
        ill_hist['groups_with_several_rows'] += m[0] == 0 and len(m[1]) < len(c['rows'])
        why = ill_verdict(c, i, m)
        if why and len(ill_seen) < 2:
            small = shrink_ill(c)
            sig = 'uncovered-order:' + statement(small) + ' rows=' + repr(small['rows'])
            if sig in ill_seen:
                continue
            ill_seen.add(sig)
            bm = model_many([base_of(small)], tag='c02s')[0]
            violations.append(core.Violation(
                'uncovered-order', f'{statement(small)} over {small["cols"]} rows {small["rows"]}: no GROUP BY clause and a non-aggregate '
                f'ORDER BY item that is not a target: {ill_verdict(small, run_impl(small), bm)}; implementation {run_impl(small)}, the '
                f'partition by the targets (model, without that item) gives {bm}',
                {'case': small, 'ill': True, 'statement': statement(small), 'impl': run_impl(small), 'model_without_item': bm},
                signature=sig))
    hist = {'ops': {}, 'nkeys': {}, 'implicit': 0, 'having': 0, 'hidden_keys': 0, 'order': 0, 'nrows': {}, 'where': 0}
    distinct, nontrivial, errors = set(), 0, 0
    for c, i, m in zip(cases, impl_out, model_out):
        key = statement(c) + repr(c['rows'])
        if key not in distinct:
            distinct.add(key)
            if len(c['rows']) >= 3 and i[0] == 0 and c['nkeys'] >= 1 and len(i[1]) < len(c['rows']):
                nontrivial += 1
        for o in c['ops']:
            hist['ops'][o] = hist['ops'].get(o, 0) + 1
        hist['nkeys'][c['nkeys']] = hist['nkeys'].get(c['nkeys'], 0) + 1
        hist['nrows'][len(c['rows'])] = hist['nrows'].get(len(c['rows']), 0) + 1
        hist['implicit'] += c['implicit']
        hist['having'] += bool(c['having'])
        hist['hidden_keys'] += bool(c['hid_keys'])
        hist['order'] += bool(c['order'])
        hist['where'] += bool(c['where'])
        if 'keyagg' in c:
            kh = hist.setdefault('aggregate_over_grouping_key', {'cases': 0, 'fun:key_visibility:place': {}, 'implicit': 0,
                                                                 'null_key_group_in_output': 0, 'executed': 0})
            kh['cases'] += 1
            for k in c['keyagg']:
                kh['fun:key_visibility:place'][k] = kh['fun:key_visibility:place'].get(k, 0) + 1
            kh['implicit'] += c['implicit']
            kh['executed'] += i[0] == 0
            kh['null_key_group_in_output'] += i[0] == 0 and any(
                r[j] == [0] for r in i[1] for j, t in enumerate(c['targets']) if t['kind'] == 'key')
        if 'urows' in c:
            ih = hist.setdefault('in_subquery_in_where', {'cases': 0, 'inner_shape': {}, 'outer_having_aggregate': 0,
                                                          'outer_hidden_order_aggregate': 0, 'both': 0, 'outer_aggregates': {},
                                                          'empty_inner_table': 0, 'executed_with_output_rows': 0})
            ih['cases'] += 1
            for sh in c['in_shapes']:
                ih['inner_shape'][sh] = ih['inner_shape'].get(sh, 0) + 1
            hv = bool(c['having']) and not c['implicit']
            ho = any(kind == 'hidden' for kind, _, _ in c['order'])
            ih['outer_having_aggregate'] += hv
            ih['outer_hidden_order_aggregate'] += ho
            ih['both'] += hv and ho
            ih['outer_aggregates'][len(c['aggs'])] = ih['outer_aggregates'].get(len(c['aggs']), 0) + 1
            ih['empty_inner_table'] += not c['urows']
            ih['executed_with_output_rows'] += i[0] == 0 and bool(i[1])
        if i[0] == 'exception':
            errors += 1
        if i != m and len(seen) < 3:
            small = shrink(c)
            sig = 'agg:' + statement(small) + ' rows=' + repr(small['rows']) + (' u=' + repr(small['urows']) if 'urows' in small else '')
            if sig in seen:
                continue
            seen.add(sig)
            violations.append(core.Violation(
                'aggregation', f'{statement(small)} over {small["cols"]} rows {small["rows"]}'
                + (f' and #u {small["ucols"]} rows {small["urows"]}' if 'urows' in small else '') + ': implementation '
                f'{run_impl(small)} but partition-and-fold semantics (model) give {model_many([small], tag="c02s")[0]}',
                {'case': small, 'statement': statement(small), 'impl': run_impl(small),
                 'model': model_many([small], tag='c02s')[0]}, signature=sig))
    meta_bad = 0
    add_cases = cases[:300 if tier == 'quick' else 3000]
    for c, r in zip(add_cases, core.pmap(additivity_check, add_cases)):
        if r and meta_bad < 1:
            meta_bad += 1
            violations.append(core.Violation('additivity', f'{r} on rows {c["rows"]}', {'case': c, 'what': r},
                                             signature='additivity:' + repr(c['rows'])[:200]))
    ni, ibad = inventory_fold_check(rng, 150 if tier == 'quick' else 2000)
    for q, spec, got, want, grouped in ibad[:2]:
        violations.append(core.Violation(
            'inventory-fold', f'{q} over rows {spec}: got {got}, the fold of each group over the unmodified rows gives {want}',
            {'inventory_rows': spec, 'grouped': grouped, 'query': q, 'got': got, 'expected': want},
            signature='invfold:' + q + repr(spec)[:150]))
    nt, tbad = typed_table_grouping()
    for q, got, want in tbad[:2]:
        violations.append(core.Violation('typed-table-grouping', f'{q}: got {got}, expected {want}',
                                         {'query': q, 'got': got, 'expected': want, 'ledger': LEDGER}, signature='typed:' + q))
    cov = {
        'evaluations': len(cases) + nt + ni, 'distinct_nontrivial': nontrivial, 'typed_table_checks': nt,
        'inventory_fold_checks': ni,
        'rule': 'random aggregate SELECTs: 0-3 grouping keys (expressions of depth<=2; referenced by position / output name / '
                'expression; visible or hidden; explicit or implicit GROUP BY), 0-3 aggregate targets (count(*), count(x), sum over '
                'int/decimal/bool, first, last, min, max over every type; arithmetic over aggregates), WHERE, HAVING, ORDER BY incl. hidden '
                'aggregate keys, DISTINCT, LIMIT, tables of 0-12 rows with NULLs and duplicate keys; non-trivial = distinct case with >=3 '
                'rows, >=1 key, executed, and fewer output rows than input rows (some group has >1 row or was filtered); '
                'plus the same statements with x [NOT] IN (SELECT ... FROM #u) in WHERE (1-2 of them, AND/OR-ed with the generated condition), the '
                'nested SELECT plain / filtered / grouped / with 1-2 aggregates of its own in targets, HAVING or ORDER BY .. LIMIT, and with '
                'further outer aggregates in HAVING / hidden ORDER BY keys (histograms.in_subquery_in_where), the model taking the value list '
                'from Subquery.items_of (exec inner #u)',
        'samples': [statement(c) for c in cases[:5]] + [statement(c) for c in cases[n_plain:n_plain + 3]]
                   + [statement(c) for c in cases[-3:]] + [statement(c) for c in ill[:3]],
        'traces_validated_against_impl': len(cases), 'histograms': hist, 'implementation_exceptions': errors,
        'uncovered_order_neighbours': ill_hist,
        'rule_fix_J': 'plus (a) aggregates over the grouping keys themselves (histograms.aggregate_over_grouping_key): count / first / last / '
                      'min / max / sum of an expression that is a grouping key (visible or hidden, any reference form, implicit), as target, '
                      'hidden ORDER BY key or in HAVING, tables with 30-50% NULLs, against the model; additivity of count(key) over the groups '
                      '(4 spellings of the grouping) against the ungrouped count(key) and a plain count of the non-NULL values; (b) ill-formed '
                      'neighbours (uncovered_order_neighbours): no GROUP BY clause, aggregates in the targets, and a non-aggregate ORDER BY '
                      'expression that is not a target: rejected with CompilationError, or else exactly the rows (as a multiset) of the '
                      'partition by the non-aggregate targets (model of the statement without the item)',
    }
    return {'coverage': cov, 'violations': violations}


def replay(rec):
    if 'inventory_rows' in rec:
        spec = [(g, None if ps is None else [tuple(p) for p in ps]) for g, ps in rec['inventory_rows']]
        return inventory_fold_one(spec, rec['grouped']) is None
    c = rec['case']
    c['rows'] = [tuple(_unjson(v, t) for v, (_, t) in zip(r, c['cols'])) for r in c['rows']]
    c['order'] = [tuple(o) for o in c['order']]
    if 'urows' in c:
        c['urows'] = [tuple(_unjson(v, t) for v, (_, t) in zip(r, c['ucols'])) for r in c['urows']]
    if 'what' in rec:
        return additivity_check(c) is None
    if rec.get('ill'):
        c['ill_order'] = tuple(c['ill_order'])
        return ill_verdict(c, run_impl(c), model_many([base_of(c)], tag='c02s')[0]) is None
    return run_impl(c) == model_many([c], tag='c02s')[0]


def _unjson(v, t):
    if v is None:
        return None
    if t == T_DEC:
        return D(v)
    if t == T_DATE:
        return datetime.date.fromisoformat(v)
    return v
