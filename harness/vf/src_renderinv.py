"""Group `renderinv` (C16, bld-render6): InventoryRenderer.format of beanquery/query_render.py, the EXPANDED branch
(`if self.expand: ...; return strings`, the only layout Model/Render.v models: one PositionRenderer for all positions,
positions sorted by the sort key, one string per position) -> coq/Gen/SrcRenderInv.v.

InvTranslator = src_render.RenderTranslator plus
  I0  statement range: the body of `format` is cut down to its FIRST statement (after the docstring), which must be an
      `if self.expand:` without else whose body ends in `return <name>`; the other two layouts (not expanded) are not
      translated (Render.v does not model them: SInvT).
  I1  `sorted(E, key=self.positionsortkey)` where the live class's `positionsortkey` is the staticmethod tied as
      `render_inv_sortkey` (group renderset) -> XPrim "sorted:key=positionsortkey" [E]   (Model/PrimsRenderInv.v: the stable
      sort of the positions by Render.pos_le - TRUSTED to be what sorting by that key does; see ASSUMPTIONS of c16.py).
  I2  `self.renderers[K]` in a reading position -> XPrim "ddict.get" [self.renderers; K]: the value stored under K in the
      dict (an association list of (key, owned PositionRenderer)); a MISSING key is Stuck - the defaultdict factory
      (`lambda: PositionRenderer(ctx)`) is not modelled, the theorem assumes the key is there (update() has seen a position).
Everything else fails closed with py2mini.Untranslatable."""
import ast
import inspect
import textwrap

from . import py2mini
from .py2mini import Untranslatable, glist
from .src_render import RenderTranslator, PRIMS

INV_PRIMS = PRIMS


class InvTranslator(RenderTranslator):
    def __init__(self, func, refs, prims=()):
        super().__init__(func, refs, prims=prims)
        from beanquery import query_render as qr
        if func is not qr.InventoryRenderer.__dict__.get('format'):
            raise Untranslatable('InvTranslator is for InventoryRenderer.format only')
        if not isinstance(qr.InventoryRenderer.__dict__.get('positionsortkey'), staticmethod):
            raise Untranslatable('InventoryRenderer.positionsortkey is no longer a staticmethod of the class')
        body = [st for i, st in enumerate(self.fd.body)
                if not (i == 0 and isinstance(st, ast.Expr) and isinstance(st.value, ast.Constant))]
        first = body[0] if body else None                                                   # I0
        want = "Attribute(value=Name(id='self', ctx=Load()), attr='expand', ctx=Load())"
        if not (isinstance(first, ast.If) and ast.dump(first.test) == want and not first.orelse
                and isinstance(first.body[-1], ast.Return) and isinstance(first.body[-1].value, ast.Name)):
            raise Untranslatable('InventoryRenderer.format does not start with `if self.expand: ...; return <name>`')
        self.fd.body = [first]

    def expr(self, e):
        if isinstance(e, ast.Call) and isinstance(e.func, ast.Name) and e.func.id == 'sorted' and e.keywords:   # I1
            if e.func.id in self.locals or self.resolve_free('sorted') is not sorted:
                raise Untranslatable('sorted is not the builtin')
            k = e.keywords
            if not (len(e.args) == 1 and len(k) == 1 and k[0].arg == 'key' and isinstance(k[0].value, ast.Attribute)
                    and isinstance(k[0].value.value, ast.Name) and k[0].value.value.id == self.self_name
                    and k[0].value.attr == 'positionsortkey'):
                raise Untranslatable('sorted(...) with a key other than self.positionsortkey')
            return f'(XPrim "sorted:key=positionsortkey" {glist([self.expr(e.args[0])])})'
        if isinstance(e, ast.Subscript) and not isinstance(e.slice, ast.Slice) and isinstance(e.ctx, ast.Load) \
                and isinstance(e.value, ast.Attribute) and isinstance(e.value.value, ast.Name) \
                and e.value.value.id == self.self_name and e.value.attr == 'renderers':                          # I2
            return f'(XPrim "ddict.get" {glist([self.expr(e.value), self.expr(e.slice)])})'
        return super().expr(e)


class InvUpdateTranslator(RenderTranslator):
    """InventoryRenderer.update, its FIRST statement (the loop that feeds the per-key PositionRenderer):
      U0  statement range: the body is cut down to its first statement, which must be `for pos in value.get_positions():`;
          the Counter / self.counts bookkeeping after it is NOT translated (only the non-expanded layouts read it).
      U1  `self.renderers[K].update(a)` as an expression statement (K without effects: names, attributes, and / or) ->
          `$r = ddict.getdefault(self.renderers, K); $r.update(a); self.renderers = dict.set(self.renderers, K, $r)`
          (read-modify-write of the dict entry: value semantics, the owned renderer is reachable only through the dict;
          ddict.getdefault answers the factory's product for a missing key - Model/PrimsRenderInv.v)."""

    def __init__(self, func, refs, prims=()):
        super().__init__(func, refs, prims=prims)
        from beanquery import query_render as qr
        if func is not qr.InventoryRenderer.__dict__.get('update'):
            raise Untranslatable('InvUpdateTranslator is for InventoryRenderer.update only')
        body = [st for i, st in enumerate(self.fd.body)
                if not (i == 0 and isinstance(st, ast.Expr) and isinstance(st.value, ast.Constant))]
        first = body[0] if body else None                                                   # U0
        want = ("Call(func=Attribute(value=Name(id='value', ctx=Load()), attr='get_positions', ctx=Load()), args=[], keywords=[])")
        if not (isinstance(first, ast.For) and ast.dump(first.iter) == want and not first.orelse
                and isinstance(first.target, ast.Name)):
            raise Untranslatable('InventoryRenderer.update does not start with `for <name> in value.get_positions():`')
        self.fd.body = [first]

    @staticmethod
    def _pure(e):
        return all(isinstance(n, (ast.Name, ast.Attribute, ast.BoolOp, ast.And, ast.Or, ast.Load)) for n in ast.walk(e))

    def stmt(self, s):
        if isinstance(s, ast.Expr) and isinstance(s.value, ast.Call) and isinstance(s.value.func, ast.Attribute) \
                and s.value.func.attr == 'update' and isinstance(s.value.func.value, ast.Subscript):              # U1
            sub, call = s.value.func.value, s.value
            if not (isinstance(sub.value, ast.Attribute) and isinstance(sub.value.value, ast.Name)
                    and sub.value.value.id == self.self_name and sub.value.attr == 'renderers'
                    and not isinstance(sub.slice, ast.Slice) and self._pure(sub.slice)
                    and not call.keywords and len(call.args) == 1 and not isinstance(call.args[0], ast.Starred)):
                raise Untranslatable('update through a subscript other than self.renderers[<pure key>].update(x)')
            d, k = self.expr(sub.value), self.expr(sub.slice)
            self.locals.add('$r')
            return (f'(SAssign (TName "$r") (XPrim "ddict.getdefault" {glist([d, k])})); '
                    f'(SExpr (XMethod (TName "$r") "update" {glist([self.expr(call.args[0])])})); '
                    f'(SAssign (TSelf "renderers") (XPrim "dict.set" {glist([d, k, '(XName "$r")'])}))')
        return super().stmt(s)


class InvPrepareTranslator(RenderTranslator):
    """InventoryRenderer.prepare under expand:
      P0  statement range: the body must be `if self.expand: <one assignment> else: ...` followed by
          `return super().prepare()`; ONLY `if self.expand: <the assignment>` is translated (the else branch - the
          non-expanded layouts - and the final super().prepare(), which the theorem runs as the translated
          ColumnRenderer.prepare, are cut off).
      P1  `self.A = self.renderers[K].prepare()` (K pure) ->
          `$r = ddict.getdefault(self.renderers, K); self.A = $r.prepare(); self.renderers = dict.set(self.renderers, K, $r)`
          (prepare() changes its receiver: read-modify-write of the dict entry, as U1)."""

    def __init__(self, func, refs, prims=()):
        super().__init__(func, refs, prims=prims)
        from beanquery import query_render as qr
        if func is not qr.InventoryRenderer.__dict__.get('prepare'):
            raise Untranslatable('InvPrepareTranslator is for InventoryRenderer.prepare only')
        body = [st for i, st in enumerate(self.fd.body)
                if not (i == 0 and isinstance(st, ast.Expr) and isinstance(st.value, ast.Constant))]
        want_test = "Attribute(value=Name(id='self', ctx=Load()), attr='expand', ctx=Load())"
        want_last = ("Return(value=Call(func=Attribute(value=Call(func=Name(id='super', ctx=Load()), args=[], keywords=[]), "
                     "attr='prepare', ctx=Load()), args=[], keywords=[]))")
        if not (len(body) == 2 and isinstance(body[0], ast.If) and ast.dump(body[0].test) == want_test
                and len(body[0].body) == 1 and isinstance(body[0].body[0], ast.Assign) and ast.dump(body[1]) == want_last):
            raise Untranslatable('InventoryRenderer.prepare is not `if self.expand: <assignment> else: ...; return super().prepare()`')
        body[0].orelse = []
        self.fd.body = [body[0]]

    def stmt(self, s):
        if isinstance(s, ast.Assign) and isinstance(s.value, ast.Call) and isinstance(s.value.func, ast.Attribute) \
                and s.value.func.attr == 'prepare' and isinstance(s.value.func.value, ast.Subscript):              # P1
            sub, call = s.value.func.value, s.value
            t = s.targets[0] if len(s.targets) == 1 else None
            if not (isinstance(sub.value, ast.Attribute) and isinstance(sub.value.value, ast.Name)
                    and sub.value.value.id == self.self_name and sub.value.attr == 'renderers'
                    and not isinstance(sub.slice, ast.Slice) and InvUpdateTranslator._pure(sub.slice)
                    and not call.keywords and not call.args
                    and isinstance(t, ast.Attribute) and isinstance(t.value, ast.Name) and t.value.id == self.self_name
                    and t.attr != 'renderers'):
                raise Untranslatable('prepare through a subscript other than self.A = self.renderers[<pure key>].prepare()')
            d, k = self.expr(sub.value), self.expr(sub.slice)
            self.locals.add('$r')
            return (f'(SAssign (TName "$r") (XPrim "ddict.getdefault" {glist([d, k])})); '
                    f'(SAssign (TSelf {py2mini.gstr(t.attr)}) (XMethod (TName "$r") "prepare" [])); '
                    f'(SAssign (TSelf "renderers") (XPrim "dict.set" {glist([d, k, '(XName "$r")'])}))')
        return super().stmt(s)


def spec_renderinv():
    from beanquery import query_render as qr
    if qr.InventoryRenderer.__mro__[1] is not qr.ColumnRenderer:
        raise Untranslatable('InventoryRenderer no longer derives directly from ColumnRenderer')
    q = 'beanquery.query_render.InventoryRenderer'
    return [('render_inv_format_expand', qr.InventoryRenderer.__dict__['format'],
             f'{q}.format: its first statement `if self.expand: ...; return strings` (the expanded layout)'),
            ('render_inv_update_loop', qr.InventoryRenderer.__dict__['update'],
             f'{q}.update: its first statement, the loop `for pos in value.get_positions(): self.renderers[...].update(pos)`'),
            ('render_inv_prepare_expand', qr.InventoryRenderer.__dict__['prepare'],
             f'{q}.prepare: `if self.expand: self.maxwidth = self.renderers[self.expand].prepare()` (without the else branch and '
             'without the final `return super().prepare()`)')]


class InvGroup:
    @staticmethod
    def translate_all(spec, prims=()):
        refs = py2mini.Refs()
        defs, info = [], {}
        for name, fn, origin in spec:
            cls = {'update': InvUpdateTranslator, 'prepare': InvPrepareTranslator}.get(fn.__name__, InvTranslator)
            tr = cls(fn, refs, prims=prims)
            term, defaults = tr.translate()
            defs.append((name, origin, term, defaults))
            info[name] = {'origin': origin, 'lines': sum(len(ast.unparse(s).splitlines()) for s in tr.fd.body) + 1}
        return py2mini.render(defs, refs), info


def register(groups):
    groups['renderinv'] = ('SrcRenderInv.v', spec_renderinv, {'translator': InvGroup, 'prims': INV_PRIMS})
