"""C09: parameters, constant folding, history independence.
Streams: (a) statements with %s / %(name)s placeholders vs the same statement with literals (implementation vs
implementation) and vs Model/Exec.v with constants; (b) constant expressions folded by the compiler vs evaluated per
row from columns holding the same constants; (c) execution histories on one connection (parse once / re-execute /
executemany / interleaved statements / bad parameter sets) vs a fresh connection per execution and vs Model/Params.v;
(d) source data unchanged after executing (deep comparison of the ledger entries / table rows)."""
import copy
import datetime
import decimal
import re

from . import core, impl, values, exprgen, c01
from .core import clist, cZ
from .exprgen import T_INT, T_DEC, T_STR, T_DATE, T_BOOL, PY, E

D = decimal.Decimal
ASSUMPTIONS = [
    'AST walk order of placeholders equals their textual order (holds for every BQL construct; the model keeps both)',
    'TypeError for a wrong parameter container (mapping vs sequence) is compared as an outcome kind, not judged',
    'translator tie (C09_source_*): PyMini (Model/PyMini.v) is the semantics of the translated Compiler.compile / '
    '_placeholder / compiler.compile / Connection wrappers; harness/vf/src_api.py desugars raise, set/dict comprehensions, '
    'sorted(key=lambda), isinstance, f-strings and subscripts into primitives whose meaning is fixed in Model/PrimsApi.v '
    '(trusted): a statement is the list of nodes walk() yields, id(node) is the node\'s source position (two placeholders '
    'never share one), the exception kind of a raise is a function of the class and the leading constant text of the message, '
    'message texts and methods of other objects (cursor.execute, Compiler.compile seen from compiler.compile) are uninterpreted; '
    'C09_source_connection_init covers the leading self.<attr> = ... statements of Connection.__init__ (selected by structure); '
    'the whole of Connection.__init__ and Connection.attach are tied in group attach (C09_source_connection_init_whole, '
    'C09_source_connection_attach; harness/vf/src_attach.py rule A1, Model/PrimsAttach.v): a connection has exactly the attributes '
    'tables / options / errors, Connection.attach assigns none and hands the connection itself to attach of '
    'import_module("beanquery.sources." + urlparse(dsn).scheme); urlparse / import_module return opaque objects whose attributes '
    'are uninterpreted; what the data source module does to the three containers is outside the fragment',
    'group attach2 (bld-inv2; C09_source_attach_registers_*, harness/vf/src_attach2.py rules B1-B3, Model/PrimsAttach2.v): the whole of '
    'beanquery.sources.beancount.attach is translated with the connection as the receiver; trusted: item store / dict.update / '
    'list.extend on a container of the connection behave as raw_set (existing key replaced in place, new key appended) / raw_update / '
    'concatenation and the container is reachable only through the connection attribute (value semantics); a table class of the live '
    'module-level TABLES is an opaque callable whose `name` is what attach2_tables records from the live class; urlparse(dsn).path is an '
    'uninterpreted value, loader.load_file an opaque callable; the theorems assume options is a dict, errors a list and that no table '
    'constructor raises (attach(options=None) without a file raises TypeError in Python: the primitive is Stuck there, not compared)',
    'source-data fingerprint (table_fingerprint): value-based and identity-free (two connections on one file give equal fingerprints); '
    'the per-scan working state of a query_env.Row context (rowid, running balance, memo) is not source data and is left out',
]
IMPORTS = c01.IMPORTS + ['Model.Params']
MARK = '\x00'


class ParamGen(exprgen.Gen):
    """Constants become placeholders (marked in the text; resolved to %s / %(name)s once the full text is known)."""

    def __init__(self, rng, cols, max_depth, p_param=0.6):
        super().__init__(rng, cols, max_depth)
        self.p_param = p_param
        self.vals = []

    def const(self, t):
        e = super().const(t)
        if self.rng.random() < self.p_param:
            v = self.rng.choice([x for x in values.POOLS[PY[t]] if not (isinstance(x, D) and x.is_zero() and x.is_signed())])
            # parameters may be negative; -0.0 is excluded: no literal denotes it (-(0.0) is +0.0 in Python)
            k = len(self.vals)
            self.vals.append(v)
            return E(f'{MARK}{k}{MARK}', f'(EConst {values.to_coq(v)})', t, ['param:' + t])
        return e

    def small_int(self):
        return super().small_int()


def resolve(text, vals, named, rng):
    """Replace markers left to right. Returns (text with placeholders, params, text with literals)."""
    order = [int(k) for k in re.findall(MARK + r'(\d+)' + MARK, text)]
    if named:
        names = {}
        for k in order:
            names.setdefault(k, f'p{k}')
        ptext = re.sub(MARK + r'(\d+)' + MARK, lambda m: f'%({names[int(m.group(1))]})s', text)
        params = {names[k]: vals[k] for k in order}
        params['unused'] = 1
    else:
        ptext = re.sub(MARK + r'(\d+)' + MARK, '%s', text)
        params = [vals[k] for k in order]
    ltext = re.sub(MARK + r'(\d+)' + MARK, lambda m: lit_or_list(vals[int(m.group(1))]), text)
    return ptext, params, ltext, len(order)


def lit_or_list(v):
    """BQL literal text of a parameter value; a list is the list literal `(x, y)` / `(x,)` (what IN compiles from)."""
    if isinstance(v, list):
        return '(' + ', '.join(values.lit(x) for x in v) + (',' if len(v) == 1 else '') + ')'
    return values.lit(v)


def gen_param_case(rng, gen_cls=None):
    ncols = rng.randint(2, 5)
    cols = [(n, rng.choice(exprgen.ALL_TYPES)) for n in 'abcde'[:ncols]]
    rows = [tuple(values.gen_value(rng, PY[t], 0.2) for _, t in cols) for _ in range(rng.choice([1, 2, 4, 6]))]
    g = (gen_cls or ParamGen)(rng, cols, rng.randint(1, 3))
    targets = [g.expr(rng.choice(exprgen.ALL_TYPES)) for _ in range(rng.randint(1, 3))]
    where = g.expr(T_BOOL) if rng.random() < 0.6 else None
    order = g.expr(rng.choice([T_INT, T_DEC, T_STR])) if rng.random() < 0.3 else None
    wrap = rng.random() < 0.2
    text = 'SELECT ' + ', '.join(t.text + (f' AS c{i}' if wrap else '') for i, t in enumerate(targets)) + ' FROM #t'
    if where:
        text += ' WHERE ' + where.text
    if order:
        text += ' ORDER BY (' + order.text + ')'   # a bare integer in ORDER BY is a position, a bare decimal does not parse
    wrap = wrap and not order
    if wrap:
        text = f'SELECT * FROM ({text})'
    ptext, params, ltext, nph = resolve(text, g.vals, rng.random() < 0.4, rng)
    spec = None
    tcoq = [t.coq for t in targets]
    if order:
        spec = [(len(tcoq), False)]
        tcoq = tcoq + [order.coq]
    return {'cols': cols, 'rows': rows, 'ptext': ptext, 'params': params, 'ltext': ltext, 'nph': nph,
            'targets': tcoq, 'nvis': len(targets), 'where': where.coq if where else None, 'spec': spec,
            'wrap': wrap}


class ListParamGen(ParamGen):
    """As ParamGen, and the right operand of IN / NOT IN may be ONE placeholder bound to a Python list (the only way to
    parametrise a membership test; the literal spelling is the list literal `(x, y)`)."""

    def gen_bool(self, d):
        if self.rng.random() < 0.5:
            t = self.rng.choice([T_INT, T_DEC, T_STR, T_DATE])
            a = self.expr(t, d)
            items = [self.rng.choice(values.POOLS[PY[t]]) for _ in range(self.rng.randint(1, 4))]
            items = [abs(v) if t in (T_INT, T_DEC) else v for v in items]      # a list literal holds literals, not -x
            items = [D(values.lit(v)) if t == T_DEC else v for v in items]
            neg = self.rng.random() < 0.4
            k = len(self.vals)
            self.vals.append(items)
            return exprgen.mk(f'({a.text} {"NOT IN" if neg else "IN"} {MARK}{k}{MARK})',
                              f'(EIn {core.cbool(neg)} {a.coq} (Some {clist([values.to_coq(v) for v in items])}))', T_BOOL,
                              'EIn/param' + ('/not' if neg else ''), a)
        return super().gen_bool(d)


def param_values(c):
    return list(c['params'].values()) if isinstance(c['params'], dict) else list(c['params'])


def gen_list_param_case(rng):
    """a placeholder statement with at least one list-valued parameter (positional or named; in targets, WHERE, ORDER BY
    expressions or inside the wrapped subquery)"""
    while True:
        c = gen_param_case(rng, ListParamGen)
        if any(isinstance(v, list) for v in param_values(c)):
            return c


def run_param_impl(c):
    t = impl.make_table('t', [(n, PY[ty]) for n, ty in c['cols']], c['rows'])
    conn = impl.connection({'t': t})
    out = []
    for text, params in ((c['ptext'], c['params']), (c['ltext'], None)):
        try:
            cur = conn.execute(text, params)
            out.append([0, values.canon_rows(cur.fetchall())])
        except Exception as e:  # noqa: BLE001
            out.append(['exception', impl.exc_class(e), str(e)[:200]])
    return out


def param_model_expr(c):
    q = ('{| q_where := ' + (f'(Some {c["where"]})' if c['where'] else 'None') + '; q_targets := ' + clist(c['targets'])
         + '; q_group := None; q_aggs := []; q_having := None; q_order := '
         + ('None' if not c['spec'] else '(Some ' + clist([f'({i}%nat, {core.cbool(d)})' for i, d in c['spec']]) + ')')
         + '; q_vis := ' + clist([f'{i}%nat' for i in range(c['nvis'])]) + '; q_distinct := false; q_limit := None |}')
    return f'exec_out {q} {values.rows_to_coq(c["rows"])}'


def binding_order_cases(rng, n):
    """Positional placeholders in the targets AND in the FROM clause (subquery / FROM expression): FROM is compiled
    before the targets, textual order must still decide. Oracle: the same statement with literals."""
    out = []
    for _ in range(n):
        a, b, c = (rng.choice([0, 1, 2, 3, 5, 7]) for _ in range(3))
        shape = rng.randrange(6)
        if shape >= 4:
            # an ORDER BY expression spelled exactly like an un-aliased target but bound to another parameter
            m1, m2 = rng.choice([(3, 2), (2, 3), (5, 2), (2, 7)])
            ptext = 'SELECT a, a % %s FROM #t ORDER BY a % %s' + (' DESC' if shape == 5 else '') + ', a'
            ltext = f'SELECT a, a % {m1} FROM #t ORDER BY a % {m2}' + (' DESC' if shape == 5 else '') + ', a'
            params = [m1, m2]
        elif shape == 0:
            ptext = 'SELECT c0, %s AS tag FROM (SELECT a AS c0 FROM #t WHERE a < %s)'
            ltext = f'SELECT c0, {a} AS tag FROM (SELECT a AS c0 FROM #t WHERE a < {b})'
            params = [a, b]
        elif shape == 1:
            ptext = 'SELECT %s + a, %s FROM a >= %s WHERE a != %s'
            ltext = f'SELECT {a} + a, {b} FROM a >= {c} WHERE a != {a}'
            params = [a, b, c, a]
        elif shape == 2:
            ptext = 'SELECT %s, c0 FROM (SELECT a + %s AS c0 FROM (SELECT a FROM #t WHERE a > %s)) WHERE c0 != %s'
            ltext = f'SELECT {a}, c0 FROM (SELECT a + {b} AS c0 FROM (SELECT a FROM #t WHERE a > {c})) WHERE c0 != {b}'
            params = [a, b, c, b]
        else:
            ptext = 'SELECT a, %s FROM #t WHERE a IN (SELECT a FROM #t WHERE a <= %s) ORDER BY (a * %s) DESC'
            ltext = f'SELECT a, {a} FROM #t WHERE a IN (SELECT a FROM #t WHERE a <= {b}) ORDER BY (a * {c - 3}) DESC'
            params = [a, b, c - 3]
            ltext = ltext.replace('* -', '* (-').replace(') DESC', ')) DESC') if c - 3 < 0 else ltext
        out.append({'ptext': ptext, 'ltext': ltext, 'params': params})
    return out


def run_binding_impl(c):
    t = impl.make_table('t', [('a', int)], [(i,) for i in range(8)])
    t.update = lambda **kw: t
    conn = impl.connection({'t': t, 'postings': t})
    out = []
    for text, params in ((c['ptext'], c['params']), (c['ltext'], None)):
        try:
            out.append([0, values.canon_rows(conn.execute(text, params).fetchall())])
        except Exception as e:  # noqa: BLE001
            out.append(['exception', impl.exc_class(e), str(e)[:200]])
    return out


EQ_PARAMS = [1, True, decimal.Decimal('1'), decimal.Decimal('1.00'), 0, False, decimal.Decimal('0'), decimal.Decimal('0.0'), 2]


def same_cursor_history(rng):
    """One cursor object re-used with parameters that are == but of different type / exponent (1, TRUE, 1.00 ...),
    with the same text, the same parsed statement and executemany. Oracle: a fresh connection per execution."""
    texts = ['SELECT %s AS p, str(%s) AS s FROM #t WHERE a < 2', 'SELECT %(x)s AS p FROM #t WHERE a = 0']
    steps = []
    for _ in range(rng.randint(2, 6)):
        ti = rng.randrange(2)
        v = rng.choice(EQ_PARAMS)
        w = rng.choice(EQ_PARAMS)
        steps.append((ti, [v, w] if ti == 0 else {'x': v}, rng.random() < 0.5))
    return {'texts': texts, 'steps': steps}


def run_same_cursor(h):
    table = impl.make_table('t', [('a', int)], [(0,), (1,), (2,)])
    conn = impl.connection({'t': table})
    cur = conn.cursor()
    parsed = [conn.parse(t) for t in h['texts']]
    got, want = [], []
    for ti, params, use_parsed in h['steps']:
        def run(c, stmt):
            try:
                c.execute(stmt, params)
                return [0, [(d.name, d.datatype.__name__) for d in c.description], values.canon_rows(c.fetchall())]
            except Exception as e:  # noqa: BLE001
                return ['exception', impl.exc_class(e), str(e)[:100]]
        got.append(run(cur, parsed[ti] if use_parsed else h['texts'][ti]))
        fresh = impl.connection({'t': impl.make_table('t', [('a', int)], [(0,), (1,), (2,)])})
        want.append(run(fresh.cursor(), h['texts'][ti]))
    return got, want


# ---- (b) folding
class ColMarkGen(exprgen.Gen):
    def col(self, t):
        i, n = self.rng.choice(self.bytype[t])
        return E(f'{MARK}{i}{MARK}', f'(ECol {i}%nat)', t, ['col:' + t], 0, [n])


def gen_fold_case(rng):
    ncols = rng.randint(2, 5)
    cols = [(n, rng.choice(exprgen.ALL_TYPES)) for n in 'abcde'[:ncols]]
    row = tuple(abs(v) if isinstance(v, (int, D)) and not isinstance(v, bool) else v
                for v in (values.gen_value(rng, PY[t], 0.0) for _, t in cols))
    row = tuple(D(values.lit(v)) if isinstance(v, D) else v for v in row)
    g = ColMarkGen(rng, cols, rng.randint(1, 4))
    g.leaf = lambda t: g.col(t) if t in g.bytype else exprgen.Gen.const(g, t)
    e = g.expr(rng.choice(exprgen.ALL_TYPES))
    coltext = re.sub(MARK + r'(\d+)' + MARK, lambda m: cols[int(m.group(1))][0], e.text)
    littext = re.sub(MARK + r'(\d+)' + MARK, lambda m: values.lit(row[int(m.group(1))]), e.text)
    return {'cols': cols, 'row': row, 'coltext': coltext, 'littext': littext, 'coq': e.coq}


def run_fold_impl(c):
    t = impl.make_table('t', [(n, PY[ty]) for n, ty in c['cols']], [c['row']])
    conn = impl.connection({'t': t})
    out = []
    for text in (f'SELECT {c["coltext"]} FROM #t', f'SELECT {c["littext"]} FROM #t', f'SELECT {c["littext"]} FROM #'):
        try:
            out.append([0, values.canon_rows(conn.execute(text).fetchall())])
        except Exception as e:  # noqa: BLE001
            out.append(['exception', impl.exc_class(e), str(e)[:200]])
    try:
        from beanquery import query_compile as qc
        q = conn.compile(conn.parse(f'SELECT {c["littext"]} FROM #t'))
        folded = isinstance(q.c_targets[0].c_expr, qc.EvalConstant)
    except Exception:  # noqa: BLE001
        folded = None
    return out, folded


def fold_model_expr(c):
    q = ('{| q_where := None; q_targets := [' + c['coq'] + ']; q_group := None; q_aggs := []; q_having := None; '
         'q_order := None; q_vis := [0%nat]; q_distinct := false; q_limit := None |}')
    return f'exec_out {q} {values.rows_to_coq([c["row"]])}'


# ---- (c) histories
STATEMENTS = [
    ('SELECT {0}, {1} FROM #t WHERE a >= {2}', 3),
    ('SELECT {0} FROM #t WHERE a < {1}', 2),
    ('SELECT {0} FROM #t', 1),
    ('SELECT a FROM #t WHERE a = 1', 0),
    ('SELECT {1}, {0} FROM #t WHERE a IN (SELECT a FROM #t WHERE a > {2})', 3),
]


def make_stmt(rng, si, named):
    tmpl, n = STATEMENTS[si]
    if named:
        names = [rng.choice(['x', 'y', 'z']) for _ in range(n)]
        text = tmpl.format(*[f'%({nm})s' for nm in names])
    else:
        names = [''] * n
        text = tmpl.format(*['%s'] * n)
    # textual positions
    phs = []
    for m in re.finditer(r'%s|%\((\w+)\)s', text):
        phs.append((m.start(), m.group(1) or ''))
    return text, phs


def gen_params(rng, phs, bad_p=0.25):
    named = bool(phs) and phs[0][1] != ''
    r = rng.random()
    if not phs:
        return rng.choice([None, [], {}])
    if named:
        names = sorted({n for _, n in phs})
        p = {n: rng.choice([0, 1, 2, 3]) for n in names}
        if r < bad_p / 2 and names:
            del p[names[0]]
        elif r < bad_p:
            return [1] * len(phs)
        return p
    p = [rng.choice([0, 1, 2, 3]) for _ in phs]
    if r < bad_p / 3:
        return p[:-1]
    if r < 2 * bad_p / 3:
        return p + [9]
    if r < bad_p:
        return {'x': 1}
    return p


def gen_history(rng, n):
    ops = []
    parsed = 0
    for _ in range(n):
        r = rng.random()
        si = rng.randrange(len(STATEMENTS))
        named = rng.random() < 0.35
        if r < 0.2 or parsed == 0:
            text, phs = make_stmt(rng, si, named)
            ops.append(('parse', text, phs))
            parsed += 1
        elif r < 0.6:
            ops.append(('exec_ast', rng.randrange(parsed), None))
        elif r < 0.85:
            text, phs = make_stmt(rng, si, named)
            ops.append(('exec_text', text, phs, gen_params(rng, phs)))
        else:
            text, phs = make_stmt(rng, si, named)
            ops.append(('exec_many', text, phs, [gen_params(rng, phs, 0.1) for _ in range(rng.randint(0, 3))]))
    # fill exec_ast params now that the store is known
    store = []
    out = []
    for o in ops:
        if o[0] == 'parse':
            store.append(o)
            out.append(o)
        elif o[0] == 'exec_ast':
            out.append(('exec_ast', o[1], gen_params(rng, store[o[1]][2])))
        else:
            out.append(o)
    return out


def outcome(conn_exec):
    try:
        rows = conn_exec()
        return [0, values.canon_rows(rows)]
    except TypeError:
        return [1]
    except Exception as e:  # noqa: BLE001
        msg = str(e)
        if isinstance(e, impl.beanquery.ProgrammingError):
            if 'missing' in msg:
                return [2]
            if 'placeholders but' in msg:
                return [3]
            if 'cannot be mixed' in msg:
                return [4]
        return ['exception', impl.exc_class(e), msg[:150]]


TABLE_ROWS = [(0,), (1,), (2,), (3,), (1,)]


def fresh_outcome(text, params):
    conn = impl.connection({'t': impl.make_table('t', [('a', int)], list(TABLE_ROWS))})
    return outcome(lambda: conn.execute(text, params).fetchall())


def run_history_impl(h):
    table = impl.make_table('t', [('a', int)], list(TABLE_ROWS))
    conn = impl.connection({'t': table})
    store, res, exp = [], [], []
    for o in h:
        if o[0] == 'parse':
            store.append((conn.parse(o[1]), o[1]))
            res.append([])
            exp.append([])
        elif o[0] == 'exec_ast':
            ast_, text = store[o[1]]
            res.append([outcome(lambda: conn.execute(ast_, o[2]).fetchall())])
            exp.append([fresh_outcome(text, o[2])])
        elif o[0] == 'exec_text':
            res.append([outcome(lambda: conn.execute(o[1], o[3]).fetchall())])
            exp.append([fresh_outcome(o[1], o[3])])
        else:
            # executemany: outcome of each parameter set = what the cursor holds after it; emulate through the API
            cur = conn.cursor()
            outs = []
            try:
                parsed = conn.parse(o[1])
                for p in o[3]:
                    outs.append(outcome(lambda: cur.execute(parsed, p).fetchall()))
                # and the real executemany must not fail where the loop did not
                failed = any(x[0] != 0 for x in outs)
                try:
                    conn.cursor().executemany(o[1], o[3])
                    real_ok = True
                except Exception:  # noqa: BLE001
                    real_ok = False
                if real_ok == failed:
                    outs.append(['executemany-disagrees', real_ok])
            except Exception as e:  # noqa: BLE001
                outs.append(['exception', impl.exc_class(e)])
            res.append(outs)
            exp.append([fresh_outcome(o[1], p) for p in o[3]])
    unchanged = table.rows == list(TABLE_ROWS)
    return res, exp, unchanged


def coq_ph(phs):
    return clist(['{| ph_pos := %d; ph_name := %s |}' % (pos, 'PEmpty' if not n else 'PNamed ' + core.cstr(n)) for pos, n in phs])


def coq_params(p):
    if p is None:
        return 'PNone'
    if isinstance(p, dict):
        return 'PMap ' + clist([f'({core.cstr(k)}, VInt {cZ(v)})' for k, v in p.items()])
    return 'PSeq ' + clist([f'VInt {cZ(v)}' for v in p])


def history_model_expr(h):
    items = []
    for o in h:
        if o[0] == 'parse':
            items.append('HParse ' + coq_ph(o[2]))
        elif o[0] == 'exec_ast':
            items.append(f'HExecAst {o[1]}%nat ({coq_params(o[2])})')
        elif o[0] == 'exec_text':
            items.append(f'HExecText {coq_ph(o[2])} ({coq_params(o[3])})')
        else:
            items.append(f'HExecMany {coq_ph(o[2])} ' + clist(['(' + coq_params(p) + ')' for p in o[3]]))
    return 'history_out false ' + clist(items)


def kinds(res):
    """Outcome kinds as the parameter model sees them (0 ok / 1 TypeError / 2 missing / 3 count / 4 mixed)."""
    return [[x[0] if x[0] in (0, 1, 2, 3, 4) else x for x in step] for step in res]


def show_history(h):
    out = []
    for o in h:
        if o[0] == 'parse':
            out.append(f'p=parse({o[1]!r})')
        elif o[0] == 'exec_ast':
            out.append(f'execute(parsed[{o[1]}], {o[2]!r})')
        elif o[0] == 'exec_text':
            out.append(f'execute({o[1]!r}, {o[3]!r})')
        else:
            out.append(f'executemany({o[1]!r}, {o[3]!r})')
    return '; '.join(out)


IMMUTABLE_DIFF = []


_ADDR = re.compile(r' at 0x[0-9a-fA-F]+')


def _freeze(v, depth=0):
    """a deep, order-preserving, VALUE-based snapshot of a data container (dict order and dict class included); nothing in it
    depends on object identity: an object without a value-based repr is taken by its attributes, and any address left in
    a repr is blanked"""
    if isinstance(v, dict):
        return ('dict', type(v).__name__, [(_freeze(k, depth + 1), _freeze(x, depth + 1)) for k, x in list(v.items())])
    if isinstance(v, (list, tuple)):
        return (type(v).__name__, [_freeze(x, depth + 1) for x in v])
    if isinstance(v, (set, frozenset)):
        return ('set', sorted(repr(_freeze(x, depth + 1)) for x in v))
    if type(v).__repr__ is object.__repr__ and depth < 8:
        names = list(getattr(v, '__dict__', {})) + [n for c in type(v).__mro__ for n in getattr(c, '__slots__', ())]
        return ('object', type(v).__name__, [(n, _freeze(getattr(v, n, None), depth + 1)) for n in sorted(set(names))])
    return _ADDR.sub(' at 0x?', repr(v))


def _freeze_row(r):
    """what a table yields: a directive / tuple of source values is taken whole; a row CONTEXT object (query_env.Row: rowid,
    running balance and its memo are per-scan working state, not source data) only by the directive data it points to"""
    if type(r).__repr__ is object.__repr__:
        return ('context', type(r).__name__, [(n, _freeze(getattr(r, n))) for n in ('entry', 'posting') if hasattr(r, n)])
    return _freeze(r)


def table_fingerprint(conn):
    """SOURCE DATA of the connection, by value: {table name: {'attr:<name>': every instance attribute of the table object (the
    directive lists, options, price map, account / commodity maps its rows and the context functions are served from),
    'rows': the source values iterating the table yields}} for every table of the connection"""
    fp = {}
    for name, t in conn.tables.items():
        d = {}
        for k, v in sorted(getattr(t, '__dict__', {}).items()):
            d['attr:' + k] = _freeze(v)
        try:
            d['rows'] = [_freeze_row(r) for r in t]
        except Exception as e:  # noqa: BLE001
            d['rows'] = 'iteration raises ' + type(e).__name__
        fp[name or '(default)'] = d
    fp['(tables)'] = {'names': sorted(conn.tables)}
    return fp


def fingerprint_diff(a, b):
    out = []
    for name in sorted(set(a) | set(b)):
        da, db = a.get(name, {}), b.get(name, {})
        for k in sorted(set(da) | set(db)):
            if da.get(k) != db.get(k):
                x, y = da.get(k), db.get(k)
                nx = len(x[-1]) if isinstance(x, tuple) else len(x) if isinstance(x, list) else None
                ny = len(y[-1]) if isinstance(y, tuple) else len(y) if isinstance(y, list) else None
                out.append(f'#{name} {k}: {nx} -> {ny} items' if nx != ny else f'#{name} {k}: content changed')
    return out


def ledger_immutable():
    """Executing never mutates the source data: entries of a beancount connection before/after a workload."""
    import os
    import tempfile
    src = '''option "operating_currency" "USD"
2020-01-01 open Assets:Cash
2020-01-01 open Income:Job
2020-01-01 open Expenses:Food
2020-01-01 open Assets:Stock
2020-01-05 * "Employer" "Pay" #tag ^link
  note: "x"
  Assets:Cash   1000.00 USD
  Income:Job
2020-02-01 * "Shop" "Food"
  Expenses:Food  12.50 USD
    m: 1
  Assets:Cash
2020-03-01 * "Buy"
  Assets:Stock  2 ABC {10.00 USD}
  Assets:Cash
2020-03-02 price ABC 11.00 USD
2020-12-31 balance Assets:Cash 967.50 USD
'''
    with tempfile.NamedTemporaryFile('w', suffix='.beancount', delete=False) as f:
        f.write(src)
        path = f.name
    try:
        conn = impl.beanquery.connect('beancount:' + path)
        ents = conn.tables['entries'].entries if hasattr(conn.tables['entries'], 'entries') else None
        before = copy.deepcopy(ents)
        before_tables = table_fingerprint(conn)
        work = LOOKUP_STATEMENTS + READER_STATEMENTS + ['SELECT account, sum(position) GROUP BY account', 'SELECT balance, balance WHERE number > 0',
                'SELECT date, narration FROM OPEN ON 2020-02-01 CLOSE ON 2020-03-15 CLEAR',
                'BALANCES AT cost FROM year = 2020', 'JOURNAL "Cash"', 'SELECT * FROM #entries', 'SELECT * FROM #prices',
                'SELECT account, any_meta(\'m\') FROM #postings ORDER BY 1 DESC',
                'SELECT account FROM #accounts', 'SELECT date FROM #postings WHERE account = %s']
        bad = []
        for q in work:
            try:
                conn.execute(q, LEDGER_PARAMS.get(q, ['Assets:Cash'] if '%s' in q else None)).fetchall()
            except Exception as e:  # noqa: BLE001
                bad.append(f'{q}: {e!r}')
        same = ents is None or before == ents
        IMMUTABLE_DIFF[:] = fingerprint_diff(before_tables, table_fingerprint(conn))
        return same and not IMMUTABLE_DIFF, bad, len(work)
    finally:
        os.unlink(path)


LEDGER_STATEMENTS = [
    'SELECT date, account, position',
    'SELECT account, sum(position) GROUP BY account ORDER BY account',
    'SELECT account, sum(position) FROM CLEAR GROUP BY account ORDER BY account',
    'SELECT account, sum(position) FROM OPEN ON 2020-02-01 GROUP BY account ORDER BY account',
    'SELECT account, sum(position) FROM OPEN ON 2020-02-01 CLEAR GROUP BY account ORDER BY account',
    'SELECT account, sum(position) FROM OPEN ON 2020-02-01 CLOSE ON 2020-03-15 GROUP BY account ORDER BY account',
    'SELECT account, sum(position) FROM OPEN ON 2020-02-01 CLOSE ON 2020-03-15 CLEAR GROUP BY account ORDER BY account',
    'SELECT account, sum(position) FROM CLOSE ON 2020-03-15 GROUP BY account ORDER BY account',
    'SELECT date, narration FROM year = 2020 WHERE number > 0',
    'BALANCES', 'BALANCES FROM CLEAR', 'JOURNAL "Cash"', 'JOURNAL "Cash" FROM CLOSE ON 2020-03-15',
    'SELECT date, type FROM #entries', 'SELECT balance WHERE account ~ "Cash"',
    "SELECT account, grep('cash', account), grep('Cash', account), subst('ASSETS', 'x', account)",
    "SELECT date FROM has_account('cash') WHERE has_account('Cash') AND has_account('ASSETS')",
    "SELECT findfirst('cash', other_accounts), grepn('(assets):(c)', account, 2)",
    "SELECT date FROM has_account('(assets):(c)')",
    'SELECT account FROM #postings WHERE account IN (SELECT account FROM CLOSE ON 2020-02-15)',
]
# (fix-D) look-ups in the per-connection maps behind #accounts / #commodities / #prices with keys that have NO directive
# (parent / root / leaf of an account, literal and parameter names, undeclared currencies, unknown price pairs), and readers of
# those tables: a look-up must not leave anything behind in the table it consulted
N_PLAIN_LEDGER_STATEMENTS = len(LEDGER_STATEMENTS)
LOOKUP_STATEMENTS = [
    'SELECT DISTINCT account, open_date(parent(account)) AS d ORDER BY account',
    'SELECT DISTINCT root(account, 1) AS r, close_date(root(account, 1)) AS d ORDER BY r',
    "SELECT open_date('Assets:Nope') AS a, close_date('Assets:Nope') AS b, open_meta('Assets:Nope', 'k') AS c FROM #",
    "SELECT open_date('Assets') AS a FROM #postings",
    "SELECT open_date(%s) AS a, open_meta(%s, 'x') AS m FROM #",
    'SELECT close_date(%(a)s) AS c, open_date(%(b)s) AS o FROM #',
    "SELECT account, open_meta(leaf(account), 'x') AS m FROM #postings WHERE number > 0",
    "SELECT currency, currency_meta(currency, 'name') AS m, commodity_meta('XYZ', 'name') AS x FROM #postings",
    "SELECT currency_meta(%s, 'name') AS m FROM #",
    "SELECT getprice('XYZ', 'USD') AS p, getprice('ABC', 'EUR', 2020-03-05) AS q, getprice(%s, 'USD') AS r FROM #",
    "SELECT convert(position, 'EUR') AS v, convert(position, 'USD', 2019-01-01) AS w FROM #postings",
    'SELECT account, open_date(parent(account)) AS d FROM #accounts',
]
READER_STATEMENTS = [
    'SELECT account, open.date AS o, close.date AS c FROM #accounts',
    'SELECT count(*) AS n FROM #accounts',
    'SELECT account, open_date(account) AS o, close_date(account) AS c FROM #accounts ORDER BY account',
    'SELECT name, date FROM #commodities',
    'SELECT count(*) AS n FROM #commodities',
    'SELECT date, currency, amount FROM #prices',
    "SELECT getprice('ABC', 'USD') AS p FROM #",
    'SELECT account FROM #postings WHERE account IN (SELECT account FROM #accounts)',
]
LEDGER_PARAMS = {
    "SELECT open_date(%s) AS a, open_meta(%s, 'x') AS m FROM #": ['Liabilities:Card', 'Equity'],
    'SELECT close_date(%(a)s) AS c, open_date(%(b)s) AS o FROM #': {'a': 'Expenses', 'b': 'Income:Job:Bonus'},
    "SELECT currency_meta(%s, 'name') AS m FROM #": ['CHF'],
    "SELECT getprice('XYZ', 'USD') AS p, getprice('ABC', 'EUR', 2020-03-05) AS q, getprice(%s, 'USD') AS r FROM #": ['NOPE'],
}
LEDGER_STATEMENTS = LEDGER_STATEMENTS + LOOKUP_STATEMENTS + READER_STATEMENTS
LEDGER_SRC = '''option "operating_currency" "USD"
2020-01-01 open Assets:Cash
2020-01-01 open Income:Job
2020-01-01 open Expenses:Food
2020-01-01 open Assets:Stock
2020-01-01 open Equity:Opening
2020-01-05 * "Employer" "Pay"
  Assets:Cash   1000.00 USD
  Income:Job
2020-02-01 * "Shop" "Food"
  Expenses:Food  12.50 USD
  Assets:Cash
2020-03-01 * "Buy"
  Assets:Stock  2 ABC {10.00 USD}
  Assets:Cash
2020-03-02 price ABC 11.00 USD
2020-04-01 * "Shop" "More food"
  Expenses:Food  7.50 USD
  Assets:Cash
'''


LEDGER_PARAM_STATEMENTS = [
    ('BALANCES WHERE account ~ %s', ['Cash'], "BALANCES WHERE account ~ 'Cash'"),
    ('BALANCES AT cost FROM year = %s WHERE account ~ %s', [2020, 'Assets'], "BALANCES AT cost FROM year = 2020 WHERE account ~ 'Assets'"),
    ('BALANCES FROM year = %(y)s', {'y': 2020}, 'BALANCES FROM year = 2020'),
    ("JOURNAL 'Cash' FROM year = %s", [2020], "JOURNAL 'Cash' FROM year = 2020"),
    ("JOURNAL 'Food' AT units FROM month >= %(m)s", {'m': 2}, "JOURNAL 'Food' AT units FROM month >= 2"),
    ('SELECT account, sum(position) FROM year = %s WHERE account ~ %s GROUP BY account ORDER BY account', [2020, 'Cash'],
     "SELECT account, sum(position) FROM year = 2020 WHERE account ~ 'Cash' GROUP BY account ORDER BY account"),
    ('SELECT date FROM #entries WHERE type = %s', ['price'], "SELECT date FROM #entries WHERE type = 'price'"),
    ('SELECT date, account WHERE account IN %s', [['Assets:Cash', 'Expenses:Food']],
     "SELECT date, account WHERE account IN ('Assets:Cash', 'Expenses:Food')"),
    ('SELECT date, account, number WHERE account NOT IN %(a)s AND year IN %(y)s', {'a': ['Assets:Cash'], 'y': [2019, 2020]},
     "SELECT date, account, number WHERE account NOT IN ('Assets:Cash',) AND year IN (2019, 2020)"),
    ('BALANCES FROM year IN %s WHERE account IN %s', [[2020, 2021], ['Assets:Cash', 'Assets:Stock']],
     "BALANCES FROM year IN (2020, 2021) WHERE account IN ('Assets:Cash', 'Assets:Stock')"),
    ("JOURNAL 'Cash' FROM month NOT IN %(m)s", {'m': [2, 3]}, "JOURNAL 'Cash' FROM month NOT IN (2, 3)"),
    ('SELECT date FROM #entries WHERE type IN %s AND date IN %s', [['price', 'open'], [datetime.date(2020, 1, 1), datetime.date(2020, 3, 2)]],
     "SELECT date FROM #entries WHERE type IN ('price', 'open') AND date IN (2020-01-01, 2020-03-02)"),
    ('SELECT account FROM #postings WHERE account IN (SELECT account FROM #accounts WHERE account NOT IN %s)', [['Income:Job', 'Equity:Opening']],
     "SELECT account FROM #postings WHERE account IN (SELECT account FROM #accounts WHERE account NOT IN ('Income:Job', 'Equity:Opening'))"),
]


def ledger_param_statements():
    """Placeholders in every statement kind (BALANCES, JOURNAL, SELECT over the Beancount tables): same rows as the literal form."""
    import os
    path = _ledger_path()
    bad = []
    try:
        conn = impl.beanquery.connect('beancount:' + path)
        for ptext, params, ltext in LEDGER_PARAM_STATEMENTS:
            def run(text, p):
                try:
                    return [0, [repr(r) for r in conn.execute(text, p).fetchall()]]
                except Exception as e:  # noqa: BLE001
                    return ['exception', type(e).__name__, str(e)[:100]]
            a, b = run(ptext, params), run(ltext, None)
            if a != b:
                bad.append((ptext, params, a, b))
    finally:
        os.unlink(path)
    return len(LEDGER_PARAM_STATEMENTS), bad


# (fix-D) a look-up made WHILE the consulted table is being scanned: `SELECT key, f(g(key)) FROM #table` has to return, for every
# key of the table, what `SELECT f(g(%s)) FROM #` returns for that key (the same query spelled row by row, each on a
# connection of its own); in particular it may not fail
SCAN_LEDGER_EXTRA = '2020-01-01 commodity USD\n  name: "Dollar"\n2020-01-01 commodity ABC\n2020-06-01 close Assets:Stock\n'
SCAN_LOOKUPS = [
    ('accounts', 'account', ['open_date(parent({}))', 'close_date(root({}, 1))', "open_meta(parent({}), 'x')", 'open_date({})',
                             'close_date({})', 'open_date(leaf({}))', "open_meta(root({}, 1), 'k')"]),
    ('commodities', 'name', ["currency_meta({}, 'name')", "commodity_meta(lower({}), 'name')", "getprice({}, 'USD')", "getprice({}, 'CHF')",
                             "getprice(lower({}), 'USD', 2020-03-05)"]),
    ('prices', 'currency', ["getprice({}, 'EUR')", "getprice('EUR', {})", "currency_meta({}, 'name')"]),
    ('postings', 'account', ['open_date(parent({}))', "open_meta(leaf({}), 'x')"]),
]


def scan_lookup_cases():
    return [(t, key, e) for t, key, exprs in SCAN_LOOKUPS for e in exprs]


def run_scan_lookup(case):
    import os
    t, key, e = case
    path = _ledger_path(LEDGER_SRC + SCAN_LEDGER_EXTRA)
    try:
        def conn():
            return impl.beanquery.connect('beancount:' + path)
        scan = f'SELECT {key} AS k, {e.format(key)} AS v FROM #{t}'
        try:
            got = [0, [repr(tuple(r)) for r in conn().execute(scan).fetchall()]]
        except Exception as ex:  # noqa: BLE001
            got = ['exception', impl.exc_class(ex), str(ex)[:120]]
        try:
            keys = [r[0] for r in conn().execute(f'SELECT {key} AS k FROM #{t}').fetchall()]
            one = f'SELECT {e.format("%s")} AS v FROM #'
            want = [0, [repr((k, conn().execute(one, [k]).fetchall()[0][0])) for k in keys]]
        except Exception as ex:  # noqa: BLE001
            want = ['exception', impl.exc_class(ex), str(ex)[:120]]
        return scan, got, want
    finally:
        os.unlink(path)


def gen_ledger_history(rng):
    return [rng.randrange(len(LEDGER_STATEMENTS)) for _ in range(rng.randint(2, 7))]


def gen_lookup_history(rng):
    """look-ups of keys without a directive, then readers of the tables behind them (and again): indexes into LEDGER_STATEMENTS"""
    lo = N_PLAIN_LEDGER_STATEMENTS
    mid = lo + len(LOOKUP_STATEMENTS)
    h = []
    for _ in range(rng.randint(1, 2)):
        h += [rng.randrange(lo, mid) for _ in range(rng.randint(1, 3))]
        h += [rng.randrange(mid, len(LEDGER_STATEMENTS)) for _ in range(rng.randint(1, 2))]
        if rng.random() < 0.3:
            h.append(rng.randrange(lo))
    return h


def _ledger_path(src=None):
    import tempfile
    f = tempfile.NamedTemporaryFile('w', suffix='.beancount', delete=False)
    f.write(LEDGER_SRC if src is None else src)
    f.close()
    return f.name


def _run_ledger_stmt(conn, text):
    try:
        cur = conn.execute(text, LEDGER_PARAMS.get(text))
        return [0, [repr(r) for r in cur.fetchall()]]
    except Exception as e:  # noqa: BLE001
        return ['exception', impl.exc_class(e), str(e)[:120]]


def _fresh_stmt(i):
    """One statement on a fresh connection in a FRESH PROCESS (nothing executed before in it)."""
    import os
    path = _ledger_path()
    try:
        return _run_ledger_stmt(impl.beanquery.connect('beancount:' + path), LEDGER_STATEMENTS[i])
    finally:
        os.unlink(path)


def _history_got(h):
    import os
    path = _ledger_path()
    try:
        conn = impl.beanquery.connect('beancount:' + path)
        return [_run_ledger_stmt(conn, LEDGER_STATEMENTS[i]) for i in h]
    finally:
        os.unlink(path)


def fresh_process_map(fn, items):
    """Each item in its own freshly forked process (maxtasksperchild=1): process-wide caches filled by one task cannot
    leak into another task nor into the oracle."""
    import multiprocessing as mp
    ctx = mp.get_context('fork')
    with ctx.Pool(core.NCPU, maxtasksperchild=1) as pool:
        return pool.map(fn, list(items), 1)


def run_ledger_history(h, want_table=None):
    """Statements with and without OPEN/CLOSE/CLEAR, BALANCES, JOURNAL, regex functions ... in sequence on ONE Beancount
    connection; every result must equal the result of the same statement executed alone in a fresh process."""
    if want_table is None:
        want_table = dict(zip(range(len(LEDGER_STATEMENTS)), fresh_process_map(_fresh_stmt, range(len(LEDGER_STATEMENTS)))))
    got = _history_got(h)
    return got, [want_table[i] for i in h]


# ---- JSON-safe replay records for parameter cases
def enc(v):
    if isinstance(v, bool) or v is None or isinstance(v, (int, str)):
        return v
    if isinstance(v, D):
        return {'$decimal': str(v)}
    if isinstance(v, datetime.date):
        return {'$date': v.isoformat()}
    if isinstance(v, dict):
        return {'$map': [[k, enc(x)] for k, x in v.items()]}
    return [enc(x) for x in v]


def dec(v):
    if isinstance(v, dict):
        if '$decimal' in v:
            return D(v['$decimal'])
        if '$date' in v:
            return datetime.date.fromisoformat(v['$date'])
        return {k: dec(x) for k, x in v['$map']}
    if isinstance(v, list):
        return [dec(x) for x in v]
    return v


def param_record(c):
    return {'kind': 'param-case', 'cols': [list(x) for x in c['cols']], 'rows': enc([list(r) for r in c['rows']]),
            'ptext': c['ptext'], 'params': enc(c['params']), 'ltext': c['ltext']}


def replay_param_record(rec):
    c = {'cols': [tuple(x) for x in rec['cols']], 'rows': [tuple(r) for r in dec(rec['rows'])], 'ptext': rec['ptext'],
         'params': dec(rec['params']), 'ltext': rec['ltext']}
    wp, wl = run_param_impl(c)
    return wp == wl


# ---- (c') histories containing statements that do NOT complete: refused by the compiler after their FROM clause was
# processed, or PRINT (which a cursor refuses to run and the shell runs through Connection.compile). "any other executions in
# between never change [a result] or make it fail": every step must give what a fresh connection in a fresh process gives.
REJ_FROM_EXPR = ['CLOSE ON 2020-03-15', 'OPEN ON 2020-02-01', 'CLEAR', 'OPEN ON 2020-02-01 CLOSE ON 2020-03-15 CLEAR', 'year = 2020',
                 "has_account('Cash')"]
DEFAULT_TABLE_STATEMENTS = [
    'SELECT count(*)', 'SELECT *', 'SELECT date, account, position', 'SELECT account, sum(number) GROUP BY account ORDER BY account',
    'SELECT account, sum(position) FROM CLEAR GROUP BY account ORDER BY account',
    'SELECT account, sum(position) FROM OPEN ON 2020-02-01 CLOSE ON 2020-03-15 GROUP BY account ORDER BY account',
    'SELECT date, narration FROM year = 2020 WHERE number > 0', 'SELECT balance WHERE account ~ "Cash"',
    'BALANCES', 'BALANCES AT cost', 'BALANCES FROM CLEAR', 'JOURNAL', 'JOURNAL "Cash"', 'JOURNAL "Cash" AT units FROM CLOSE ON 2020-03-15',
    'SELECT account WHERE account IN (SELECT account FROM CLOSE ON 2020-02-15)',
    'SELECT count(*) FROM #prices', 'SELECT date, type FROM #entries', 'SELECT * FROM (SELECT date, number WHERE number > 0)',
    'SELECT 1 + 1 AS two FROM #', 'PRINT', 'PRINT FROM year = 2020 AND month = 2',
]
ABSENT_NAMES = ['nosuch', 'zz_q']


def ledger_tables():
    """[(table name, [column names])] of a Beancount connection, introspected"""
    import os
    path = _ledger_path()
    try:
        conn = impl.beanquery.connect('beancount:' + path)
        return [(n, sorted(t.columns)) for n, t in sorted(conn.tables.items()) if n and t.columns]
    finally:
        os.unlink(path)


def gen_rejected_statement(rng, tabs):
    """a statement with a FROM clause (named table / subquery / FROM expression with OPEN, CLOSE, CLEAR) that the compiler
    refuses for a reason located AFTER the FROM clause; or a refused PRINT / BALANCES / JOURNAL"""
    name, cols = rng.choice(tabs)
    col = rng.choice(cols)
    bad = rng.choice(ABSENT_NAMES)
    k = rng.randrange(10)
    if k < 4:
        frm, inner = f'#{name}', col
    elif k < 6:
        frm, inner = f'(SELECT {col} AS d FROM #{name})', 'd'
    else:
        frm, inner = rng.choice(REJ_FROM_EXPR), 'date'
    r = rng.randrange(12)
    if r == 0:
        return rng.choice([f'PRINT FROM {bad} = 1', f'BALANCES FROM {rng.choice(REJ_FROM_EXPR)} WHERE {bad} = 1',
                           f'BALANCES AT {bad}', f"JOURNAL 'Cash' AT cost FROM {bad} = 1", f'BALANCES FROM {bad}(date)'])
    return [
        f'SELECT {bad} FROM {frm}',
        f'SELECT {inner}, {bad} FROM {frm}',
        f'SELECT {inner} FROM {frm} WHERE {bad} = 1',
        f'SELECT {inner} FROM {frm} WHERE {bad}({inner})',
        f'SELECT nosuchfn({inner}) FROM {frm}',
        f'SELECT {inner} FROM {frm} ORDER BY 9',
        f'SELECT {inner} FROM {frm} ORDER BY {bad} DESC',
        f'SELECT {inner}, count(*) FROM {frm} GROUP BY {bad}',
        f'SELECT {inner}, count(*) FROM {frm} GROUP BY 5',
        f'SELECT {inner} FROM {frm} WHERE count({inner}) > 1',
        f'SELECT sum(count({inner})) FROM {frm}',
        f'SELECT {inner} FROM {frm} WHERE {inner} IN (SELECT {bad} FROM #{name})',
    ][r]


SUBQ_ALIASES = ['d', 'n', 'acc', 'x', 'y', 'k']
SUBQ_COLS = [('date', 'number'), ('account', 'number'), ('year', 'account'), ('number',), ('account', 'date', 'number')]


def gen_subquery_statement(rng):
    """a FROM-subquery statement whose inner output names are drawn from a small pool, read through `*`, by name, or
    through a name only ANOTHER subquery of the history defines: whatever one statement's subquery table registers must
    not be visible to the next (column namespaces are per statement)"""
    cols = rng.choice(SUBQ_COLS)
    names = rng.sample(SUBQ_ALIASES, len(cols))
    inner = 'SELECT ' + ', '.join(f'{c} AS {a}' if rng.random() < 0.7 else c for c, a in zip(cols, names)) + ' WHERE number > 0'
    r = rng.random()
    if r < 0.5:
        return f'SELECT * FROM ({inner})'
    if r < 0.75:
        return f'SELECT * FROM (SELECT * FROM ({inner}))'
    return f'SELECT {rng.choice(SUBQ_ALIASES)} FROM ({inner})'          # often a name this subquery does not define


def gen_rejected_history(rng, tabs):
    """2-7 steps (how, text): how = 'execute' (Connection.execute), 'cursor' (one cursor object shared by all such steps),
    'shell' (Connection.compile + execute_query / execute_print, the route of the interactive shell)"""
    steps = []
    for _ in range(rng.randint(2, 6)):
        how = rng.choice(['execute', 'execute', 'cursor', 'cursor', 'shell'])
        r = rng.random()
        if r < 0.4:
            steps.append((how, gen_rejected_statement(rng, tabs)))
        elif r < 0.55:
            steps.append((how, gen_subquery_statement(rng)))
        elif r < 0.9:
            steps.append((how, rng.choice(DEFAULT_TABLE_STATEMENTS)))
        else:
            steps.append((how, rng.choice(LEDGER_STATEMENTS)))
    if rng.random() < 0.7:
        steps.append((rng.choice(['execute', 'cursor', 'shell']), rng.choice(DEFAULT_TABLE_STATEMENTS[:15])))
    return steps


def _run_step(conn, cur, how, text, params=None):
    import io
    from beanquery import query_execute
    try:
        if how == 'shell':
            q = conn.compile(conn.parse(text))
            if type(q).__name__ == 'EvalPrint':
                buf = io.StringIO()
                query_execute.execute_print(q, buf)
                return [0, 'printed', buf.getvalue()]
            desc, rows = query_execute.execute_query(q)
            return [0, [d.name for d in desc], [repr(r) for r in rows]]
        c = cur if how == 'cursor' else conn.cursor()
        c.execute(text, LEDGER_PARAMS.get(text) if params is None else params)
        return [0, [d.name for d in c.description], [repr(r) for r in c.fetchall()]]
    except Exception as e:  # noqa: BLE001
        return ['exception', impl.exc_class(e), str(e)[:120]]


def _route(how):
    return 'shell' if how == 'shell' else 'api'


def _fresh_step(key):
    """(route, text) alone on a fresh connection in a FRESH PROCESS"""
    import os
    path = _ledger_path()
    try:
        conn = impl.beanquery.connect('beancount:' + path)
        return _run_step(conn, conn.cursor(), 'shell' if key[0] == 'shell' else 'execute', key[1])
    finally:
        os.unlink(path)


def _rejected_history_got(steps):
    import os
    path = _ledger_path()
    try:
        conn = impl.beanquery.connect('beancount:' + path)
        cur = conn.cursor()
        return [_run_step(conn, cur, how, text) for how, text in steps]
    finally:
        os.unlink(path)


def show_steps(steps):
    return ' ; '.join(f'{how}({text!r})' for how, text in steps)


def rejected_history_stream(tier, rng):
    from . import shrink
    tabs = ledger_tables()
    hs = [gen_rejected_history(rng, tabs) for _ in range(160 if tier == 'quick' else 2500)]
    keys = sorted({(_route(how), text) for h in hs for how, text in h})
    want = dict(zip(keys, fresh_process_map(_fresh_step, keys)))
    violations, seen = [], set()
    hist = {'how': {}, 'refused_steps': 0, 'completed_steps': 0, 'steps_after_a_refusal': 0, 'print_via_shell': 0, 'length': {}}
    for h, got in zip(hs, fresh_process_map(_rejected_history_got, hs)):
        hist['length'][len(h)] = hist['length'].get(len(h), 0) + 1
        refused = False
        for how, text in h:
            w = want[(_route(how), text)]
            hist['how'][how] = hist['how'].get(how, 0) + 1
            hist['steps_after_a_refusal'] += refused
            hist['refused_steps'] += w[0] != 0
            hist['completed_steps'] += w[0] == 0
            hist['print_via_shell'] += w[:2] == [0, 'printed']
            refused = refused or w[0] != 0 or w[:2] == [0, 'printed']
        exp = [want[(_route(how), text)] for how, text in h]
        if got == exp or len(seen) >= 3:
            continue
        k = next(i for i, (g, w) in enumerate(zip(got, exp)) if g != w)
        last = h[k]

        def fails_many(cands):
            outs = fresh_process_map(_rejected_history_got, [cd + [last] for cd in cands])
            return [o[-1] != exp[k] for o in outs]
        pre = shrink.ddmin_batch(h[:k], fails_many) if k >= 2 else h[:k]
        steps = pre + [last]
        got2 = fresh_process_map(_rejected_history_got, [steps])[0]
        sig = 'rejected-history:' + show_steps(steps)
        if sig in seen:
            continue
        seen.add(sig)
        violations.append(core.Violation(
            'rejected-history', f'on one connection, after {show_steps(pre)} the step {show_steps([last])} gives {got2[-1]} but alone on a '
            f'fresh connection it gives {exp[k]}',
            {'kind': 'rejected-history', 'ledger': LEDGER_SRC, 'steps': [list(x) for x in steps], 'got': got2,
             'fresh': [want[(_route(how), text)] for how, text in steps]}, signature=sig))
    for key in keys:
        if want[key][0] != 0:
            hist.setdefault('refusal_kinds_of_distinct_statements', {}).setdefault(want[key][1], 0)
            hist['refusal_kinds_of_distinct_statements'][want[key][1]] += 1
    cov = {'rejected_statement_histories': len(hs), 'rejected_history_distinct_statements': len(keys),
           'rejected_history_histograms': hist, 'rejected_history_samples': [show_steps(h) for h in hs[:2]]}
    return violations, cov


# ---- (c4) connections over a LIST of directives the caller assembled (fix-F): beanquery.connect('beancount:', entries=...,
# errors=[], options=...).  A list loaded from a file is in Beancount's canonical (date, directive type, line) order; a list
# a caller merged, generated or re-ordered need not be (dates stay non-decreasing here, the directives of one day are
# permuted).  "A result depends only on the statement, its parameters and the data ... executing never mutates the source
# data": statements with the FROM qualifiers OPEN ON / CLOSE [ON] / CLEAR (SELECT, BALANCES, JOURNAL, PRINT) are interleaved
# with plain statements whose result shows the order of the table (no ORDER BY, ties in ORDER BY, running balance, first /
# last, LIMIT, PRINT).  Oracles: (1) every step = the same step alone on a fresh connection, in a fresh process, over the same
# ORIGINAL list; (2) the caller's list holds the same objects in the same order after every step, and the value-based
# fingerprint of the connection's tables (table_fingerprint) plus of the caller's list is unchanged by the history; (3) the
# un-ordered posting register of a fresh connection is the fold of the caller's list, in list order.
ENTRYLIST_REGISTER = 'SELECT date, narration, account, number'
ENTRYLIST_PLAIN = [
    ENTRYLIST_REGISTER,
    'SELECT narration, number, balance WHERE account = %(account)s',
    'SELECT date, narration, balance',
    'SELECT first(narration) AS f, last(narration) AS l, first(number) AS n, last(number) AS m',
    'SELECT account, first(narration) AS f, last(narration) AS l GROUP BY account ORDER BY account',
    'SELECT date, first(narration) AS f, last(narration) AS l GROUP BY date ORDER BY date',
    'SELECT narration ORDER BY date',
    'SELECT narration, number ORDER BY date DESC, account',
    'SELECT narration, number LIMIT 5',
    'SELECT DISTINCT narration',
    'SELECT narration, number WHERE account ~ %s AND number > %s',
    "JOURNAL 'Checking'", 'JOURNAL', "JOURNAL 'Checking' AT units",
    'SELECT date, type, lineno FROM #entries',
    "SELECT date, narration FROM #entries WHERE type = 'transaction'",
    'SELECT * FROM (SELECT date, narration, number WHERE number > 0)',
    'PRINT', 'PRINT FROM year = 2020 AND month = 1',
]
ENTRYLIST_QUALIFIED = [
    'SELECT account, sum(position) FROM OPEN ON {a} GROUP BY account ORDER BY account',
    'SELECT date, narration, number, balance FROM OPEN ON {a} CLOSE ON {b}',
    'SELECT date, narration FROM CLOSE ON {b} WHERE number > 0',
    'SELECT account, sum(number) FROM CLOSE GROUP BY account ORDER BY account',
    'SELECT account, sum(position) FROM CLEAR GROUP BY account ORDER BY account',
    'SELECT count(*) FROM year = 2020 OPEN ON {a} CLOSE ON {b} CLEAR',
    'SELECT account, sum(number) AS total FROM OPEN ON {a} CLOSE ON {b} WHERE account ~ %s GROUP BY account',
    'SELECT account WHERE account IN (SELECT account FROM CLOSE ON {b})',
    'BALANCES FROM OPEN ON {a}', 'BALANCES AT cost FROM CLOSE ON {b} CLEAR', 'BALANCES FROM CLOSE', 'BALANCES FROM CLEAR',
    "JOURNAL 'Checking' FROM OPEN ON {a} CLOSE ON {b}", 'JOURNAL FROM CLEAR', "JOURNAL 'Checking' AT units FROM CLOSE",
    'PRINT FROM OPEN ON {a}', 'PRINT FROM CLOSE ON {b}', 'PRINT FROM CLEAR', 'PRINT FROM year = 2020 CLOSE',
]
ENTRYLIST_PARAMS = {
    'SELECT narration, number, balance WHERE account = %(account)s': {'account': 'Assets:Checking'},
    'SELECT narration, number WHERE account ~ %s AND number > %s': ['Checking', 0],
}
ENTRYLIST_PERMS = ['swap-two-transactions-of-a-day', 'shuffle-each-day', 'reverse-each-day', 'transactions-first-each-day', 'canonical']
_QUALIFIED_RE = re.compile(r'\b(OPEN ON|CLOSE|CLEAR)\b')


def entrylist_params(text):
    if text in ENTRYLIST_PARAMS:
        return ENTRYLIST_PARAMS[text]
    return ['Checking'] if '%s' in text else None


def gen_entrylist_ledger(rng):
    """ledger text: 5-9 days, 1-4 transactions per day on one shared account (the running balance and first / last show
    their order), other directives (price, note, event, a purchase at cost) on the same days"""
    day0 = datetime.date(2020, 1, 1)
    lines = ['option "operating_currency" "USD"']
    for a in ('Assets:Checking', 'Assets:Cash', 'Assets:Stock', 'Income:Salary', 'Expenses:Rent', 'Expenses:Food', 'Equity:Opening'):
        lines.append(f'{day0} open {a}')
    date = day0
    n = 0
    for _ in range(rng.randint(5, 9)):
        date = date + datetime.timedelta(days=rng.choice([1, 3, 14, 31]))
        block = []
        for _ in range(rng.choice([1, 2, 2, 3, 3, 4])):
            n += 1
            amt = D(rng.randint(1, 40000)) / 100
            other = rng.choice(['Income:Salary', 'Expenses:Rent', 'Expenses:Food', 'Assets:Cash'])
            sign = -1 if other.startswith('Expenses') else rng.choice([1, -1])
            flag = rng.choice(['*', '*', '!'])
            payee = rng.choice(['', '"Shop" ', '"Employer" '])
            block.append(f'{date} {flag} {payee}"T{n}"\n  Assets:Checking  {sign * amt} USD\n  {other}  {-sign * amt} USD')
        r = rng.random()
        if r < 0.3:
            block.append(f'{date} price ABC {D(rng.randint(900, 1500)) / 100} USD')
        elif r < 0.45:
            block.append(f'{date} note Assets:Checking "statement {n}"')
        elif r < 0.55:
            block.append(f'{date} event "location" "city {n}"')
        elif r < 0.75:
            n += 1
            k = rng.randint(1, 5)
            block.append(f'{date} * "T{n}"\n  Assets:Stock  {k} ABC {{10.00 USD}}\n  Assets:Checking  {-10 * k}.00 USD')
        rng.shuffle(block)
        lines += block
    return '\n'.join(lines) + '\n'


def entrylist_perm(rng, entries, kind):
    """index permutation of the loaded (canonical) list that keeps the dates non-decreasing"""
    from beancount.core import data as bdata
    groups = []
    for i, e in enumerate(entries):
        if groups and entries[groups[-1][0]].date == e.date:
            groups[-1].append(i)
        else:
            groups.append([i])
    if kind == 'swap-two-transactions-of-a-day':
        cands = [[i for i in g if isinstance(entries[i], bdata.Transaction)] for g in groups]
        cands = [c for c in cands if len(c) >= 2]
        if cands:
            c = rng.choice(cands)
            x, y = rng.sample(c, 2)
            perm = list(range(len(entries)))
            perm[x], perm[y] = perm[y], perm[x]
            return perm
        kind = 'reverse-each-day'
    out = []
    for g in groups:
        g = list(g)
        if kind == 'shuffle-each-day':
            rng.shuffle(g)
        elif kind == 'reverse-each-day':
            g.reverse()
        elif kind == 'transactions-first-each-day':
            g.sort(key=lambda i: (not isinstance(entries[i], bdata.Transaction), -i))
        out += g
    return out


def gen_entrylist_history(rng, dates):
    """3-7 steps [how, statement text]; at least one qualified statement followed by a plain one"""
    def qualified():
        a, b = sorted(rng.sample(dates, 2))
        return rng.choice(ENTRYLIST_QUALIFIED).format(a=a, b=b)

    def how_for(text):
        if text.startswith('PRINT'):
            return rng.choice(['shell', 'shell', 'execute'])          # a cursor refuses PRINT: the refusal is compared too
        if '%' in text:
            return rng.choice(['execute', 'cursor', 'parsed', 'many'])
        return rng.choice(['execute', 'execute', 'cursor', 'cursor', 'shell', 'parsed', 'many'])
    texts = []
    if rng.random() < 0.5:
        texts.append(rng.choice(ENTRYLIST_PLAIN))
    texts.append(qualified())
    for _ in range(rng.randint(1, 4)):
        texts.append(qualified() if rng.random() < 0.35 else rng.choice(ENTRYLIST_PLAIN))
    if _QUALIFIED_RE.search(texts[-1]):
        texts.append(rng.choice(ENTRYLIST_PLAIN[:11]))
    if rng.random() < 0.3:
        texts.append(texts[0])
    return [[how_for(t), t] for t in texts]


def _entrylist_open(text, perm):
    """-> (connection over the caller's list, the caller's list object, a private copy of the list as it was handed over)"""
    from beancount import loader
    entries, errors, options = loader.load_string(text)
    original = [entries[i] for i in perm]
    caller = list(original)
    conn = impl.beanquery.connect('beancount:', entries=caller, errors=[], options=options)
    return conn, caller, original


def _entrylist_step(conn, cur, parsed, how, text):
    params = entrylist_params(text)
    if how in ('execute', 'cursor', 'shell'):
        return _run_step(conn, cur, how, text, params)
    try:
        c = conn.cursor()
        if how == 'parsed':          # the statement is parsed once per connection and the parsed statement re-executed
            if text not in parsed:
                parsed[text] = conn.parse(text)
            c.execute(parsed[text], params)
        else:                        # executemany with the same parameter set twice: the cursor holds the last execution
            c.executemany(text, [params, params])
        return [0, [d.name for d in c.description], [repr(r) for r in c.fetchall()]]
    except Exception as e:  # noqa: BLE001
        return ['exception', impl.exc_class(e), str(e)[:120]]


def _entrylist_fingerprint(conn, caller):
    fp = table_fingerprint(conn)
    fp['(caller)'] = {'list handed to connect()': _freeze(caller)}
    return fp


def _entrylist_got(case):
    """the history on ONE connection -> (step results, index of the first step after which the caller's list no longer holds
    the same objects in the same order | None, fingerprint differences before/after)"""
    conn, caller, original = _entrylist_open(case['ledger'], case['perm'])
    before = _entrylist_fingerprint(conn, caller)
    cur, parsed, outs, moved = conn.cursor(), {}, [], None
    for k, (how, text) in enumerate(case['steps']):
        outs.append(_entrylist_step(conn, cur, parsed, how, text))
        if moved is None and not (len(caller) == len(original) and all(a is b for a, b in zip(caller, original))):
            moved = k
    return outs, moved, fingerprint_diff(before, _entrylist_fingerprint(conn, caller))


def _entrylist_fresh(key):
    """(ledger text, perm, route, statement) alone on a fresh connection over the same original list, in a FRESH PROCESS ->
    (result, None | description of how the un-ordered register differs from the fold of the list)"""
    from beancount.core import data as bdata
    text, perm, route, stmt = key
    conn, caller, original = _entrylist_open(text, list(perm))
    fold_bad = None
    if stmt == ENTRYLIST_REGISTER:
        want = [(e.date, e.narration, p.account, p.units.number) for e in original if isinstance(e, bdata.Transaction) for p in e.postings]
        got = [tuple(r) for r in conn.execute(stmt).fetchall()]
        if got != want:
            k = next((i for i, (x, y) in enumerate(zip(got, want)) if x != y), min(len(got), len(want)))
            fold_bad = f'row {k}: {got[k] if k < len(got) else None!r} but the list handed to connect() says {want[k] if k < len(want) else None!r}'
        conn, caller, original = _entrylist_open(text, list(perm))
    return _entrylist_step(conn, conn.cursor(), {}, 'shell' if route == 'shell' else 'execute', stmt), fold_bad


def entrylist_check(case, ignore_mutation=False):
    """-> None when the property holds on this case, else (kind, step index, message, got, fresh); ignore_mutation: look at
    the step results only (used to report the CONSEQUENCE of a mutation already reported: a later statement changes)"""
    key = lambda how, t: (case['ledger'], tuple(case['perm']), _route(how), t)
    keys = sorted({key(how, t) for how, t in case['steps']})
    want = dict(zip(keys, fresh_process_map(_entrylist_fresh, keys)))
    got, moved, diff = fresh_process_map(_entrylist_got, [case])[0]
    exp = [want[key(how, t)][0] for how, t in case['steps']]
    if (moved is not None or diff) and not ignore_mutation:
        return ('entry-list-mutated', moved if moved is not None else len(got) - 1,
                f'the list handed to connect() was re-ordered in place by step {moved}' if moved is not None else f'fingerprint: {diff[:4]}', got, exp)
    if got != exp:
        k = next(i for i, (g, w) in enumerate(zip(got, exp)) if g != w)
        return ('entry-list-history', k, f'step {k} gives {str(got[k])[:300]} but alone on a fresh connection over the same list {str(exp[k])[:300]}', got, exp)
    for k, (how, t) in enumerate(case['steps']):
        if want[key(how, t)][1]:
            return ('entry-list-order', k, want[key(how, t)][1], got, exp)
    return None


def entrylist_stream(tier, rng):
    from . import shrink
    from beancount import loader
    from beancount.core import data as bdata
    quick = tier == 'quick'
    n_ledgers, per_ledger = (4, 14) if quick else (30, 30)
    cases = []
    hist = {'permutation': {}, 'lists_not_in_canonical_order': 0, 'how': {}, 'qualified_steps': 0, 'plain_steps': 0,
            'plain_steps_after_a_qualified_step': 0, 'statement_kind': {}, 'length': {}, 'register_vs_fold_checked': 0,
            'directive_types_permuted': {}}
    for _ in range(n_ledgers):
        text = gen_entrylist_ledger(rng)
        entries, errors, _ = loader.load_string(text)
        if errors:
            raise RuntimeError(f'entry-list ledger does not load: {errors[:2]}')
        dates = sorted({e.date for e in entries if isinstance(e, bdata.Transaction)})
        perms = {}
        for _ in range(per_ledger):
            kind = rng.choice(ENTRYLIST_PERMS[:4]) if rng.random() < 0.9 else 'canonical'
            if kind not in perms or rng.random() < 0.3:
                perms[kind] = entrylist_perm(rng, entries, kind)
            perm = perms[kind]
            cases.append({'ledger': text, 'perm': perm, 'perm_kind': kind, 'steps': gen_entrylist_history(rng, dates)})
            hist['permutation'][kind] = hist['permutation'].get(kind, 0) + 1
            srt = sorted(range(len(entries)), key=lambda i: bdata.entry_sortkey(entries[perm[i]]))
            hist['lists_not_in_canonical_order'] += srt != list(range(len(entries)))
            for i, j in enumerate(perm):
                if i != j:
                    tn = type(entries[j]).__name__
                    hist['directive_types_permuted'][tn] = hist['directive_types_permuted'].get(tn, 0) + 1
    keyf = lambda c, how, t: (c['ledger'], tuple(c['perm']), _route(how), t)
    violations_pre = []
    keys = sorted({keyf(c, how, t) for c in cases for how, t in c['steps']}
                  | {keyf(c, 'execute', ENTRYLIST_REGISTER) for c in cases})          # oracle (3) once per distinct list
    want = dict(zip(keys, fresh_process_map(_entrylist_fresh, keys)))
    for key_ in keys:
        if key_[3] == ENTRYLIST_REGISTER and want[key_][1] and not any(v.kind == 'entry-list-order' for v in violations_pre):
            violations_pre.append(core.Violation(
                'entry-list-order', f'fresh connection over a list of directives handed to connect(): {ENTRYLIST_REGISTER}: {want[key_][1]}',
                {'kind': 'entry-list', 'problem': 'entry-list-order', 'ledger': key_[0], 'perm': list(key_[1]),
                 'steps': [['execute', ENTRYLIST_REGISTER]]}, signature='entry-list-order:' + ENTRYLIST_REGISTER))
    hist['register_vs_fold_checked'] = sum(1 for k in keys if k[3] == ENTRYLIST_REGISTER)
    gots = fresh_process_map(_entrylist_got, cases)
    violations, seen = violations_pre, set()
    for c, (got, moved, diff) in zip(cases, gots):
        hist['length'][len(c['steps'])] = hist['length'].get(len(c['steps']), 0) + 1
        qual = False
        for how, t in c['steps']:
            hist['how'][how] = hist['how'].get(how, 0) + 1
            isq = bool(_QUALIFIED_RE.search(t))
            hist['qualified_steps'] += isq
            hist['plain_steps'] += not isq
            hist['plain_steps_after_a_qualified_step'] += (not isq) and qual
            qual = qual or isq
            sk = t.split()[0].upper()
            hist['statement_kind'][sk] = hist['statement_kind'].get(sk, 0) + 1
        exp = [want[keyf(c, how, t)][0] for how, t in c['steps']]
        if got == exp and moved is None and not diff:
            continue              # (a register that is not the fold of the list was reported above, once)
        if len(seen) >= 3:
            continue
        # shrink the history: the steps before the offending one, as long as the same kind of failure remains
        # one report of the mutation itself; further failing histories are reported by their changed results
        ign = any(v.kind == 'data-mutated' for v in violations) and got != exp
        first = entrylist_check(c, ign)
        if first is None:
            continue
        kind, k = first[0], first[1]
        steps = [list(s) for s in c['steps'][:k + 1]]
        if k >= 1 and kind != 'entry-list-order':
            def fails_many(cands, last=steps[-1], kind=kind, ign=ign):
                res = [entrylist_check(dict(c, steps=cd + [last]), ign) for cd in cands]
                return [r is not None and r[0] == kind and r[1] == len(cd) for r, cd in zip(res, cands)]
            steps = ([] if fails_many([[]])[0] else shrink.ddmin_batch(steps[:-1], fails_many)) + [steps[-1]]
        elif kind == 'entry-list-order':
            steps = [steps[-1]]
        small = dict(c, steps=steps)
        res = entrylist_check(small, ign) or first
        sig = f'{res[0]}:{c["perm_kind"]}:' + show_steps([tuple(s) for s in steps])
        if sig in seen:
            continue
        seen.add(sig)
        order = [f'{e.date} {type(e).__name__} {getattr(e, "narration", "")}'.strip() for e in (loader.load_string(c['ledger'])[0][i] for i in c['perm'])]
        violations.append(core.Violation(
            'data-mutated' if res[0] == 'entry-list-mutated' else res[0],
            f'connection over a list of directives handed to connect() ({c["perm_kind"]}; dates non-decreasing), history '
            f'{show_steps([tuple(s) for s in steps])}: {res[2]}',
            {'kind': 'entry-list', 'problem': res[0], 'ledger': c['ledger'], 'perm': list(c['perm']), 'perm_kind': c['perm_kind'],
             'list_order': order, 'steps': steps, 'got': res[3], 'fresh': res[4]}, signature=sig))
    cov = {'entry_list_histories': len(cases), 'entry_list_ledgers': n_ledgers, 'entry_list_distinct_fresh_executions': len(keys),
           'entry_list_histograms': hist, 'entry_list_samples': [c['perm_kind'] + ': ' + show_steps([tuple(s) for s in c['steps']]) for c in cases[:2]]}
    return violations, cov


# ---- (fix-I) shapes of the parameter MAPPING: "%(name)s" binds parameters['name'], whatever else the mapping holds
PNAMES = ['rate', 'lo', 'hi', 'x', 'acct', 'since', 'k_1', 'n', 'pattern', 'i']


def _lookalikes(name):
    return [v for v in dict.fromkeys([name.upper(), name.capitalize(), name.title(), name[:-1] + name[-1].upper(), name.swapcase()])
            if v != name]


def _decoy(rng, v):
    """a value other than v: of the same type where the pool has one, else of another type"""
    if isinstance(v, list):
        return [_decoy(rng, x) for x in v] + ([] if rng.random() < 0.5 else [v[0]])
    pool = [x for x in values.POOLS[type(v)] if x != v and not (isinstance(x, D) and x.is_zero() and x.is_signed())]
    if rng.random() < 0.15 or not pool:
        return rng.choice([None, 'zz', 12345, D('99.5')])
    return rng.choice(pool)


def gen_mapping_case(rng):
    """A statement with named placeholders (as gen_param_case draws it; names spelled with letters) executed with a mapping that
    holds, besides the used keys, keys equal to a used name up to letter case bound to OTHER values (listed before and/or after
    the exact key), surplus keys, keys that are not str. Oracle: the literal form and the model, as for every parameter case."""
    while True:
        c = gen_param_case(rng, rng.choice([ParamGen, ParamGen, ListParamGen]))
        if isinstance(c['params'], dict) and c['nph'] >= 1:
            break
    used = [k for k in c['params'] if k != 'unused']
    base = rng.sample(PNAMES, len(used)) if len(used) <= len(PNAMES) else [f'q{i}' for i in range(len(used))]
    ren = {k: b + (k[1:] if rng.random() < 0.3 else '') for k, b in zip(used, base)}
    ptext = re.sub(r'%\((p\d+)\)s', lambda m: f'%({ren[m.group(1)]})s', c['ptext'])
    items, shape = [], set()
    for k in used:
        name, v = ren[k], c['params'][k]
        looks = _lookalikes(name)
        before, after = [], []
        mode = rng.choice(['after', 'after', 'before', 'both', 'none', 'two-after'])
        if mode in ('before', 'both'):
            before = [rng.choice(looks)]
        if mode in ('after', 'both'):
            after = [rng.choice([x for x in looks if x not in before] or looks)]
        if mode == 'two-after':
            after = rng.sample(looks, min(2, len(looks)))
        shape.add('lookalike-' + mode)
        items += [(x, _decoy(rng, v)) for x in before] + [(name, v)] + [(x, _decoy(rng, v)) for x in after]
    extras = []
    if rng.random() < 0.5:
        extras += [(rng.choice(['unused', 'zz', 'p', 'RATE9', '']), rng.choice([1, 'u', None]))]
        shape.add('surplus-key')
    if rng.random() < 0.4:
        extras += [(rng.choice([0, 7, None, 3]), rng.choice([5, 'w']))]
        shape.add('non-str-key')
    for e in extras:
        items.insert(rng.randint(0, len(items)), e)
    params = {}
    for k, v in items:
        params.setdefault(k, v)
    d = dict(c, ptext=ptext, params=params)
    d['mapping_shape'] = sorted(shape)
    return d


def mapping_shape_stream(tier, rng):
    cases = [gen_mapping_case(rng) for _ in range(300 if tier == 'quick' else 5000)]
    outs = core.pmap(run_param_impl, cases)
    mc = [c for c in cases if not c['wrap']]
    ms = dict(zip([id(c) for c in mc], core.coq_eval('c09m', IMPORTS, [param_model_expr(c) for c in mc], shard=200)))
    hist = {'statements_that_ran': 0, 'keys_in_mapping': {}, 'used_names': {}}
    violations = []
    for c, (wp, wl) in zip(cases, outs):
        for sh in c['mapping_shape']:
            hist[sh] = hist.get(sh, 0) + 1
        hist['statements_that_ran'] += wp[0] == 0
        hist['keys_in_mapping'][len(c['params'])] = hist['keys_in_mapping'].get(len(c['params']), 0) + 1
        nu = len(set(re.findall(r'%\((\w+)\)s', c['ptext'])))
        hist['used_names'][nu] = hist['used_names'].get(nu, 0) + 1
        m = ms.get(id(c))
        bad = None
        if wp != wl:
            bad = f'with parameters {wp} but with the values written as literals ({c["ltext"]}) {wl}'
        elif m is not None and wp != m:
            bad = f'implementation {wp} but model with the values as constants {m}'
        if bad and len(violations) < 3:
            small = shrink_mapping_case(c) if wp != wl else c
            wp, wl = run_param_impl(small)
            if small is not c:
                bad = f'with parameters {wp} but with the values written as literals ({small["ltext"]}) {wl}'
            sig = 'mapping:' + small['ptext'] + ' ' + repr(small['params']) + ' rows=' + repr(small['rows'])
            violations.append(core.Violation('params-as-literals', f'{small["ptext"]} {small["params"]!r} over {small["rows"]}: {bad}',
                                             param_record(small), signature=sig))
    return violations, {'mapping_shape_cases': len(cases), 'mapping_shape_histogram': hist}


def shrink_mapping_case(c):
    """drop keys of the mapping the statement does not name, then rows, while parameters and literals still disagree"""
    def fails(x):
        a, b = run_param_impl(x)
        return a != b
    used = set(re.findall(r'%\((\w+)\)s', c['ptext']))
    for k in [k for k in c['params'] if k not in used]:
        x = dict(c, params={kk: v for kk, v in c['params'].items() if kk != k})
        if fails(x):
            c = x
    for i in reversed(range(len(c['rows']))):
        x = dict(c, rows=c['rows'][:i] + c['rows'][i + 1:])
        if len(x['rows']) >= 1 and fails(x):
            c = x
    return c


def run(tier, rng):
    violations = []
    n_p = 700 if tier == 'quick' else 15000
    n_f = 500 if tier == 'quick' else 10000
    n_h = 400 if tier == 'quick' else 8000
    pc = [gen_param_case(rng) for _ in range(n_p)]
    fc = [gen_fold_case(rng) for _ in range(n_f)]
    hs = [gen_history(rng, rng.randint(2, 8)) for _ in range(n_h)]
    hs = [[('parse', 'SELECT %s, %s FROM #t WHERE a >= %s', [(7, ''), (11, ''), (33, '')]),
           ('exec_ast', 0, [1, 2, 0]), ('exec_ast', 0, [3, 4, 2])],
          [('exec_many', 'SELECT %s, %s FROM #t', [(7, ''), (11, '')], [[1, 2], [3, 4]])]] + hs
    p_impl = core.pmap(run_param_impl, pc)
    f_impl = core.pmap(run_fold_impl, fc)
    h_impl = core.pmap(run_history_impl, hs)
    nmodel_p = [c for c in pc if not c['wrap']]
    models = core.coq_eval('c09', IMPORTS, [param_model_expr(c) for c in nmodel_p] + [fold_model_expr(c) for c in fc]
                           + [history_model_expr(h) for h in hs], shard=200)
    pm = dict(zip([id(c) for c in nmodel_p], models[:len(nmodel_p)]))
    fm = models[len(nmodel_p):len(nmodel_p) + len(fc)]
    hm = models[len(nmodel_p) + len(fc):]
    seen = set()
    bc = binding_order_cases(rng, 120 if tier == 'quick' else 1500)
    for c, (wp, wl) in zip(bc, core.pmap(run_binding_impl, bc)):
        if wp != wl and len(seen) < 2:
            sig = 'binding-order:' + c['ptext'] + ' ' + repr(c['params'])
            seen.add(sig)
            violations.append(core.Violation('binding-order', f'{c["ptext"]} {c["params"]}: with parameters {wp}, with the values written '
                                             f'as literals ({c["ltext"]}) {wl}', {'kind': 'binding', 'case': c}, signature=sig))
    sc = [same_cursor_history(rng) for _ in range(150 if tier == 'quick' else 2000)]
    for h, (got, want) in zip(sc, core.pmap(run_same_cursor, sc)):
        if got != want and len(seen) < 4:
            sig = 'same-cursor:' + repr(h['steps'])
            seen.add(sig)
            violations.append(core.Violation('same-cursor-history', f'one cursor re-used for {h["steps"]} on {h["texts"]}: {got} but a fresh '
                                             f'connection gives {want}', {'kind': 'same-cursor', 'history': h, 'got': got, 'want': want},
                                             signature=sig))
    lh = [gen_ledger_history(rng) for _ in range(60 if tier == 'quick' else 600)]
    nst = N_PLAIN_LEDGER_STATEMENTS
    lkh = [gen_lookup_history(rng) for _ in range(40 if tier == 'quick' else 400)]
    lh = [[2, 1], [4, 3], [10, 9], [6, 5], [0, 2, 0], [nst - 3, nst - 4], [nst - 4, nst - 3, nst - 4], [nst - 1, nst - 2], [nst - 2, nst - 1]] + lh + lkh
    want_table = dict(zip(range(len(LEDGER_STATEMENTS)), fresh_process_map(_fresh_stmt, range(len(LEDGER_STATEMENTS)))))
    for h, got in zip(lh, fresh_process_map(_history_got, lh)):
        want = [want_table[i] for i in h]
        if got != want and len(seen) < 6:
            k = next(i for i, (g, w) in enumerate(zip(got, want)) if g != w)
            sig = 'ledger-history:' + ' ; '.join(LEDGER_STATEMENTS[i] for i in h[:k + 1])
            seen.add(sig)
            violations.append(core.Violation('ledger-history', f'on one connection, after {[LEDGER_STATEMENTS[i] for i in h[:k]]} the statement '
                                             f'{LEDGER_STATEMENTS[h[k]]!r} returns {got[k]} but a fresh connection returns {want[k]}',
                                             {'kind': 'ledger-history', 'statements': [LEDGER_STATEMENTS[i] for i in h], 'got': got, 'want': want},
                                             signature=sig))
    scases = scan_lookup_cases()
    for case, (scan, got, want) in zip(scases, fresh_process_map(run_scan_lookup, scases)):
        if got != want:
            violations.append(core.Violation('scan-lookup', f'{scan} returns {got}, but key by key (SELECT ... FROM # with the key as parameter) '
                                             f'the rows are {want}', {'kind': 'scan-lookup', 'case': list(case), 'got': got, 'want': want},
                                             signature='scan-lookup:' + scan))
    nlp, lpbad = ledger_param_statements()
    for ptext, params, a, b in lpbad[:2]:
        violations.append(core.Violation('params-as-literals', f'{ptext} {params!r}: with parameters {a}, with literals {b}',
                                         {'kind': 'ledger-param', 'ptext': ptext, 'params': params, 'with_params': a, 'with_literals': b},
                                         signature='ledger-params:' + ptext))
    # list-valued parameters (IN / NOT IN %s): literal form and model; generated after every other stream has drawn from rng
    lc = [gen_list_param_case(rng) for _ in range(250 if tier == 'quick' else 4000)]
    l_impl = core.pmap(run_param_impl, lc)
    l_model_cases = [c for c in lc if not c['wrap']]
    lm = dict(zip([id(c) for c in l_model_cases],
                  core.coq_eval('c09l', IMPORTS, [param_model_expr(c) for c in l_model_cases], shard=200)))
    list_hist = {'named': 0, 'positional': 0, 'IN': 0, 'NOT IN': 0, 'in_subquery': 0, 'list_length': {}, 'element_type': {},
                 'statements_that_ran': 0}
    nlist = 0
    for c, (wp, wl) in zip(lc, l_impl):
        list_hist['named' if isinstance(c['params'], dict) else 'positional'] += 1
        list_hist['NOT IN'] += ' NOT IN %' in c['ptext']
        list_hist['IN'] += bool(re.search(r'(?<!NOT) IN %', c['ptext']))
        list_hist['in_subquery'] += c['wrap']
        list_hist['statements_that_ran'] += wp[0] == 0
        for v in param_values(c):
            if isinstance(v, list):
                list_hist['list_length'][len(v)] = list_hist['list_length'].get(len(v), 0) + 1
                tn = type(v[0]).__name__
                list_hist['element_type'][tn] = list_hist['element_type'].get(tn, 0) + 1
        m = lm.get(id(c))
        bad = None
        if wp != wl:
            bad = f'with parameters {wp} but with the values written as literals ({c["ltext"]}) {wl}'
        elif m is not None and wp != m:
            bad = f'implementation {wp} but model with the values as constants {m}'
        if bad and nlist < 3:
            nlist += 1
            sig = 'list-params:' + c['ptext'] + ' ' + repr(c['params']) + ' rows=' + repr(c['rows'])
            violations.append(core.Violation('params-as-literals', f'{c["ptext"]} {c["params"]!r} over {c["rows"]}: {bad}',
                                             param_record(c), signature=sig))
    rviol, rcov = rejected_history_stream(tier, rng)
    violations.extend(rviol)
    eviol, ecov = entrylist_stream(tier, rng)        # (fix-F) drawn last: the streams above see the random numbers they saw before
    violations.extend(eviol)
    mviol, mcov = mapping_shape_stream(tier, rng)    # (fix-I) drawn after every other stream
    violations.extend(mviol)
    nph_hist, folded_n, hist_ops = {}, 0, {}
    for c, (wp, wl) in zip(pc, p_impl):
        nph_hist[c['nph']] = nph_hist.get(c['nph'], 0) + 1
        m = pm.get(id(c))
        bad = None
        if wp != wl:
            bad = f'with parameters {wp} but with the values written as literals {wl}'
        elif m is not None and wp != m:
            bad = f'implementation {wp} but model with the values as constants {m}'
        if bad and len(seen) < 3:
            sig = 'params:' + c['ptext'] + ' ' + repr(c['params']) + ' rows=' + repr(c['rows'])
            seen.add(sig)
            violations.append(core.Violation('params-as-literals', f'{c["ptext"]} {c["params"]!r} over {c["rows"]}: {bad}',
                                             {'kind': 'param', 'case': {k: v for k, v in c.items()}}, signature=sig))
    for c, ((a, b, b2), folded), m in zip(fc, f_impl, fm):
        folded_n += bool(folded)
        if not (a == b == b2 == m) and len(seen) < 6:
            sig = 'fold:' + c['littext']
            seen.add(sig)
            violations.append(core.Violation(
                'constant-folding', f'SELECT {c["littext"]}: per-row from columns {a}, folded {b} / {b2}, model {m}',
                {'kind': 'fold', 'case': c, 'from_columns': a, 'folded': b, 'folded_no_table': b2, 'model': m}, signature=sig))
    mutated = 0
    for h, (res, exp, unchanged), m in zip(hs, h_impl, hm):
        for o in h:
            hist_ops[o[0]] = hist_ops.get(o[0], 0) + 1
        bad = None
        if res != exp:
            bad = f'outcomes {res} differ from fresh-connection outcomes {exp}'
        elif kinds(res) != [[x[0] for x in step] for step in m]:
            bad = f'outcome kinds {kinds(res)} differ from the parameter model {m}'
        elif any(x[0] == 0 and [v for v in x[1][0][:len(mm[1])]] != mm[1] for step, ms in zip(res, m)
                 for x, mm in zip(step, ms) if x[0] == 0 and mm[0] == 0 and x[1] and False):
            bad = 'bound values differ'
        if not unchanged:
            bad = 'table rows were mutated by executing'
            mutated += 1
        if bad and len(seen) < 9:
            sig = 'history:' + show_history(h)
            if sig not in seen:
                seen.add(sig)
                violations.append(core.Violation('history', f'{show_history(h)}: {bad}',
                                                 {'kind': 'history', 'history': h, 'impl': res, 'fresh': exp, 'model': m},
                                                 signature=sig))
    same, bad, nwork = ledger_immutable()
    if not same:
        violations.append(core.Violation('data-mutated', 'ledger entries / the data containers of the connection\'s tables differ after '
                                         f'executing the workload: {IMMUTABLE_DIFF[:4] or "entries"}',
                                         {'kind': 'ledger', 'diff': list(IMMUTABLE_DIFF)}, signature='ledger-mutated'))
    distinct = len({c['ptext'] + repr(c['params']) for c in pc}) + len({c['littext'] for c in fc}) + len({show_history(h) for h in hs})
    nontrivial = len({c['ptext'] + repr(c['params']) for c in pc if c['nph'] >= 2}) + \
        len({show_history(h) for h in hs if sum(o[0] in ('exec_ast', 'exec_many') for o in h) >= 2})
    cov = {
        'evaluations': len(pc) + len(fc) + len(hs) + nwork + len(bc) + len(sc) + len(lh) + len(scases) + len(lc) + rcov['rejected_statement_histories'] + ecov['entry_list_histories'] + mcov['mapping_shape_cases'],
        **ecov, **mcov, 'list_parameter_cases': len(lc), 'list_parameter_histogram': list_hist, 'ledger_param_statements': nlp, **rcov,
        'binding_order_cases': len(bc), 'same_cursor_histories': len(sc), 'ledger_histories': len(lh),
        'ledger_lookup_histories': len(lkh), 'ledger_lookup_statements': len(LOOKUP_STATEMENTS), 'ledger_reader_statements': len(READER_STATEMENTS),
        'ledger_history_lookup_then_reader_pairs': sum(1 for h in lh for x, y in zip(h, h[1:]) if nst <= x < nst + len(LOOKUP_STATEMENTS) <= y),
        'scan_lookup_statements': len(scases), 'immutability_workload_statements': nwork,
        'immutability_fingerprint': 'every instance attribute (deep, order-preserving) and the iterated rows of every table object of the connection', 'distinct_nontrivial': nontrivial,
        'rule': '(a) random statements whose constants are replaced by %s / %(name)s placeholders (targets, WHERE, ORDER BY '
                'expressions, wrapped in a subquery; repeated names) compared with the literal form and the model; (b) random constant '
                'expressions evaluated folded vs per row from a one-row table of constant columns vs model; (c) random histories of '
                'parse / execute(parsed) / execute(text) / executemany with valid and invalid parameter sets vs a fresh connection per '
                'execution and vs Model/Params.v; (a2) statements with a list-valued parameter as the right operand of IN / NOT IN '
                '(positional and named, lists of 1-4 int / decimal / str / date elements, in targets, WHERE, ORDER BY and wrapped '
                'subqueries) vs the list literal and the model; (c2) histories on one Beancount connection that contain statements '
                'refused by the compiler after their FROM clause (every table, FROM subqueries, OPEN / CLOSE / CLEAR / FROM '
                'expressions; unknown column, function, ORDER BY / GROUP BY index, misplaced aggregate) and PRINT, run through '
                'Connection.execute, one shared cursor and Connection.compile (the shell route), interleaved with statements on the '
                'default table: every step equals the step alone on a fresh connection in a fresh process; '
                '(d) ledger entries and every data container / the iterated rows of every table object of the connection deep-compared '
                'before/after a workload (incl. account / commodity / price look-ups of keys without a directive); (c3) such look-ups '
                'followed by readers of #accounts / #commodities / #prices in ledger histories, and look-ups made while the consulted '
                'table is scanned vs the same look-up key by key; (c4) connections built from a LIST of directives whose same-day directives '
                'are permuted (not the loader\'s canonical order): statements with OPEN ON / CLOSE / CLEAR (SELECT, BALANCES, JOURNAL, PRINT) '
                'interleaved with order-sensitive plain statements (no ORDER BY, ties, balance, first/last, LIMIT, PRINT) through execute, '
                'one shared cursor, the shell route, a statement parsed once and executemany: every step = the step alone on a fresh '
                'connection in a fresh process over the same original list, the caller\'s list keeps its objects in their order, the '
                'value-based fingerprint of the tables and of the caller\'s list is unchanged, and the un-ordered register is the fold of '
                'the list in list order; (a3) named-placeholder statements executed with a mapping that also holds keys equal to a used '
                'name up to letter case bound to other values (before / after the exact key), surplus keys and keys that are not str, vs '
                'the literal form and the model; non-trivial = distinct '
                'statement with >=2 placeholders or history with >=2 executions of a stored/parsed-once statement',
        'samples': [pc[0]['ptext'] + ' ' + repr(pc[0]['params']), 'SELECT ' + fc[0]['littext'], show_history(hs[2])],
        'traces_validated_against_impl': len(hs), 'placeholder_count_histogram': nph_hist,
        'constant_expressions_actually_folded': folded_n, 'history_op_histogram': hist_ops,
        'distinct_cases': distinct, 'workload_errors': bad,
    }
    return {'coverage': cov, 'violations': violations}


def generate():
    """translator tie: regenerate coq/Gen/SrcParams.v from the source of the imported code (py2mini + src_api)"""
    from . import gen_src
    out = gen_src.generate('params')
    out.update(gen_src.generate('attach'))      # bld-shell3: Connection.__init__ (whole) and Connection.attach
    out.update(gen_src.generate('attach2'))     # bld-inv2: sources.beancount.attach (tables / options / errors)
    from . import src_attach2
    out.update(src_attach2.report())
    return out


def replay(rec):
    if rec.get('kind') == 'history':
        h = [tuple(tuple(x) if isinstance(x, list) and i == 2 and o[0] == 'parse' else x for i, x in enumerate(o)) for o in rec['history']]
        h = [tuple(o) for o in rec['history']]
        h = [(o[0], o[1], [tuple(p) for p in o[2]]) + tuple(o[3:]) if o[0] != 'exec_ast' else tuple(o) for o in h]
        res, exp, unchanged = run_history_impl(h)
        return res == exp and unchanged
    if rec.get('kind') == 'ledger':
        return ledger_immutable()[0]
    if rec.get('kind') == 'scan-lookup':
        _, got, want = fresh_process_map(run_scan_lookup, [tuple(rec['case'])])[0]
        return got == want
    if rec.get('kind') == 'ledger-history':
        idx = [LEDGER_STATEMENTS.index(t) for t in rec['statements'] if t in LEDGER_STATEMENTS]
        if len(idx) != len(rec['statements']):
            return True          # recorded by an older statement list
        return fresh_process_map(_history_got, [idx])[0] == fresh_process_map(_fresh_stmt, idx)
    if rec.get('kind') == 'param-case':
        return replay_param_record(rec)
    if rec.get('kind') == 'entry-list':
        return entrylist_check({'ledger': rec['ledger'], 'perm': list(rec['perm']), 'steps': [list(x) for x in rec['steps']]}) is None
    if rec.get('kind') == 'rejected-history':
        steps = [tuple(x) for x in rec['steps']]
        fresh = fresh_process_map(_fresh_step, [(_route(how), text) for how, text in steps])
        return fresh_process_map(_rejected_history_got, [steps])[0] == fresh
    return True
