"""C08: subqueries compose. Three-way comparison per case:
 (i) the implementation on the nested statement `outer FROM (inner FROM (...))` (depth 1-3),
 (ii) the implementation on the outer statement over a harness table holding the materialised inner result,
 (iii) Model/Subquery.v: exec outer (exec inner rows) by vm_compute;
 plus `SELECT * FROM (q)` = q (rows and description) and x [NOT] IN (SELECT k FROM #u ...) in targets and WHERE
 with the inner query over a DIFFERENT table than the outer one."""
import datetime
import decimal

from . import core, impl, values, exprgen, c01, c02
from .core import clist, cbool
from .exprgen import T_INT, T_DEC, T_STR, T_DATE, T_BOOL, PY

D = decimal.Decimal
ASSUMPTIONS = [
    'dates stay within Python\'s range: a statement on which date / timedelta arithmetic raises OverflowError (nested and materialised alike) '
    'is counted (histogram key date_overflow_counted_not_compared), not compared with the model, whose dates are unbounded',
    'inner targets are aliased with distinct names (duplicate output names in a subquery collapse to one column: recorded finding)',
    'the harness types the inner result columns itself from its generator',
    'translator tie (C08_source_*): coq/Gen/SrcSubquery.v is regenerated from the source of SubqueryTable.__init__ / '
    '__iter__, EvalConstantSubquery1D.__init__ / __call__, EvalBinaryOp.__call__ and the functions the registered IN / '
    'NOT IN overloads wrap on every run (harness/vf/src_subquery.py; rules Q1-Q5 there: {} and self.a[k] = v as a '
    'functional insertion-ordered dict, self.m(..) of a staticmethod and query_execute.execute_query as opaque callables, '
    'the module-level sentinel MARKER as an opaque reference compared by identity); the column factory SubqueryTable.column '
    '(a class statement inside a function) is not interpreted: its AST must have the shape `class C(EvalColumn): '
    'def __init__(self): super().__init__(<param>); __call__ = staticmethod(operator.itemgetter(<param>))` and which '
    'parameters those are is emitted as data and compared in Coq; trusted: the PyMini semantics (Model/PyMini.v, extended '
    'by identity between opaque references), the encodings and library semantics of Model/PrimsSubquery.v (dict = '
    'insertion-ordered association list with == on keys, enumerate, iter, operator.contains on a list = some item == x), '
    'that execute_query returns (columns, rows) with rows as the theorems state (an explicit hypothesis), that a compiled '
    'expression exposes its datatype as .dtype',
    'translator tie of the statement level (bld-compiler3; C08_source_table_restored; Gen/SrcSelect.v regenerated from compiler.py on every run): trusted in addition to the C05_source_* base: translator rules K12-K14 of harness/vf/src_compiler.py - K12 STATE THREADING: a call `x = self.m(..)` of a Compiler method that may assign self.table (the set of such attributes and methods is recomputed from the live class by threading_info and emitted next to the terms; the proofs check it is ["table"]) is read as `self.table, x = self.m(self.table, ..)`, i.e. an opaque callable that receives the table and returns the table it leaves behind next to its value; such a call anywhere else than as the whole right-hand side of an assignment is rejected; K13 set(..)/set comparison as order-insensitive list operations; K14 the leading constant of \'..{}\'.format(..) selects the exception kind - and the encodings of coq/Model/PrimsSelect.v: a table is any value with hasattr(t,\'update\') / t.update(open=,close=,clear=) uninterpreted, EvalQuery / EvalPivot are records of their constructor arguments, str.format/join are uninterpreted text; the receiver\'s attributes are a concrete prefix (its table and its methods as opaque callables) followed by an arbitrary rest; what the opaque callables return is a hypothesis of each theorem (the model\'s value; for C08_source_table_restored: ANY table and any well-shaped result)',
]
IMPORTS = c01.IMPORTS + ['Model.Subquery']


def gen_level(rng, cols, rows, level):
    """One query level over (cols, rows): aggregate (c02-style) or plain (c01-style); every target gets an alias
    that is unique across levels (an outer alias equal to an inner column name would capture GROUP BY names)."""
    fmt = 'l%dc{}' % level
    if rng.random() < 0.45:
        c = c02.gen_case(rng, cols=cols, rows=rows, force_alias=True, alias_fmt=fmt)
        c['kind'] = 'agg'
        out_cols = [(t['alias'], t['type']) for t in c['targets']]
    else:
        c = c01.gen_case(rng, rng.randint(1, 2), cols=cols, rows=rows, allow_from=False)
        c['aliases'] = [fmt.format(i) for i in range(len(c['targets']))]
        c['kind'] = 'plain'
        out_cols = list(zip(c['aliases'], c['types']))
    return c, out_cols


def level_sql(c, from_sql):
    c = dict(c)
    c['from_sql'] = from_sql
    return c02.statement(c) if c['kind'] == 'agg' else c01.statement(c)


def level_coq(c):
    return c02.query_coq(c) if c['kind'] == 'agg' else c01.query_coq(c)


def gen_case(rng):
    ncols = rng.randint(2, 4)
    cols = [(n, rng.choice(exprgen.ALL_TYPES)) for n in 'abcd'[:ncols]]
    rows = [tuple(values.gen_value(rng, PY[t], 0.2) for _, t in cols) for _ in range(rng.choice([0, 1, 3, 5, 8]))]
    depth = rng.choice([1, 1, 2, 2, 3])
    levels = []
    cur = cols
    for d in range(depth + 1):
        c, cur = gen_level(rng, cur, rows if d == 0 else [], d)
        levels.append(c)
    star = rng.random() < 0.25
    return {'cols': cols, 'rows': rows, 'levels': levels, 'star': star}


def nested_sql(case, upto=None):
    levels = case['levels'] if upto is None else case['levels'][:upto]
    sql = '#t'
    for i, c in enumerate(levels):
        sql = level_sql(c, sql if i == 0 else f'({sql})')
    if case['star'] and upto is None:
        sql = f'SELECT * FROM ({sql})'
    return sql


def run_impl(case):
    t = impl.make_table('t', [(n, PY[ty]) for n, ty in case['cols']], case['rows'])
    conn = impl.connection({'t': t})
    out = {}
    try:
        cur = conn.execute(nested_sql(case))
        out['nested'] = [0, values.canon_rows(cur.fetchall())]
        out['desc'] = [(d.name, d.datatype.__name__) for d in cur.description]
    except Exception as e:  # noqa: BLE001
        out['nested'] = ['exception', impl.exc_class(e), str(e)[:200]]
    # materialised: run level by level, each result registered as a harness table
    try:
        cols, rows = case['cols'], case['rows']
        desc = None
        for i, c in enumerate(case['levels']):
            tab = impl.make_table('m', [(n, PY[ty]) for n, ty in cols], rows)
            conn2 = impl.connection({'m': tab})
            cur = conn2.execute(level_sql(c, '#m'))
            rows = cur.fetchall()
            desc = [(d.name, d.datatype.__name__) for d in cur.description]
            cols = [(t['alias'], t['type']) for t in c['targets']] if c['kind'] == 'agg' else list(zip(c['aliases'], c['types']))
        out['mat'] = [0, values.canon_rows(rows)]
        out['mat_desc'] = desc
    except Exception as e:  # noqa: BLE001
        out['mat'] = ['exception', impl.exc_class(e), str(e)[:200]]
    return out


def model_expr(case):
    src = f'(STable {values.rows_to_coq(case["rows"])})'
    for c in case['levels'][:-1]:
        src = f'(SSub {level_coq(c)} {src})'
    return f'exec_src_out {level_coq(case["levels"][-1])} {src}'


def same_type_columns():
    """Outer ORDER BY / GROUP BY on a bare subquery column that is NOT an outer target while a same-typed bare column is:
    the key must not be confused with the target (subquery columns of equal datatype are different columns)."""
    rows = [(1, 9, 'x', 'q'), (2, 8, 'y', 'p'), (3, 7, 'x', 'p'), (4, 6, 'y', 'q'), (5, 5, 'x', 'p')]
    t = impl.make_table('t', [('a', int), ('b', int), ('s', str), ('u', str)], rows)
    conn = impl.connection({'t': t})
    inner = 'SELECT a AS c0, b AS c1, s AS c2, u AS c3 FROM #t'
    checks = [
        (f'SELECT c0 FROM ({inner}) ORDER BY c1', [(r[0],) for r in sorted(rows, key=lambda r: r[1])]),
        (f'SELECT c1 FROM ({inner}) ORDER BY c0 DESC', [(r[1],) for r in sorted(rows, key=lambda r: -r[0])]),
        (f'SELECT c2 FROM ({inner}) ORDER BY c3, c0', [(r[2],) for r in sorted(rows, key=lambda r: (r[3], r[0]))]),
        (f'SELECT c2, count(*) FROM ({inner}) GROUP BY c2, c3 ORDER BY 2 DESC, 1', None),
        (f'SELECT * FROM (SELECT c0 FROM ({inner}) ORDER BY c1 LIMIT 2)', [(5,), (4,)]),
    ]
    bad = []
    for sql, want in checks:
        try:
            got = conn.execute(sql).fetchall()
        except Exception as e:  # noqa: BLE001
            got = repr(e)
        if want is None:
            groups = {}
            for r in rows:
                groups[(r[2], r[3])] = groups.get((r[2], r[3]), 0) + 1
            want = sorted([(k[0], n) for k, n in groups.items()], key=lambda x: (-x[1], x[0]))
        if got != want:
            bad.append((sql, got, want))
    return len(checks), bad


def inner_order_kept():
    """The rows of FROM (subquery ORDER BY ...) arrive in the subquery's order: an outer ORDER BY with ties, an outer
    first()/last(), DISTINCT and LIMIT all see that order (oracle: stable sort of the inner result in Python)."""
    rows = [(1, 5, 'e'), (2, 4, 'd'), (1, 3, 'c'), (2, 2, 'b'), (1, 1, 'a'), (3, 0, 'z')]
    t = impl.make_table('t', [('a', int), ('b', int), ('s', str)], rows)
    conn = impl.connection({'t': t})
    inner_sorted = sorted(rows, key=lambda r: r[1])            # ORDER BY b
    inner = 'SELECT a AS c0, b AS c1, s AS c2 FROM #t ORDER BY b'
    checks = [
        (f'SELECT c0, c2 FROM ({inner}) ORDER BY c0', [(r[0], r[2]) for r in sorted(inner_sorted, key=lambda r: r[0])]),
        (f'SELECT c0, c2 FROM ({inner}) ORDER BY c0 DESC', [(r[0], r[2]) for r in sorted(inner_sorted, key=lambda r: -r[0])]),
        (f'SELECT c0, first(c2), last(c2) FROM ({inner}) GROUP BY c0 ORDER BY c0', [(1, 'a', 'e'), (2, 'b', 'd'), (3, 'z', 'z')]),
        (f'SELECT c0, c2 FROM (SELECT c0, c1, c2 FROM ({inner})) ORDER BY c0', [(r[0], r[2]) for r in sorted(inner_sorted, key=lambda r: r[0])]),
        (f'SELECT c0, c2 FROM (SELECT DISTINCT a AS c0, s AS c2, b AS c1 FROM #t ORDER BY 3 DESC) ORDER BY c0',
         [(r[0], r[2]) for r in sorted(sorted(rows, key=lambda r: -r[1]), key=lambda r: r[0])]),
    ]
    bad = []
    for sql, want in checks:
        try:
            got = conn.execute(sql).fetchall()
        except Exception as e:  # noqa: BLE001
            got = repr(e)
        if got != want:
            bad.append((sql, got, want))
    return len(checks), bad


def look_alike_in_subqueries():
    """Two IN / NOT IN subqueries in one statement whose ASTs compare equal but which mean different things: positional
    placeholders bound to different values; the same FROM-less text inside a FROM-subquery and in the outer WHERE (it reads
    its own enclosing table). Oracle: the statement with literal lists."""
    rows = [(1, 'a', 10), (2, 'b', 20), (3, 'c', 30), (4, 'a', 40), (5, 'c', 50)]
    t = impl.make_table('t', [('k', int), ('s', str), ('v', int)], rows)
    t.update = lambda **kw: t
    conn = impl.connection({'t': t, 'postings': t})
    checks = [
        ("SELECT k FROM #t WHERE k IN (SELECT k FROM #t WHERE s = %s) OR k IN (SELECT k FROM #t WHERE s = %s)", ('a', 'c'),
         [(1,), (3,), (4,), (5,)]),
        ("SELECT k, k IN (SELECT k FROM #t WHERE v > %s), k IN (SELECT k FROM #t WHERE v > %s) FROM #t", (10, 40),
         [(1, False, False), (2, True, False), (3, True, False), (4, True, False), (5, True, True)]),
        ("SELECT k FROM #t WHERE k NOT IN (SELECT k FROM #t WHERE s = %s) AND k IN (SELECT k FROM #t WHERE s = %s)", ('a', 'a'), []),
        ("SELECT k FROM (SELECT k, v FROM #t WHERE k IN (SELECT k WHERE v <= 40)) WHERE k IN (SELECT k WHERE v <= 40) AND v >= 20", None,
         [(2,), (3,), (4,)]),
    ]
    bad = []
    for sql, params, want in checks:
        try:
            got = conn.execute(sql, params).fetchall()
        except Exception as e:  # noqa: BLE001
            got = repr(e)
        if got != want:
            bad.append((sql + ('' if params is None else ' ' + repr(params)), got, want))
    return len(checks), bad


UNIQUE_BESIDE_DUP_ROWS = [(1, 50, 'x'), (2, 10, 'y'), (3, 40, 'x'), (4, 20, 'y'), (5, 30, 'z')]


def unique_name_beside_duplicates_checks():
    """(sql, expected rows, expected description) - the outer query only uses output names carried by exactly ONE column of
    the subquery, so the answer does not depend on which of two same-named columns a name designates"""
    rows = UNIQUE_BESIDE_DUP_ROWS
    by_g = {}
    for a, b, g in rows:
        by_g.setdefault(g, []).append((a, b))
    return [
        ('SELECT y FROM (SELECT a AS x, b AS x, g AS y FROM #t)', [(r[2],) for r in rows], [('y', 'str')]),
        ('SELECT y FROM (SELECT g AS y, a AS x, b AS x FROM #t)', [(r[2],) for r in rows], [('y', 'str')]),
        ('SELECT y, z FROM (SELECT a AS x, g AS y, b AS x, b AS z FROM #t)', [(r[2], r[1]) for r in rows],
         [('y', 'str'), ('z', 'int')]),
        ('SELECT a + 1 AS n FROM (SELECT g, g, a FROM #t) ORDER BY n', [(r[0] + 1,) for r in rows], [('n', 'int')]),
        ('SELECT b, a FROM (SELECT a, g, g, g, b FROM #t)', [(r[1], r[0]) for r in rows], [('b', 'int'), ('a', 'int')]),
        ('SELECT g, s FROM (SELECT g, count(a), count(a), sum(b) AS s FROM #t GROUP BY g) ORDER BY g',
         [(g, sum(b for _, b in by_g[g])) for g in sorted(by_g)], [('g', 'str'), ('s', 'int')]),
        ('SELECT sum(b) AS s FROM (SELECT a, a, b, g FROM #t) WHERE g = \'x\'', [(90,)], [('s', 'int')]),
        ('SELECT y FROM (SELECT y, a FROM (SELECT a, b AS k, a + b AS k, g AS y FROM #t)) LIMIT 2',
         [(r[2],) for r in rows[:2]], [('y', 'str')]),
    ]


def run_unique_beside_dup(sql):
    t = impl.make_table('t', [('a', int), ('b', int), ('g', str)], UNIQUE_BESIDE_DUP_ROWS)
    conn = impl.connection({'t': t})
    try:
        cur = conn.execute(sql)
        return [tuple(r) for r in cur.fetchall()], [(d.name, d.datatype.__name__) for d in cur.description]
    except Exception as e:  # noqa: BLE001
        return repr(e), None


def unique_name_beside_duplicates():
    """A subquery with a duplicated output name AND further, uniquely named outputs (left of, between, right of the
    duplicates; plain, aggregated, nested twice): every uniquely named column must still read ITS position."""
    checks = unique_name_beside_duplicates_checks()
    bad = []
    for sql, want, wdesc in checks:
        got, gdesc = run_unique_beside_dup(sql)
        if got != want or gdesc != wdesc:
            bad.append((sql, [got, gdesc], [want, wdesc]))
    return len(checks), bad


def nested_in_three_tables():
    """x IN (SELECT .. FROM #u WHERE .. IN (SELECT .. FROM #v)) followed by more uses of the OUTER table's columns."""
    t = impl.make_table('t', [('a', int), ('y', int)], [(1, 10), (2, 20), (3, 30), (4, 40)])
    u = impl.make_table('u', [('k', int), ('g', int)], [(1, 7), (2, 8), (3, 9), (9, 7)])
    v = impl.make_table('v', [('h', int)], [(7,), (9,)])
    conn = impl.connection({'t': t, 'u': u, 'v': v})
    checks = [
        ('SELECT a, y FROM #t WHERE a IN (SELECT k FROM #u WHERE g IN (SELECT h FROM #v)) AND y > 5 ORDER BY y DESC', [(3, 30), (1, 10)]),
        ('SELECT a IN (SELECT k FROM #u WHERE g IN (SELECT h FROM #v)), y FROM #t', [(True, 10), (False, 20), (True, 30), (False, 40)]),
        ('SELECT y FROM #t WHERE a NOT IN (SELECT k FROM (SELECT k, g FROM #u WHERE g IN (SELECT h FROM #v))) ORDER BY y', [(20,), (40,)]),
        ('SELECT a, y FROM #t WHERE a IN (SELECT k FROM #u WHERE g NOT IN (SELECT h FROM #v WHERE h IN (SELECT g FROM #u))) AND y >= 20', [(2, 20)]),
    ]
    bad = []
    for sql, want in checks:
        try:
            got = conn.execute(sql).fetchall()
        except Exception as e:  # noqa: BLE001
            got = repr(e)
        if got != want:
            bad.append((sql, got, want))
    return len(checks), bad


# ---- IN (subquery) over a different table
def gen_in_case(rng):
    t = rng.choice([T_INT, T_DEC, T_STR, T_DATE])
    cols = [('a', t), ('b', rng.choice(exprgen.ALL_TYPES))]
    ucols = [('k', t), ('w', T_INT)]
    rows = [tuple(values.gen_value(rng, PY[ty], 0.25) for _, ty in cols) for _ in range(rng.choice([1, 3, 6]))]
    urows = [tuple(values.gen_value(rng, PY[ty], 0.2) for _, ty in ucols) for _ in range(rng.choice([0, 1, 3, 6]))]
    neg = rng.random() < 0.4
    gu = exprgen.Gen(rng, ucols, 2)
    iw = gu.expr(T_BOOL) if rng.random() < 0.5 else None
    inner_sql = 'SELECT k FROM #u' + (f' WHERE {iw.text}' if iw else '')
    inner_q = ('{| q_where := ' + (f'(Some {iw.coq})' if iw else 'None') + '; q_targets := [ECol 0%nat]; q_group := None; '
               'q_aggs := []; q_having := None; q_order := None; q_vis := [0%nat]; q_distinct := false; q_limit := None |}')
    items = f'(items_of (exec {inner_q} {values.rows_to_coq(urows)}))'
    pred_sql = f'(a {"NOT IN" if neg else "IN"} ({inner_sql}))'
    pred_coq = f'(EIn {cbool(neg)} (ECol 0%nat) {items})'
    in_where = rng.random() < 0.5
    if in_where:
        sql = f'SELECT a, b FROM #t WHERE {pred_sql}'
        q = ('{| q_where := (Some ' + pred_coq + '); q_targets := [ECol 0%nat; ECol 1%nat]; q_group := None; q_aggs := []; '
             'q_having := None; q_order := None; q_vis := [0%nat; 1%nat]; q_distinct := false; q_limit := None |}')
    else:
        sql = f'SELECT {pred_sql}, a FROM #t'
        q = ('{| q_where := None; q_targets := [' + pred_coq + '; ECol 0%nat]; q_group := None; q_aggs := []; '
             'q_having := None; q_order := None; q_vis := [0%nat; 1%nat]; q_distinct := false; q_limit := None |}')
    return {'cols': cols, 'ucols': ucols, 'rows': rows, 'urows': urows, 'sql': sql,
            'coq': f'exec_out {q} {values.rows_to_coq(rows)}', 'neg': neg, 'in_where': in_where}


def run_in_impl(c):
    t = impl.make_table('t', [(n, PY[ty]) for n, ty in c['cols']], c['rows'])
    u = impl.make_table('u', [(n, PY[ty]) for n, ty in c['ucols']], c['urows'])
    conn = impl.connection({'t': t, 'u': u})
    try:
        return [0, values.canon_rows(conn.execute(c['sql']).fetchall())]
    except Exception as e:  # noqa: BLE001
        return ['exception', impl.exc_class(e), str(e)[:200]]


# ---- IN (subquery) with a SHAPED inner query: filtered, ordered (visible / hidden keys), DISTINCT, LIMIT, grouped,
# aggregated, read through a FROM-subquery; the inner column has few distinct values, so duplicates sit on both sides of
# a LIMIT cut.  Two oracles: Model/Subquery.v (items_of (exec inner rows)) and, independently of the model, the inner
# statement run on its own by the implementation followed by plain Python membership (the property text).

def _q(where, targets, group, aggs, order, vis, distinct, limit):
    return ('{| q_where := ' + (f'(Some {where})' if where else 'None') + '; q_targets := ' + clist(targets)
            + '; q_group := ' + ('None' if group is None else 'Some ' + clist([f'{i}%nat' for i in group]))
            + '; q_aggs := ' + clist(aggs) + '; q_having := None'
            + '; q_order := ' + ('None' if not order else '(Some ' + clist([f'({i}%nat, {cbool(d)})' for i, d in order]) + ')')
            + '; q_vis := ' + clist([f'{i}%nat' for i in vis]) + '; q_distinct := ' + cbool(distinct)
            + '; q_limit := ' + core.copt(limit, core.cZ) + ' |}')


def gen_in_shaped_case(rng):
    t = rng.choice([T_INT, T_INT, T_STR, T_DATE, T_DEC])
    cols = [('a', t), ('b', rng.choice(exprgen.ALL_TYPES))]
    ucols = [('k', t), ('w', T_INT), ('g', T_STR)]
    pool = rng.sample(values.POOLS[PY[t]], rng.choice([2, 3, 3, 4]))
    if t == T_DEC:   # 1 / 1.0 / 1.50 ... : keep values that differ numerically (DISTINCT and == agree on them)
        pool = list({v: None for v in pool if not (v == 0 and v.is_signed())})
        pool = [v for i, v in enumerate(pool) if all(v != x for x in pool[:i])]
    nu = rng.choice([0, 1, 3, 4, 5, 6, 8, 9])
    urows = [(None if rng.random() < 0.12 else rng.choice(pool), rng.choice([0, 1, 2, 3, 5]), rng.choice(['p', 'q', None]))
             for _ in range(nu)]
    others = [v for v in values.POOLS[PY[t]] if all(v != x for x in pool)][:2]
    rows = [(v, values.gen_value(rng, PY[cols[1][1]], 0.2)) for v in pool + others + [None]]
    rng.shuffle(rows)
    gu = exprgen.Gen(rng, ucols, 1)
    where = gu.expr(T_BOOL) if rng.random() < 0.3 else None
    shape = rng.choice(['plain', 'plain', 'plain', 'group-key', 'group-agg', 'all-agg'])
    distinct = rng.random() < 0.25
    limit = rng.choice([1, 2, 2, 3, 4, 0]) if rng.random() < 0.75 else None
    aggs, group = [], None
    order_sql, order = [], []
    if shape == 'plain':
        sel, targets = 'k', ['(ECol 0%nat)']
        r = rng.random()
        if r < 0.3:                                   # hidden column key(s)
            d1, d2 = rng.random() < 0.5, rng.random() < 0.5
            targets.append('(ECol 1%nat)')
            order_sql, order = ['w' + (' DESC' if d1 else '')], [(1, d1)]
            if rng.random() < 0.4:
                targets.append('(ECol 2%nat)')
                order_sql.append('g' + (' DESC' if d2 else ''))
                order.append((2, d2))
        elif r < 0.45:                                # hidden expression key
            e = gu.expr(T_INT)
            d1 = rng.random() < 0.5
            targets.append(e.coq)
            order_sql, order = [(f'({e.text})' if e.text[:1].isdigit() else e.text) + (' DESC' if d1 else '')], [(1, d1)]
        elif r < 0.7:                                 # the visible column, by name or position
            d1 = rng.random() < 0.5
            order_sql, order = [rng.choice(['k', '1']) + (' DESC' if d1 else '')], [(0, d1)]
    elif shape == 'group-key':
        sel, targets, group = 'k', ['(ECol 0%nat)'], [0]
        gsql = ['k']
        if rng.random() < 0.4:                        # a second, hidden grouping key: k repeats in the output
            targets.append('(ECol 2%nat)')
            group.append(1)
            gsql.append('g')
        r = rng.random()
        d1 = rng.random() < 0.5
        if r < 0.35:
            aggs.append('{| afun := ACountStar; aarg := (EConst VNull) |}')
            targets.append('(EAgg 0%nat)')
            order_sql, order = ['count(*)' + (' DESC' if d1 else '')], [(len(targets) - 1, d1)]
        elif r < 0.7:
            order_sql, order = ['k' + (' DESC' if d1 else '')], [(0, d1)]
    elif shape == 'group-agg':
        fn, tag = rng.choice([('max', 'AMax'), ('min', 'AMin'), ('first', 'AFirst'), ('last', 'ALast')])
        sel = f'{fn}(k)'
        aggs.append('{| afun := ' + tag + '; aarg := (ECol 0%nat) |}')
        key, ki = rng.choice([('w', 1), ('g', 2)])
        targets, group, gsql = ['(EAgg 0%nat)', f'(ECol {ki}%nat)'], [1], [key]
        if rng.random() < 0.6:
            d1 = rng.random() < 0.5
            order_sql, order = [key + (' DESC' if d1 else '')], [(1, d1)]
    else:
        fn, tag = rng.choice([('max', 'AMax'), ('min', 'AMin'), ('first', 'AFirst'), ('last', 'ALast')])
        sel = f'{fn}(k)'
        aggs.append('{| afun := ' + tag + '; aarg := (ECol 0%nat) |}')
        targets, group, gsql = ['(EAgg 0%nat)'], [], None
    via_from = rng.random() < 0.2
    inner_sql = ('SELECT ' + ('DISTINCT ' if distinct else '') + sel + rng.choice(['', ' AS v'])
                 + ' FROM ' + ('(SELECT k, w, g FROM #u)' if via_from else '#u')
                 + (f' WHERE {where.text}' if where else ''))
    if shape in ('group-key', 'group-agg'):
        inner_sql += ' GROUP BY ' + ', '.join(gsql)
    if order_sql:
        inner_sql += ' ORDER BY ' + ', '.join(order_sql)
    if limit is not None:
        inner_sql += f' LIMIT {limit}'
    inner_q = _q(where.coq if where else None, targets, group, aggs, order, [0], distinct, limit)
    items = f'(items_of (exec {inner_q} {values.rows_to_coq(urows)}))'
    form = rng.choice(['targets', 'where-in', 'where-not-in'])
    pin, pnot = f'(EIn false (ECol 0%nat) {items})', f'(EIn true (ECol 0%nat) {items})'
    if form == 'targets':
        sql = f'SELECT a, a IN ({inner_sql}) AS i, a NOT IN ({inner_sql}) AS n FROM #t'
        q = _q(None, ['(ECol 0%nat)', pin, pnot], None, [], None, [0, 1, 2], False, None)
    else:
        neg = form == 'where-not-in'
        sql = f'SELECT a, b FROM #t WHERE a {"NOT IN" if neg else "IN"} ({inner_sql})'
        q = _q(pnot if neg else pin, ['(ECol 0%nat)', '(ECol 1%nat)'], None, [], None, [0, 1], False, None)
    return {'cols': cols, 'ucols': ucols, 'rows': rows, 'urows': urows, 'sql': sql, 'inner_sql': inner_sql, 'form': form,
            'coq': f'exec_out {q} {values.rows_to_coq(rows)}', 'shape': shape, 'distinct': distinct, 'limit': limit,
            'ordered': bool(order), 'hidden_order': any(i != 0 for i, _ in order), 'via_from': via_from,
            'filtered': where is not None}


def run_in_shaped_impl(c):
    """-> {'nested': result of the nested statement, 'inner': the inner statement on its own (fresh connection),
           'member': what plain membership in the inner result gives for the nested statement}"""
    def conn():
        t = impl.make_table('t', [(n, PY[ty]) for n, ty in c['cols']], c['rows'])
        u = impl.make_table('u', [(n, PY[ty]) for n, ty in c['ucols']], c['urows'])
        return impl.connection({'t': t, 'u': u})
    out = {}
    try:
        out['nested'] = [0, values.canon_rows(conn().execute(c['sql']).fetchall())]
    except Exception as e:  # noqa: BLE001
        out['nested'] = ['exception', impl.exc_class(e), str(e)[:200]]
    try:
        vals = [r[0] for r in conn().execute(c['inner_sql']).fetchall()]
        out['inner'] = [0, values.canon_rows([(v,) for v in vals])]

        def member(x, neg):
            if x is None or not vals:
                return None
            return (x in vals) != neg
        if c['form'] == 'targets':
            exp = [(a, member(a, False), member(a, True)) for a, _ in c['rows']]
        else:
            exp = [r for r in c['rows'] if member(r[0], c['form'] == 'where-not-in')]
        out['member'] = [0, values.canon_rows(exp)]
    except Exception as e:  # noqa: BLE001
        out['inner'] = out['member'] = ['exception', impl.exc_class(e), str(e)[:200]]
    return out


def dup_in_cut(c, inner_rows):
    """Does the LIMIT of the inner query keep a value twice (what a forced DISTINCT would change)?"""
    return c['limit'] is not None and not c['distinct'] and len(inner_rows) != len({repr(r) for r in inner_rows})


# ---- SELECT * FROM (q) = q, with output names that mean something elsewhere in beanquery
# The subquery's output names are whatever the inner query calls its outputs: names of columns of the Beancount tables
# (some of which those tables treat specially, e.g. hide from their own wildcard), attribute / method names of the table
# and cursor classes, function and aggregate names.  None of them may matter to the wildcard over a subquery.
STAR_NAMES = ['meta', 'date', 'id', 'type', 'account', 'balance', 'position', 'entry', 'posting', 'name', 'filename', 'lineno',
              'columns', 'table', 'tables', 'wildcard_columns', 'row', 'context', 'value', 'key', 'number', 'currency',
              'count', 'sum', 'first', 'last', 'min', 'max', 'year', 'open', 'close', 'clear', 'flatten', 'at', 'on',
              'self', 'dtype', 'datatype', 'description', 'update', 'column', 'entries', 'options', 'errors', 'postings',
              'other_accounts', 'tags', 'links', 'cost', 'price', 'weight', 'flag', 'payee', 'narration', 'location']


class _AliasPool:
    """stands in for c02.gen_case's alias_fmt: target i gets the i-th name of a shuffled pool"""

    def __init__(self, names):
        self.names = names

    def format(self, i):
        return self.names[i]


def gen_star_case(rng):
    """An inner query (c01 / c02 generators) over a table whose column names, and whose output aliases, are drawn from
    STAR_NAMES; bare column targets may stay unaliased (their output name is the column name)."""
    ncols = rng.randint(2, 4)
    special = rng.sample(STAR_NAMES[:12], 2) + rng.sample(STAR_NAMES[12:], 2)
    rng.shuffle(special)
    names = [special[i] if rng.random() < 0.4 else 'abcd'[i] for i in range(ncols)]
    cols = [(n, rng.choice(exprgen.ALL_TYPES)) for n in names]
    rows = [tuple(values.gen_value(rng, PY[t], 0.2) for _, t in cols) for _ in range(rng.choice([0, 1, 2, 3, 5]))]
    pool = [n for n in STAR_NAMES[12:] if n not in names]
    rng.shuffle(pool)
    first = [n for n in STAR_NAMES[:12] if n not in names]
    rng.shuffle(first)
    # the names beanquery's own tables carry come first about as often as not
    pool = sorted(first[:3] + pool[:5], key=lambda _: rng.random()) + first[3:] + pool[5:]
    if rng.random() < 0.4:
        c = c02.gen_case(rng, cols=cols, rows=rows, force_alias=True, alias_fmt=_AliasPool(pool))
        sql, kind = c02.statement(c), 'agg'
        out_names = [t['alias'] for t in c['targets']]
    else:
        c = c01.gen_case(rng, rng.randint(1, 2), cols=cols, rows=rows, allow_from=False)
        out_names, parts, seen = [], [], set()
        for i, (t, _) in enumerate(c['targets']):
            if t in names and t not in seen and rng.random() < 0.6:
                seen.add(t)
                out_names.append(t)
                parts.append(t)
            else:
                out_names.append(pool[i])
                parts.append(f'{t} AS {pool[i]}')
        if len(set(out_names)) != len(out_names):      # a bare column after an alias of the same name: alias it too
            return gen_star_case(rng)
        sql = 'SELECT ' + ', '.join(parts) + ' FROM #t' + (f' WHERE {c["where"][0]}' if c['where'] else '')
        kind = 'plain'
    return {'cols': cols, 'rows': rows, 'inner': sql, 'kind': kind, 'names': out_names}


def star_sweep_cases():
    """Deterministic: every name of STAR_NAMES once as an alias (first / middle / last output) and once as a table column
    selected bare."""
    out = []
    for i, n in enumerate(STAR_NAMES):
        other = STAR_NAMES[(i + 7) % len(STAR_NAMES)]
        rows = [(1, 'p', True), (2, None, False), (None, 'q', None)]
        cols = [('a', T_INT), ('b', T_STR), ('c', T_BOOL)]
        inner = [f'SELECT a AS {n}, b, c AS {other} FROM #t', f'SELECT b, a + 1 AS {n}, c FROM #t WHERE a > 0',
                 f'SELECT b, count(*) AS {other}, max(a) AS {n} FROM #t GROUP BY b'][i % 3]
        out.append({'cols': cols, 'rows': rows, 'inner': inner, 'kind': 'sweep-alias', 'names': [n, other]})
        cols2 = [(n, T_INT), ('b', T_STR), (other, T_BOOL)]
        inner2 = [f'SELECT b, {n}, {other} FROM #t', f'SELECT {n}, b FROM #t ORDER BY {other}, b', f'SELECT {other}, b, {n} FROM #t LIMIT 2'][i % 3]
        out.append({'cols': cols2, 'rows': rows, 'inner': inner2, 'kind': 'sweep-column', 'names': [n, other]})
    return out


def shrink_star(c):
    """fewest rows that still disagree (the statement is kept)"""
    rows = list(c['rows'])
    i = 0
    while i < len(rows):
        d = dict(c)
        d['rows'] = rows[:i] + rows[i + 1:]
        if star_disagreement(d, run_star_impl(d)):
            rows = d['rows']
        else:
            i += 1
    d = dict(c)
    d['rows'] = rows
    return d


def run_star_impl(c):
    """-> {'q': the inner statement on its own, 'star': SELECT * FROM (q), 'star2': SELECT * FROM (SELECT * FROM (q)),
           'named': SELECT <q's output names> FROM (q)}, each [0, rows, description] or ['exception', class]"""
    def one(sql):
        t = impl.make_table('t', [(n, PY[ty]) for n, ty in c['cols']], c['rows'])
        conn = impl.connection({'t': t})
        try:
            cur = conn.execute(sql)
            rows = values.canon_rows(cur.fetchall())
            return [0, rows, [[d.name, d.datatype.__name__] for d in cur.description]]
        except Exception as e:  # noqa: BLE001
            return ['exception', impl.exc_class(e)]
    out = {'q': one(c['inner'])}
    out['star'] = one(f'SELECT * FROM ({c["inner"]})')
    out['star2'] = one(f'SELECT * FROM (SELECT * FROM ({c["inner"]}))')
    if out['q'][0] == 0:
        out['named'] = one('SELECT ' + ', '.join(n for n, _ in out['q'][2]) + f' FROM ({c["inner"]})')
    return out


def star_disagreement(c, io):
    """None, or what differs from the inner statement run on its own."""
    for form, what in (('star', 'SELECT * FROM (q)'), ('star2', 'SELECT * FROM (SELECT * FROM (q))'),
                       ('named', 'SELECT <the output names of q> FROM (q)')):
        if form == 'named':
            if io['q'][0] != 0:
                continue
            # only when every output name of q is an identifier (expression-named outputs cannot be spelled as a column)
            if not all(n.isidentifier() for n, _ in io['q'][2]):
                continue
        if io[form] != io['q']:
            return f'{what} gives {io[form]} but q = {c["inner"]} on its own gives {io["q"]}'
    return None


# ---- identity wrappers and NULL-typed outputs: q = SELECT * FROM (... SELECT * FROM <#t | SELECT a, NULL AS x, b FROM #t>
# <one clause> ...) <one clause>, depth 0-3, each level carrying nothing, LIMIT 0 / 1 / n, DISTINCT, WHERE FALSE / TRUE /
# a IS NOT NULL, ORDER BY, or a few of them.  A level that "does nothing but one thing" is where an implementation is
# tempted to look through the subquery.  Three oracles per outer use of (q): the nested statement, the same outer statement
# over a harness table holding q's rows and carrying q's DESCRIPTION datatypes (q computed level by level, each level over
# a harness table: never nested), and a plain-Python fold of the clauses (rows of q, membership for the IN forms).
WRAP_TYPES = [T_INT, T_STR, T_DEC, T_DATE, T_BOOL]


def gen_wrap_clause(rng):
    w = {'distinct': False, 'where': None, 'order': None, 'limit': None}
    r = rng.random()
    if r < 0.72:     # exactly one thing (or nothing)
        k = rng.choice(['none', 'limit0', 'limit0', 'limit0', 'limit1', 'limit2', 'distinct', 'false', 'true', 'notnull', 'order'])
    else:
        k = 'mix'
    if k in ('limit0', 'limit1', 'limit2'):
        w['limit'] = int(k[-1])
    elif k == 'distinct':
        w['distinct'] = True
    elif k in ('false', 'true'):
        w['where'] = k.upper()
    elif k == 'notnull':
        w['where'] = 'a IS NOT NULL'
    elif k == 'order':
        w['order'] = ['a', rng.random() < 0.5]
    elif k == 'mix':
        w['distinct'] = rng.random() < 0.4
        w['where'] = rng.choice([None, None, 'TRUE', 'FALSE', 'a IS NOT NULL'])
        w['order'] = ['a', rng.random() < 0.5] if rng.random() < 0.4 else None
        w['limit'] = rng.choice([None, 0, 0, 1, 3])
    return w


def wrap_clause_sql(w, src):
    return ('SELECT ' + ('DISTINCT ' if w['distinct'] else '') + '* FROM ' + src + (f' WHERE {w["where"]}' if w['where'] else '')
            + (f' ORDER BY {w["order"][0]}' + (' DESC' if w['order'][1] else '') if w['order'] else '')
            + (f' LIMIT {w["limit"]}' if w['limit'] is not None else ''))


def gen_wrap_case(rng):
    tb = rng.choice(WRAP_TYPES)
    cols = [('a', T_INT), ('b', tb), ('c', T_STR)]
    pa, pb = rng.sample(values.POOLS[int], 3), rng.sample(values.POOLS[PY[tb]], min(2, len(values.POOLS[PY[tb]])))
    rows = [(None if rng.random() < 0.15 else rng.choice(pa), None if rng.random() < 0.15 else rng.choice(pb), rng.choice(['p', 'q']))
            for _ in range(rng.choice([1, 2, 4, 7, 7]))]
    base = rng.choice(['table', 'table', 'table', 'null-literal', 'null-literal', 'param-none', 'param-int', 'aliased'])
    params = None
    if base == 'table':
        proj, base_sql = None, None
    else:
        xs = {'null-literal': 'NULL', 'param-none': '%s', 'param-int': '%s', 'aliased': 'b'}[base]
        proj = [['a', 0], ['b', 1]]
        xv = 1 if base == 'aliased' else ('const', 5 if base == 'param-int' else None)
        proj.insert(rng.randrange(3), ['x', xv])
        if base.startswith('param'):
            params = [None] if base == 'param-none' else [5]
        base_sql = 'SELECT ' + ', '.join(n if n != 'x' else f'{xs} AS x' for n, _ in proj) + ' FROM #t'
    depth = rng.choice([1, 1, 2, 3]) if base == 'table' else rng.choice([0, 1, 1, 2])
    wraps = [gen_wrap_clause(rng) for _ in range(depth)]
    names = [n for n, _ in proj] if proj else ['a', 'b', 'c']
    forms = ['SELECT * FROM (q)']
    pool = ['SELECT * FROM (SELECT * FROM (q))', 'SELECT count(a) AS n FROM (q)', 'SELECT a FROM (q) WHERE a > 0',
            'SELECT a, a IN (SELECT a FROM (q)) AS i FROM #t', 'SELECT a FROM #t WHERE a NOT IN (SELECT a FROM (q))',
            'SELECT b, a FROM (q) ORDER BY a DESC LIMIT 2', 'SELECT DISTINCT a FROM (q)']
    if 'x' in names:
        pool += ['SELECT x FROM (q)', 'SELECT a FROM (q) WHERE x = 7', 'SELECT x + 1 AS y FROM (q)', 'SELECT a FROM (q) WHERE x IS NULL',
                 'SELECT count(x) AS n FROM (q)', 'SELECT a FROM (q) ORDER BY x, a', 'SELECT a, x IN (SELECT x FROM (q)) AS i FROM (q)']
        forms += rng.sample(pool[7:], 3)
    forms += rng.sample(pool[:7], 3)
    return {'cols': cols, 'rows': rows, 'base': base, 'base_sql': base_sql, 'proj': proj, 'params': params, 'wraps': wraps,
            'forms': forms}


def wrap_q_sql(c, upto=None):
    """q as ONE nested statement"""
    sql = c['base_sql']
    for w in (c['wraps'] if upto is None else c['wraps'][:upto]):
        sql = wrap_clause_sql(w, '#t' if sql is None else f'({sql})')
    return sql


def wrap_fold(c):
    """plain Python: the rows of q"""
    rows = [tuple(r) for r in c['rows']]
    if c['proj']:
        rows = [tuple(r[v] if isinstance(v, int) else v[1] for _, v in c['proj']) for r in rows]
        names = [n for n, _ in c['proj']]
    else:
        names = ['a', 'b', 'c']
    ia = names.index('a')
    for w in c['wraps']:
        if w['where'] == 'FALSE':
            rows = []
        elif w['where'] == 'a IS NOT NULL':
            rows = [r for r in rows if r[ia] is not None]
        if w['order']:
            rows = sorted(rows, key=lambda r: (r[ia] is not None, r[ia] if r[ia] is not None else 0), reverse=w['order'][1])
        if w['distinct']:
            seen, out = [], []
            for r in rows:
                if r not in seen:
                    seen.append(r)
                    out.append(r)
            rows = out
        if w['limit'] is not None:
            rows = rows[:w['limit']]
    return names, rows


def run_wrap_impl(c):
    cols = [(n, PY[ty]) for n, ty in c['cols']]
    trows = [tuple(r) for r in c['rows']]
    params = tuple(c['params']) if c['params'] else None

    def res(conn, sql, par=None):
        try:
            cur = conn.execute(sql, par) if par else conn.execute(sql)
            rows = cur.fetchall()
            return [0, values.canon_rows(rows), [[d.name, d.datatype.__name__] for d in cur.description]], rows, [(d.name, d.datatype) for d in cur.description]
        except Exception as e:  # noqa: BLE001
            return ['exception', impl.exc_class(e), str(e)[:120]], None, None

    def fresh(extra=None):
        tabs = {'t': impl.make_table('t', cols, trows)}
        tabs.update(extra or {})
        return impl.connection(tabs)
    out = {'forms': {}}
    # q level by level, never nested
    mcols, mrows, step = cols, trows, None
    steps = ([c['base_sql']] if c['base_sql'] else []) + [wrap_clause_sql(w, '#m') for w in c['wraps']]
    for i, sql in enumerate(steps):
        if i == 0 and c['base_sql']:
            step, mrows, mcols = res(fresh(), sql, params)
        else:
            step, mrows, mcols = res(fresh({'m': impl.make_table('m', mcols, mrows)}), sql)
        if step[0] != 0:
            break
    out['q_levelwise'] = step
    names, frows = wrap_fold(c)
    out['q_fold'] = [names, values.canon_rows(frows)]
    qsql = wrap_q_sql(c)
    out['q_nested'] = res(fresh(), qsql, params)[0]
    if step[0] != 0:
        return out
    avals = [r[names.index('a')] for r in frows]
    for f in c['forms']:
        nsql = f.replace('(q)', f'({qsql})')
        nested = res(fresh(), nsql, params * nsql.count('%s') if params else None)[0]
        mat = res(fresh({'m': impl.make_table('m', mcols, mrows)}), f.replace('(q)', '#m'))[0]
        o = {'nested': nested, 'mat': mat}
        if f.startswith('SELECT a, a IN (SELECT a FROM (q))'):
            o['fold'] = values.canon_rows([(r[0], None if r[0] is None or not avals else r[0] in avals) for r in trows])
        elif f.startswith('SELECT a FROM #t WHERE a NOT IN'):
            o['fold'] = values.canon_rows([(r[0],) for r in trows if r[0] is not None and avals and r[0] not in avals])
        elif f == 'SELECT * FROM (q)' or f == 'SELECT * FROM (SELECT * FROM (q))':
            o['fold'] = values.canon_rows(frows)
        out['forms'][f] = o
    return out


def wrap_disagreement(c, io):
    lv = io['q_levelwise']
    if lv[0] != 0:
        return f'q computed level by level raised {lv}'
    if lv[1] != io['q_fold'][1] or [n for n, _ in lv[2]] != io['q_fold'][0]:
        return f'q computed level by level gives {lv[1]} {lv[2]} but the clauses folded in Python give {io["q_fold"]}'
    if io['q_nested'] != lv:
        return f'q as one nested statement gives {io["q_nested"]} but level by level over materialised tables {lv}'
    for f, o in io['forms'].items():
        if o['nested'][:2] != o['mat'][:2] or (o['nested'][0] == 0 and o['nested'] != o['mat']):
            return f'{f}: nested gives {o["nested"]} but over a table holding q\'s rows and datatypes {lv[2]} it gives {o["mat"]}'
        if 'fold' in o and (o['nested'][0] != 0 or o['nested'][1] != o['fold']):
            return f'{f}: nested gives {o["nested"]} but q\'s rows folded in Python give {o["fold"]}'
        if f == 'SELECT * FROM (q)' and o['nested'][2] != lv[2]:
            return f'{f}: description {o["nested"][2]} differs from q\'s description {lv[2]}'
    return None


def wrap_text(c):
    return (f'q = {wrap_q_sql(c)}' + (f' with parameters {c["params"]}' if c['params'] else '') + f' over #t {c["cols"]} {c["rows"]}')


def shrink_wrap(c):
    """fewest rows, then fewest outer forms, that still disagree"""
    rows = list(c['rows'])
    i = 0
    while i < len(rows):
        d = dict(c)
        d['rows'] = rows[:i] + rows[i + 1:]
        if wrap_disagreement(d, run_wrap_impl(d)):
            rows = d['rows']
        else:
            i += 1
    d = dict(c)
    d['rows'] = rows
    for f in c['forms']:
        e = dict(d)
        e['forms'] = [f]
        if wrap_disagreement(e, run_wrap_impl(e)):
            return e
    return d


def generate():
    """translator tie: regenerate coq/Gen/SrcSubquery.v from the source of the imported beanquery.query_compile (py2mini +
    the rules and the structural reading of the column factory in src_subquery.py)"""
    from . import gen_src, src_subquery
    out = dict(gen_src.generate('subquery'))
    # bld-compiler3: C08_source_table_restored is stated over coq/Gen/SrcSelect.v (Compiler._select); same group as C05
    out.update(gen_src.generate('select'))
    out['src_subquery_rules_used'] = list(src_subquery.SubqueryGroup.info.get('rules_used', []))
    out['src_subquery_column_factory'] = dict(src_subquery.SubqueryGroup.info.get('column_factory', {}))
    return out


def run(tier, rng):
    n = 900 if tier == 'quick' else 12000
    n_in = 500 if tier == 'quick' else 6000
    cases = [gen_case(rng) for _ in range(n)]
    incases = [gen_in_case(rng) for _ in range(n_in)]
    shaped = [gen_in_shaped_case(rng) for _ in range(400 if tier == 'quick' else 8000)]
    impl_out = core.pmap(run_impl, cases)
    in_impl = core.pmap(run_in_impl, incases)
    shaped_impl = core.pmap(run_in_shaped_impl, shaped)
    starcases = star_sweep_cases() + [gen_star_case(rng) for _ in range(250 if tier == 'quick' else 5000)]
    star_impl = core.pmap(run_star_impl, starcases)
    wrapcases = [gen_wrap_case(rng) for _ in range(220 if tier == 'quick' else 3000)]
    wrap_impl = core.pmap(run_wrap_impl, wrapcases)
    models = core.coq_eval('c08', IMPORTS, [model_expr(c) for c in cases] + [c['coq'] for c in incases]
                           + [c['coq'] for c in shaped], shard=120)
    shaped_models = models[len(cases) + len(incases):]
    models = models[:len(cases) + len(incases)]
    violations, seen = [], set()
    hist = {'depth': {}, 'kinds': {}, 'star': 0, 'in_where': 0, 'not_in': 0, 'empty_inner': 0, 'impl_errors': 0}
    nontrivial = 0
    for c, io, m in zip(cases, impl_out, models[:len(cases)]):
        d = len(c['levels']) - 1
        hist['depth'][d] = hist['depth'].get(d, 0) + 1
        k = '/'.join(l['kind'] for l in c['levels'])
        hist['kinds'][k] = hist['kinds'].get(k, 0) + 1
        hist['star'] += c['star']
        if io['nested'][0] != 0:
            hist['impl_errors'] += 1
        elif c['rows'] and io['nested'][1]:
            nontrivial += 1
        bad = None
        if io['nested'] != io['mat']:
            bad = f'nested {io["nested"]} differs from the outer query over the materialised inner result {io["mat"]}'
        elif io['nested'][:2] == ['exception', 'other:OverflowError']:
            # datetime.date / timedelta arithmetic leaving Python's range raises (nested and materialised alike, compared above);
            # the model's dates are unbounded (ASSUMPTIONS): counted, not compared with the model
            hist['date_overflow_counted_not_compared'] = hist.get('date_overflow_counted_not_compared', 0) + 1
        elif io['nested'] != m:
            bad = f'implementation {io["nested"]} differs from model {m}'
        elif io['nested'][0] == 0 and c['star'] and io.get('desc') != io.get('mat_desc'):
            bad = f'SELECT * FROM (q) description {io.get("desc")} differs from q\'s {io.get("mat_desc")}'
        elif io['nested'][0] == 0 and not c['star'] and [x[1] for x in io.get('desc', [])] != [x[1] for x in io.get('mat_desc', [])]:
            bad = f'datatypes {io.get("desc")} differ from materialised {io.get("mat_desc")}'
        if bad and len(seen) < 3:
            sig = 'subquery:' + nested_sql(c) + ' rows=' + repr(c['rows'])
            seen.add(sig)
            violations.append(core.Violation('from-subquery', f'{nested_sql(c)} over {c["cols"]} {c["rows"]}: {bad}',
                                             {'kind': 'from', 'sql': nested_sql(c), 'cols': c['cols'], 'rows': c['rows'],
                                              'impl': io, 'model': m}, signature=sig))
    for c, io, m in zip(incases, in_impl, models[len(cases):]):
        hist['in_where'] += c['in_where']
        hist['not_in'] += c['neg']
        hist['empty_inner'] += not c['urows']
        if io != m and len(seen) < 6:
            sig = 'in:' + c['sql'] + ' t=' + repr(c['rows']) + ' u=' + repr(c['urows'])
            seen.add(sig)
            violations.append(core.Violation('in-subquery', f'{c["sql"]} with #t={c["rows"]} #u={c["urows"]}: implementation {io} '
                                             f'but membership semantics (model) give {m}',
                                             {'kind': 'in', 'case': {k: v for k, v in c.items()}, 'impl': io, 'model': m}, signature=sig))
    shist = {'shape': {}, 'form': {}, 'limit': 0, 'distinct': 0, 'ordered': 0, 'hidden_order_key': 0, 'filtered': 0,
             'via_from_subquery': 0, 'empty_inner_result': 0, 'duplicate_value_kept_by_limit': 0, 'limit_cuts_rows': 0,
             'outer_value_only_beyond_the_cut': 0, 'impl_errors': 0}
    nshaped_bad = 0
    for c, io, m in zip(shaped, shaped_impl, shaped_models):
        shist['shape'][c['shape']] = shist['shape'].get(c['shape'], 0) + 1
        shist['form'][c['form']] = shist['form'].get(c['form'], 0) + 1
        for k, f in (('limit', c['limit'] is not None), ('distinct', c['distinct']), ('ordered', c['ordered']),
                     ('hidden_order_key', c['hidden_order']), ('filtered', c['filtered']), ('via_from_subquery', c['via_from'])):
            shist[k] += bool(f)
        if io['nested'][0] != 0:
            shist['impl_errors'] += 1
        if io['inner'][0] == 0:
            shist['empty_inner_result'] += not io['inner'][1]
            shist['duplicate_value_kept_by_limit'] += dup_in_cut(c, io['inner'][1])
            if c['limit'] is not None and len(io['inner'][1]) == c['limit'] and len(c['urows']) > c['limit']:
                shist['limit_cuts_rows'] += 1
                kept = {repr(r[0]) for r in io['inner'][1]}
                allk = {repr(values.canon(r[0])) for r in c['urows']}
                shist['outer_value_only_beyond_the_cut'] += bool(allk - kept)
        bad = None
        if io['nested'] != io['member']:
            bad = (f'nested statement gives {io["nested"]} but the subquery on its own returns {io["inner"]}, '
                   f'membership in which gives {io["member"]}')
        elif io['nested'] != m:
            bad = f'implementation {io["nested"]} but membership semantics (model) give {m}'
        if bad:
            nshaped_bad += 1
            if nshaped_bad <= 2:
                sig = 'in-shaped:' + c['sql'] + ' t=' + repr(c['rows']) + ' u=' + repr(c['urows'])
                violations.append(core.Violation(
                    'in-subquery-shaped', f'{c["sql"]} with #t={c["rows"]} #u={c["urows"]}: {bad}',
                    {'kind': 'in-shaped', 'case': c, 'impl': io, 'model': m}, signature=sig))
    sthist = {'kind': {}, 'output_name': {}, 'table_column_with_special_name': 0, 'inner_statement_raised': 0,
              'checked_by_name': 0, 'nonempty_result': 0}
    nstar_bad = 0
    for c, io in zip(starcases, star_impl):
        sthist['kind'][c['kind']] = sthist['kind'].get(c['kind'], 0) + 1
        sthist['table_column_with_special_name'] += any(n in STAR_NAMES for n, _ in c['cols'])
        if io['q'][0] != 0:
            sthist['inner_statement_raised'] += 1
        else:
            sthist['nonempty_result'] += bool(io['q'][1])
            sthist['checked_by_name'] += all(n.isidentifier() for n, _ in io['q'][2])
            for n, _ in io['q'][2]:
                if n in STAR_NAMES:
                    sthist['output_name'][n] = sthist['output_name'].get(n, 0) + 1
        bad = star_disagreement(c, io)
        if bad:
            nstar_bad += 1
            if nstar_bad <= 2:
                small = shrink_star(c)
                sig = 'star-names:' + small['inner'] + ' cols=' + repr(small['cols']) + ' rows=' + repr(small['rows'])
                violations.append(core.Violation(
                    'star-special-names', f'over #t {small["cols"]} {small["rows"]}: {star_disagreement(small, run_star_impl(small))}',
                    {'kind': 'star-names', 'case': small, 'impl': run_star_impl(small)}, signature=sig))
    whist = {'base': {}, 'depth': {}, 'level_clause': {}, 'outer_form': {}, 'limit0_only_level': 0, 'q_empty': 0,
             'q_nonempty': 0, 'nonetype_output_column': 0, 'outer_use_rejected_nested_and_materialised': 0,
             'outer_uses_compared': 0, 'fold_compared': 0}
    nwrap_bad = 0
    for c, io in zip(wrapcases, wrap_impl):
        whist['base'][c['base']] = whist['base'].get(c['base'], 0) + 1
        whist['depth'][len(c['wraps'])] = whist['depth'].get(len(c['wraps']), 0) + 1
        for w in c['wraps']:
            k = '+'.join(x for x in (w['distinct'] and 'DISTINCT', w['where'] and 'WHERE ' + w['where'], w['order'] and 'ORDER BY',
                                     w['limit'] is not None and f'LIMIT {w["limit"]}') if x) or 'nothing'
            whist['level_clause'][k] = whist['level_clause'].get(k, 0) + 1
            whist['limit0_only_level'] += k == 'LIMIT 0'
        if io['q_levelwise'][0] == 0:
            whist['q_empty' if not io['q_levelwise'][1] else 'q_nonempty'] += 1
            whist['nonetype_output_column'] += any(t == 'NoneType' for _, t in io['q_levelwise'][2])
        for f, o in io['forms'].items():
            whist['outer_form'][f] = whist['outer_form'].get(f, 0) + 1
            whist['outer_uses_compared'] += 1
            whist['fold_compared'] += 'fold' in o
            whist['outer_use_rejected_nested_and_materialised'] += o['nested'][0] != 0 and o['mat'][0] != 0
        bad = wrap_disagreement(c, io)
        if bad:
            nwrap_bad += 1
            if nwrap_bad <= 3:
                small = shrink_wrap(c)
                sio = run_wrap_impl(small)
                sig = 'wrap:' + (wrap_q_sql(small) or '') + ' params=' + repr(small['params']) + ' forms=' + repr(small['forms']) + ' rows=' + repr(small['rows'])
                violations.append(core.Violation(
                    'identity-wrapper-subquery', f'{wrap_text(small)}: {wrap_disagreement(small, sio)}',
                    {'kind': 'wrap', 'case': small, 'impl': sio}, signature=sig))
    for fn, kind in ((same_type_columns, 'subquery-column-identity'), (nested_in_three_tables, 'nested-in'), (inner_order_kept, 'inner-order'), (look_alike_in_subqueries, 'look-alike-in'),
                     (unique_name_beside_duplicates, 'unique-name-beside-duplicates')):
        nchk, cbad = fn()
        for sql, got, want in cbad[:2]:
            violations.append(core.Violation(kind, f'{sql}: got {got}, expected {want}', {'kind': kind, 'sql': sql, 'got': got, 'want': want},
                                             signature=kind + ':' + sql))
    # SELECT * FROM (q) with duplicate output names in q
    t = impl.make_table('t', [('a', int), ('b', int)], [(1, 2), (3, 4)])
    conn = impl.connection({'t': t})
    for inner in ('SELECT a, a FROM #t', 'SELECT a, b AS a FROM #t', 'SELECT a + 1, a + 1 FROM #t'):
        try:
            want = conn.execute(inner)
            wd, wr = [d.name for d in want.description], want.fetchall()
            got = conn.execute(f'SELECT * FROM ({inner})')
            gd, gr = [d.name for d in got.description], got.fetchall()
            if (wd, wr) != (gd, gr):
                violations.append(core.Violation(
                    'star-duplicate-names', f'SELECT * FROM ({inner}) returns {gd} {gr} but the inner query returns {wd} {wr}',
                    {'kind': 'star-dup', 'inner': inner, 'got': [gd, gr], 'want': [wd, wr]},
                    signature='star-duplicate-names:' + inner))
        except Exception as e:  # noqa: BLE001
            violations.append(core.Violation('star-duplicate-names', f'SELECT * FROM ({inner}) raised {e!r}',
                                             {'kind': 'star-dup', 'inner': inner}, signature='star-duplicate-names:' + inner))
    cov = {
        'evaluations': len(cases) + len(incases) + len(shaped) + len(starcases) + 3 + len(unique_name_beside_duplicates_checks()) + len(wrapcases),
        'identity_wrapper_cases': len(wrapcases), 'identity_wrapper_histograms': whist,
        'identity_wrapper_samples': [wrap_q_sql(c) for c in wrapcases[:5]],
        'identity_wrapper_rule': 'q = 0-3 levels of SELECT [DISTINCT] * FROM (...) [WHERE FALSE|TRUE|a IS NOT NULL] [ORDER BY a] [LIMIT 0|1|2|3] '
                                 '(mostly ONE clause per level, LIMIT 0 weighted) over #t or over SELECT a, <NULL | %s bound to None | %s bound to 5 | b> AS x, b FROM #t; '
                                 'q computed level by level over materialised tables (carrying each level\'s description datatypes) = the clauses folded '
                                 'in Python = q as one nested statement; then 4-7 outer uses of (q) (SELECT *, twice wrapped, count, WHERE, ORDER/LIMIT, '
                                 'DISTINCT, a [NOT] IN (SELECT a FROM (q)) from #t; on the x column: SELECT x, x = 7, x + 1, x IS NULL, count(x), ORDER BY x, '
                                 'x IN (SELECT x FROM (q))): nested vs the same statement over a table holding q\'s rows with q\'s description datatypes '
                                 '(rows, description, accept/reject) and vs Python membership; SELECT * FROM (q) description = q\'s description',
        'star_special_name_cases': len(starcases), 'star_special_name_histograms': sthist,
        'star_special_name_samples': [c['inner'] for c in starcases[len(star_sweep_cases()):len(star_sweep_cases()) + 4]],
        'unique_name_beside_duplicates_checks': len(unique_name_beside_duplicates_checks()), 'distinct_nontrivial': nontrivial,
        'in_shaped_subqueries': len(shaped), 'in_shaped_histograms': shist,
        'in_shaped_samples': [c['sql'] for c in shaped[:4]],
        'rule': 'random nestings (depth 1-3) of plain and aggregate queries (WHERE, GROUP BY with hidden keys, HAVING, ORDER BY with hidden '
                'keys, DISTINCT, LIMIT, aliased outputs), outer queries over the inner output columns, optionally wrapped in SELECT * FROM '
                '(...): nested vs level-by-level materialised vs model; x [NOT] IN (SELECT k FROM #u [WHERE ...]) in targets or WHERE over a '
                'different table with NULLs and empty inner results vs model; x [NOT] IN (shaped subquery: WHERE, ORDER BY visible / hidden column / '
                'hidden expression keys, DISTINCT, LIMIT, GROUP BY with hidden keys, aggregates, read through a FROM-subquery) over few '
                'distinct inner values (duplicates on both sides of the LIMIT cut), in targets (IN and NOT IN side by side) and WHERE, vs model '
                'and vs plain Python membership in the inner statement run on its own; SELECT * FROM (q), SELECT * FROM (SELECT * FROM (q)) '
                'and SELECT <q\'s output names> FROM (q) vs q run on its own (rows, names and datatypes of the description) for plain and '
                'aggregate q whose table columns and output aliases carry names that are special somewhere in beanquery (columns of the '
                'Beancount tables, attributes of the table classes, function names: STAR_NAMES; each name swept once as alias and once as '
                'a bare table column); non-trivial = nested case with source rows and a '
                'non-empty result',
        'samples': [nested_sql(c) for c in cases[:3]] + [c['sql'] for c in incases[:2]],
        'traces_validated_against_impl': len(cases) + len(incases) + len(shaped), 'histograms': hist,
    }
    return {'coverage': cov, 'violations': violations}


def replay(rec):
    if rec.get('kind') == 'in-shaped':
        c = dict(rec['case'])
        for rk, ck in (('rows', 'cols'), ('urows', 'ucols')):
            c[rk] = [tuple(c01._unjson(v, t) for v, (_, t) in zip(r, c[ck])) for r in c[rk]]
        io = run_in_shaped_impl(c)
        m = core.coq_eval('c08r', IMPORTS, [c['coq']])[0]
        return io['nested'] == io['member'] and io['nested'] == m
    if rec.get('kind') == 'star-names':
        c = dict(rec['case'])
        c['cols'] = [tuple(x) for x in c['cols']]
        c['rows'] = [tuple(c01._unjson(v, t) for v, (_, t) in zip(r, c['cols'])) for r in c['rows']]
        return star_disagreement(c, run_star_impl(c)) is None
    if rec.get('kind') == 'wrap':
        c = dict(rec['case'])
        c['cols'] = [tuple(x) for x in c['cols']]
        c['rows'] = [tuple(c01._unjson(v, t) for v, (_, t) in zip(r, c['cols'])) for r in c['rows']]
        return wrap_disagreement(c, run_wrap_impl(c)) is None
    if rec.get('kind') == 'unique-name-beside-duplicates':
        for sql, want, wdesc in unique_name_beside_duplicates_checks():
            if sql == rec['sql']:
                got, gdesc = run_unique_beside_dup(sql)
                return got == want and gdesc == wdesc
    return True
