"""C04: type soundness (announced datatypes are truthful; accepted queries run type-safe).

Correspondence with the model (Model/Typing.v, theorems in Properties/C04.v):
  A. generated expression trees (well typed by construction + single-node ill-typed mutants) compiled by the real
     compiler: the datatype in the cursor description must equal `type_of` (vm_compute), a CompilationError must
     coincide with `type_of = None`, and every delivered cell must inhabit the announced datatype on both sides;
  B. aggregates over small groups: announced dtype and finalised value vs `agg_type` / the fold of the model.
Implementation-only sweeps (c04_sweeps.py), oracle `value is None or isinstance(value, announced)`, no
TypeError/AttributeError at execution, renderer formats every value:
  1. every overload of the live FUNCTIONS / OPERATORS registries x generated arguments (NULL in every position,
     bool for int and Inventory for dict through the MRO, `any` over 13 concrete types), aggregates over groups;
  1b. IN / NOT IN over every pair of operand types (the compiler does not look at them);
  2. every column / attribute path / subscript of every Beancount-backed table over generated ledgers, and every
     overload fed with those columns;
  3. render_text on every result."""
import datetime
import decimal
import os
import random
import time

from . import core, impl, values, exprgen, gen_registry
from . import c04_sweeps as S
from .core import clist
from .exprgen import T_INT, T_DEC, T_STR, T_DATE, T_BOOL, PY, E, mk

D = decimal.Decimal
EXTRA_TARGETS = ['Proofs/RegistryTie.vo', 'Proofs/TypingCastsProofs.vo']
ASSUMPTIONS = [
    'translator tie of the expression-level typing path (C04_source_unaryop / _between / _inop / _binaryop / _function / '
    '_binaryop_terminates, group exprs, harness/vf/src_exprs.py rules X1-X6): PyMini is the semantics of the translated methods; '
    'trusted encodings and primitives in coq/Model/PrimsExprs.v - a class of OPERATORS / FUNCTIONS is a record (registry, name, '
    'position, declared input types) built from the registry snapshot, calling it (primitive "apply") constructs a node with the '
    "overload's declared output type at the address an allocator parameter gives it (the theorems assume the heap holds the nodes the "
    'method constructs; aggregators without dtype take their operand\'s, as EvalAggregator.__init__), calling a node on None yields '
    'an opaque folded value, EvalConstant / EvalCoalesce construct the model\'s NConst(CFold ..) / NCoalesce; CompilationErrors are '
    'told apart by the template of their message; self._compile, types.function_lookup (tied by C04_source_function_lookup), '
    'types.name, EvalConstantSubquery1D are opaque callables assumed to return the model\'s values; `while True` of _binaryop is '
    'unrolled three times, the guard of a fourth pass has no meaning (Stuck) and is proved unreachable',
    'model universe of datatypes: int, Decimal, str, date, bool, object, NoneType; collections, Amount, Position, '
    'Inventory, relativedelta, structured types are covered by the implementation-only sweeps, not by the theorems',
    'has_type of the model is exact (a bool value only under bool/object), which implies isinstance; tables whose int '
    'columns hold bool values are outside the theorems (the sweep feeds bool columns to int parameters instead)',
    'the implicit cast of an object operand of a binary operator is typed by type_of_c / evaluated by eval_c (cast functions = '
    'C18 models of int_/decimal_/date_/str_/bool_); C04_eval_cast_sound assumes the cast functions return NULL or an instance of '
    'their target type (proved for the modelled date/str/bool/int casts and for decimal on non-str arguments; Decimal(str) may be '
    'Infinity/NaN, outside the value universe; sweep 1 checks every cast overload of the implementation); values of cast trees '
    'are compared except under ~ / !~ (a cast Decimal/date text as a regular expression is outside the literal-pattern model); '
    'function calls are typed only for the argument dtypes Eval.apply_func implements',
    'registry snapshot = live registries is re-proved on every run (Proofs/RegistryTie.v); the snapshot lists an '
    'aggregate\'s output type as instantiated on operands of the declared input types',
    'sweeps: ANY exception escaping the execution of an accepted query is reported, except the value errors listed per function '
    'in c04_sweeps.TOLERATED (parse_date on text that is not a date, maxwidth width < 5, splitcomp/grepn index out of range or '
    'empty separator, invalid regular expressions, round beyond the context precision, date_bin with a zero stride, '
    'account_sortkey on text that is not an account), which are counted in the evidence',
    'sweep oracle, collections by kind: set/frozenset interchangeable, list/tuple interchangeable, a dict under the marker '
    'subclass Metadata; a structured type (open, close) announces the beancount directive class of the same name',
    'FROM-subquery stream: an OverflowError of datetime.date arithmetic (the model\'s dates are unbounded) is counted, not compared; '
    'the row order of a subquery with a hidden ORDER BY is not modelled there (rows compared as multisets; order is C08)',
    'set-typed sample values hold str elements only (the set renderer measures len() of the elements)',
    'ledger-sweep statements are built as ASTs (TatSu is too slow for ~2000 statements per ledger); a sample of their '
    'BQL texts is parsed by the real parser on every run and compared with the built ASTs',
]

T_OBJ, T_NULL = 'object', 'null'
TY_CODE = {int: 1, D: 2, str: 3, datetime.date: 4, bool: 5, object: 6, type(None): 7}
COQ_TY = {T_INT: 'TInt', T_DEC: 'TDec', T_STR: 'TStr', T_DATE: 'TDate', T_BOOL: 'TBool', T_OBJ: 'TObject'}
PYT = dict(PY)
PYT[T_OBJ] = object
IMPORTS = ['Base.PyValue', 'Base.Decimal', 'Model.Eval', 'Model.Order', 'Model.Exec', 'Model.Typing', 'Model.TypingCasts']


# ------------------------------------------------------------------ A. expressions

def binop_tag(sym, ta, tb):
    """The constructor of Model/Eval.v that stands for the Python function registered for this operator and these
    operand dtypes (add_ vs add_date_int ...)."""
    if sym == '+':
        return 'BAddDateInt' if (ta, tb) == (T_DATE, T_INT) else 'BAddIntDate' if (ta, tb) == (T_INT, T_DATE) else 'BAdd'
    if sym == '-':
        return 'BSubDateInt' if (ta, tb) == (T_DATE, T_INT) else 'BSubDateDate' if (ta, tb) == (T_DATE, T_DATE) else 'BSub'
    if sym == '/':
        return 'BDivInt' if (ta, tb) == (T_INT, T_INT) else 'BDiv'
    return {'*': 'BMul', '%': 'BMod', '=': 'BEq', '!=': 'BNe', '<': 'BLt', '<=': 'BLe', '>': 'BGt', '>=': 'BGe',
            '~': 'BMatch', '!~': 'BNotMatch'}[sym]


FUNCS = [('abs', 'FAbs', 1), ('neg', 'FNeg', 1), ('safediv', 'FSafediv', 2), ('length', 'FLength', 1), ('upper', 'FUpper', 1),
         ('lower', 'FLower', 1), ('bool', 'FBool', 1), ('int', 'FIntOfDec', 1), ('decimal', 'FDecOfInt', 1), ('substr', 'FSubstr', 3),
         # bld-link: the C18 library constructors (typed and untyped ones: an untyped one must never be typed by the model)
         ('year', 'FYear', 1), ('month', 'FMonth', 1), ('day', 'FDay', 1), ('quarter', 'FQuarter', 1), ('weekday', 'FWeekday', 1),
         ('date_diff', 'FDateDiff', 2), ('date_part', 'FDatePart', 2), ('date', 'FDateYmd', 3), ('date', 'FDate', 1),
         ('str', 'FStr', 1), ('int', 'FInt', 1), ('decimal', 'FDecimal', 1), ('root', 'FRoot', 2), ('root', 'FRoot1', 1),
         ('parent', 'FParent', 1), ('leaf', 'FLeaf', 1), ('round', 'FRoundInt', 2), ('round', 'FRoundInt1', 1)]
ANYT = [T_INT, T_DEC, T_STR, T_DATE, T_BOOL, T_OBJ, T_NULL]


def operand(g, rng, t, depth):
    """A sub-expression of the requested dtype: well-typed tree, object column, or the NULL literal."""
    if t == T_NULL:
        return E('NULL', '(EConst VNull)', T_NULL, ['const:null'])
    if t == T_OBJ:
        i, n = rng.choice(g.objcols)
        return E(n, f'(ECol {i}%nat)', T_OBJ, ['col:object'], 0, [n])
    return g.expr(t, depth)


def gen_mutant(g, rng, depth):
    """One node with freely chosen operand dtypes over well-typed children. Returns (E, kind) where kind tells which
    direction of the accept/reject comparison applies."""
    k = rng.random()
    types = [t for t in ANYT if t != T_OBJ or g.objcols]
    if g.objcols and rng.random() < 0.3:
        types = types + [T_OBJ] * 4          # more object-against-typed operands (implicit cast)
    if k < 0.45:
        sym = rng.choice(['+', '-', '*', '/', '%', '=', '!=', '<', '<=', '>', '>=', '~', '!~'])
        if g.objcols and rng.random() < 0.4:
            # the implicit cast proper: an object column against a typed operand, either side
            a = operand(g, rng, T_OBJ, depth)
            b = operand(g, rng, rng.choice([T_INT, T_INT, T_DEC, T_STR, T_DATE, T_BOOL]), depth)
            if rng.random() < 0.5:
                a, b = b, a
        else:
            a, b = operand(g, rng, rng.choice(types), depth), operand(g, rng, rng.choice(types), depth)
        kind = 'cast' if (a.type == T_OBJ) != (b.type == T_OBJ) else 'binop'
        # the constructor stands for the Python function of the overload chosen AFTER the implicit cast of an object operand
        ta, tb = a.type, b.type
        if kind == 'cast':
            promote = {T_INT: T_DEC}
            ta, tb = (promote.get(tb, tb), tb) if ta == T_OBJ else (ta, promote.get(ta, ta))
        tag = binop_tag(sym, ta, tb)
        return mk(f'({a.text} {sym} {b.text})', f'(EBinary {tag} {a.coq} {b.coq})', None, f'mut:{tag}[{a.type},{b.type}]', a, b), kind
    if k < 0.58:
        a = operand(g, rng, rng.choice(types), depth)
        txt, tag = rng.choice([('(-{})', 'UNeg'), ('(NOT {})', 'UNot'), ('({} IS NULL)', 'UIsNull'), ('({} IS NOT NULL)', 'UIsNotNull')])
        return mk(txt.format(a.text), f'(EUnary {tag} {a.coq})', None, f'mut:{tag}[{a.type}]', a), 'unop'
    if k < 0.68:
        a, lo, hi = (operand(g, rng, rng.choice(types), depth) for _ in range(3))
        return mk(f'({a.text} BETWEEN {lo.text} AND {hi.text})', f'(EBetween {a.coq} {lo.coq} {hi.coq})', None,
                  f'mut:EBetween[{a.type},{lo.type},{hi.type}]', a, lo, hi), 'between'
    if k < 0.86:
        name, tag, n = rng.choice(FUNCS)
        args = [operand(g, rng, rng.choice(types), depth) for _ in range(n)]
        return mk(f'{name}({", ".join(a.text for a in args)})', f'(EFunc {tag} {clist([a.coq for a in args])})', None,
                  f'mut:{tag}[{",".join(a.type for a in args)}]', *args), 'func'
    if k < 0.94:
        args = [operand(g, rng, rng.choice(types), depth) for _ in range(rng.randint(1, 3))]
        return mk(f'coalesce({", ".join(a.text for a in args)})', f'(ECoalesce {clist([a.coq for a in args])})', None,
                  f'mut:ECoalesce[{",".join(a.type for a in args)}]', *args), 'coalesce'
    kw, tag = rng.choice([('AND', 'EAnd'), ('OR', 'EOr')])
    args = [operand(g, rng, rng.choice(types), depth) for _ in range(rng.randint(2, 3))]
    return mk('(' + f' {kw} '.join(a.text for a in args) + ')', f'({tag} {clist([a.coq for a in args])})', None,
              f'mut:{tag}[{",".join(a.type for a in args)}]', *args), 'boolop'


OBJ_POOL = [1, 'a', D('2.5'), datetime.date(2020, 1, 1), True, 0, '']


def obj_to_coq(v):
    return values.to_coq(v)


def gen_case(rng, depth):
    ncols = rng.randint(3, 7)
    types = [rng.choice(exprgen.ALL_TYPES + [T_OBJ]) for _ in range(ncols)]
    cols = [(n, t) for n, t in zip('abcdefg', types)]
    null_p = rng.choice([0.0, 0.2, 0.4])
    nrows = rng.choice([1, 2, 3, 5])
    rows = []
    for _ in range(nrows):
        r = []
        for _, t in cols:
            if t == T_OBJ:
                r.append(None if rng.random() < null_p else rng.choice(OBJ_POOL))
            else:
                r.append(values.gen_value(rng, PY[t], null_p))
        rows.append(tuple(r))
    g = exprgen.Gen(rng, cols, max_depth=depth, lib=True)
    # exprgen skips object columns; they are only reachable through `operand`
    g.objcols = [(i, n) for i, (n, t) in enumerate(cols) if t == T_OBJ]
    if rng.random() < 0.5:
        e = g.expr(rng.choice(exprgen.ALL_TYPES))
        kind = 'welltyped'
    else:
        e, kind = gen_mutant(g, rng, max(depth - 1, 0))
        if rng.random() < 0.2:
            e = mk(f'(NOT {e.text})', f'(EUnary UNot {e.coq})', None, 'wrap:UNot', e)
    return {'cols': cols, 'rows': rows, 'text': e.text, 'coq': e.coq, 'gen_type': e.type, 'kind': kind,
            'ops': sorted(set(e.ops)), 'depth': e.depth}


def gen_coalesce_matrix(rng, quick):
    """Directed (round 8, seed C04-m15): coalesce() over EVERY ordered pair of operand datatypes and (a sample of) the
    triples, plain operands (column / constant / NULL literal), on one table with NULLs in every column: the compiler must
    accept exactly the uniformly typed ones and announce that type."""
    import itertools
    cols = [('a', T_INT), ('b', T_DEC), ('c', T_STR), ('d', T_DATE), ('e', T_BOOL), ('f', T_OBJ), ('g', T_INT), ('h', T_DEC)]
    out = []
    triples = list(itertools.product(ANYT, repeat=3))
    if quick:
        triples = rng.sample(triples, 90)
    for tys in list(itertools.product(ANYT, repeat=2)) + triples:
        rows = []
        for _ in range(3):
            rows.append(tuple((None if rng.random() < 0.45 else rng.choice(OBJ_POOL)) if t == T_OBJ
                              else values.gen_value(rng, PY[t], 0.45) for _, t in cols))
        g = exprgen.Gen(rng, cols, max_depth=0, lib=True)
        g.objcols = [(i, n) for i, (n, t) in enumerate(cols) if t == T_OBJ]
        args = [operand(g, rng, t, 0) for t in tys]
        e = mk(f'coalesce({", ".join(a.text for a in args)})', f'(ECoalesce {clist([a.coq for a in args])})', None,
               f'mut:ECoalesce[{",".join(a.type for a in args)}]', *args)
        out.append({'cols': cols, 'rows': rows, 'text': e.text, 'coq': e.coq, 'gen_type': e.type, 'kind': 'coalesce',
                    'ops': sorted(set(e.ops)), 'depth': e.depth})
    return out


def statement(c):
    return f'SELECT {c["text"]} AS r FROM #t'


def run_impl(c):
    """-> ['rejected', msg] | ['ok', type code, [cell conforms?...]] | ['exception', class, msg]"""
    t = impl.make_table('t', [(n, PYT[ty]) for n, ty in c['cols']], c['rows'])
    conn = impl.connection({'t': t})
    try:
        curs = conn.execute(statement(c))
        rows = curs.fetchall()
        dt = curs.description[0].datatype
    except impl.beanquery.CompilationError as e:
        return ['rejected', str(e)[:150]]
    except Exception as e:  # noqa: BLE001
        return ['exception', type(e).__name__, str(e)[:150]]
    return ['ok', TY_CODE.get(dt, 'other:' + getattr(dt, '__name__', str(dt))), [int(S.conforms(r[0], dt)) for r in rows],
            [values.canon(r[0]) for r in rows]]


def model_expr(c):
    """[[type], [[flag] per row]] of the cast-aware typing, and the values of the compiled tree per row."""
    cols = clist([COQ_TY[t] for _, t in c['cols']])
    rows = values.rows_to_coq(c['rows'])
    return f'OL [typing_c_out {cols} [{c["coq"]}] {rows}; eval_c_out {cols} {c["coq"]} {rows}]'


def model_many(cases, tag='c04'):
    out = core.coq_eval(tag, IMPORTS, [model_expr(c) for c in cases], shard=200)
    res = []
    for o in out:
        (tys, flags), vals = o
        ty = tys[0][0] if tys[0] else None
        res.append((ty, [f[0] for f in flags], vals))
    return res


def compare(c, i, m):
    """None if implementation and model agree on this case, else a description."""
    mty, mflags, mvals = m
    if i[0] == 'exception':
        if mty is not None:
            return f'typed by the model ({mty}) but the implementation raised {i[1]}: {i[2]}'
        return f'implementation raised {i[1]} instead of CompilationError: {i[2]}' if i[1] in ('TypeError', 'AttributeError') else None
    if i[0] == 'rejected':
        if mty is not None:
            return f'model types the expression ({mty}) but the compiler rejects it: {i[1]}'
        return None
    _, ity, iflags, ivals = i
    if mty is None:
        if c['kind'] == 'func':
            return None      # outside the model by construction (another overload of the same function name)
        return f'compiler accepts with datatype code {ity} but the model finds no overload (type_of = None)'
    if ity != mty:
        return f'announced datatype code {ity} differs from the model\'s {mty}'
    if not all(iflags):
        return 'a delivered value is not an instance of the announced datatype'
    if not all(f == 1 for f in mflags):
        return 'the model value does not inhabit the model type'
    if c['kind'] == 'cast' and '~' not in c['text'] and ivals != mvals:
        return f'values {ivals} differ from the compiled-tree model (eval_c with the implicit cast) {mvals}'
    return None


def shrink_rows(c, fails):
    rows = list(c['rows'])
    while len(rows) > 1:
        for k in range(len(rows)):
            cand = dict(c, rows=rows[:k] + rows[k + 1:])
            if fails(cand):
                rows = cand['rows']
                break
        else:
            break
    return dict(c, rows=rows)


# ------------------------------------------------------------------ A'. description of several targets, hidden ones included

def gen_desc_case(rng, depth):
    c = None
    while c is None or c['kind'] != 'welltyped':
        c = gen_case(rng, depth)
    # exprgen numbers columns by position in the list it was given: keep the full list so ECol indexes stay right
    g = exprgen.Gen(rng, c['cols'], max_depth=depth, lib=True)
    targets, texts = [], set()
    for k in range(rng.randint(1, 4)):
        e = g.expr(rng.choice(exprgen.ALL_TYPES))
        if e.text in texts:
            continue
        texts.add(e.text)
        alias = f'n{k}' if rng.random() < 0.5 else None
        targets.append((e.text, e.coq, alias))
    hidden = []
    if rng.random() < 0.6:
        for _ in range(rng.randint(1, 2)):
            e = g.expr(rng.choice([T_INT, T_STR, T_DATE, T_DEC]))
            if e.text not in texts and e.depth >= 1:
                texts.add(e.text)
                hidden.append((e.text, e.coq))
    return dict(c, targets=targets, hidden=hidden)


def desc_statement(c):
    s = 'SELECT ' + ', '.join(t + (f' AS {a}' if a else '') for t, _, a in c['targets']) + ' FROM #t'
    if c['hidden']:
        s += ' ORDER BY ' + ', '.join(t for t, _ in c['hidden'])
    return s


def run_desc_impl(c):
    t = impl.make_table('t', [(n, PYT[ty]) for n, ty in c['cols']], c['rows'])
    conn = impl.connection({'t': t})
    try:
        curs = conn.execute(desc_statement(c))
        rows = curs.fetchall()
    except Exception as e:  # noqa: BLE001
        return ['exception', type(e).__name__, str(e)[:150]]
    ok = all(S.conforms(v, col.datatype) for r in rows for v, col in zip(r, curs.description)) and \
        all(len(r) == len(curs.description) for r in rows)
    return ['ok', [[[ord(ch) for ch in (col.name or '')], TY_CODE.get(col.datatype, -1)] for col in curs.description], int(ok)]


def target_name(text):
    """get_target_name: the source text of the expression node; the grammar's `'(' @:expression ')'` leaves the
    parentheses out of the node's span."""
    if text.startswith('(') and text.endswith(')'):
        depth = 0
        for k, ch in enumerate(text):
            depth += ch == '('
            depth -= ch == ')'
            if depth == 0:
                return text[1:-1] if k == len(text) - 1 else text
    return text


def desc_model_expr(c):
    cols = clist([COQ_TY[t] for _, t in c['cols']])
    ts = [f'({coq}, Some {core.cstr(a or target_name(t))})' for t, coq, a in c['targets']] + [f'({coq}, None)' for _, coq in c['hidden']]
    return f'description_out {cols} {clist(ts)}'


def desc_compare(c, i, m):
    if i[0] == 'exception':
        return f'implementation raised {i[1]}: {i[2]}'
    if not m:
        return 'the model does not type a target the compiler accepts'
    if i[1] != m[0]:
        return f'cursor description {i[1]} differs from the (name, dtype) of the visible targets in order {m[0]}'
    if not i[2]:
        return 'a delivered cell does not inhabit the datatype announced at its position'
    return None


# ------------------------------------------------------------------ A''. FROM-subqueries (fix-D)
# A query over `FROM (SELECT ...)` announces, for a subquery column, the datatype of the inner target of that name
# (SubqueryTable) and has to deliver that target's values.  Layers of SELECTs are generated bottom-up: layer 0 over
# the table, layer j+1 over the visible columns of layer j (datatypes differ between the columns by construction,
# the enclosing query reads them in another order, through expressions, through `*`, under WHERE, under an
# aggregate; inner layers may carry hidden ORDER BY targets, which are not columns of the subquery table).
# Model: description of layer j+1 = `description_out <types of layer j> <targets of j+1>` (and the model's own
# description of layer j must be those types); values = the outer expression with every column reference replaced
# by the inner target it names, evaluated over the TABLE rows (eval_c_out) - no subquery machinery on that side.

import re as _re

_ECOL = _re.compile(r'\(ECol (\d+)%nat\)')
SUBQ_NAMES = ['p', 'q', 'u']
TCODE = {T_INT: 1, T_DEC: 2, T_STR: 3, T_DATE: 4, T_BOOL: 5}


def _subst(coq, prev):
    return _ECOL.sub(lambda m: prev[int(m.group(1))], coq)


def gen_subq_case(rng, depth):
    c = None
    while c is None or c['kind'] != 'welltyped' or not any(t != T_OBJ for _, t in c['cols']):
        c = gen_case(rng, depth)
    cols = [(n, t) for n, t in c['cols']]
    nlayers = rng.choice([2, 2, 2, 3])
    shape = rng.choice(['exprs', 'exprs', 'permute', 'star', 'where', 'agg'])
    layers = []
    cur = cols                       # columns visible to the layer being generated [(name, type)]
    for j in range(nlayers):
        outer = j == nlayers - 1
        g = exprgen.Gen(rng, cur, max_depth=depth, lib=True)
        L = {'targets': [], 'hidden': [], 'where': None, 'star': False, 'agg': None}
        typed = [(i, n, t) for i, (n, t) in enumerate(cur) if t != T_OBJ]
        if not outer:
            # 2-5 visible columns, datatypes cycling through a shuffled list so that neighbours differ
            order = rng.sample(exprgen.ALL_TYPES, len(exprgen.ALL_TYPES))
            k = rng.randint(2, 5)
            names = set()
            for x in range(k):
                t = order[x % len(order)]
                if j > 0 and rng.random() < 0.6 and any(tt == t for _, _, tt in typed):
                    e = g.col(t)
                else:
                    e = g.expr(t, rng.randint(0, depth))
                plain = e.depth == 0 and e.cols and rng.random() < 0.5
                name = e.text if plain else f'{SUBQ_NAMES[j]}{x}'
                if name in names:
                    continue
                names.add(name)
                L['targets'].append([e.text, e.coq, None if plain else name, name, e.type])
            if len(L['targets']) < 2:
                e = g.expr(rng.choice(exprgen.ALL_TYPES), 1)
                L['targets'].append([e.text, e.coq, f'{SUBQ_NAMES[j]}9', f'{SUBQ_NAMES[j]}9', e.type])
            if rng.random() < 0.3:
                e = g.expr(rng.choice([T_INT, T_STR, T_DATE, T_DEC]), 1)
                if e.depth >= 1 and e.text not in {t[0] for t in L['targets']}:
                    L['hidden'].append([e.text, e.coq])
            if rng.random() < 0.2:
                w = g.expr(T_BOOL, 1)
                L['where'] = [w.text, w.coq]
        elif shape == 'star':
            L['star'] = True
            L['targets'] = [[n, f'(ECol {i}%nat)', None, n, t] for i, (n, t) in enumerate(cur)]
        elif shape == 'permute':
            idx = list(range(len(cur)))
            rng.shuffle(idx)
            idx = idx[:rng.randint(1, len(idx))]
            if len(cur) > 1 and idx == [len(cur) - 1]:
                idx = [0]
            L['targets'] = [[cur[i][0], f'(ECol {i}%nat)', None, cur[i][0], cur[i][1]] for i in idx]
        elif shape == 'agg':
            e = g.expr(rng.choice([t for _, _, t in typed]), rng.randint(0, 1))
            name, tag = rng.choice(AGGS)
            L['agg'] = [name, tag]
            L['targets'] = [[e.text, e.coq, 'r', 'r', e.type]]
        else:
            texts = set()
            for x in range(rng.randint(1, 3)):
                t = rng.choice([tt for _, _, tt in typed] + exprgen.ALL_TYPES)
                e = g.expr(t, rng.randint(0, depth))
                if e.text in texts:
                    continue
                texts.add(e.text)
                alias = f'r{x}' if (rng.random() < 0.5 or not e.cols) else None
                L['targets'].append([e.text, e.coq, alias, alias or target_name(e.text), e.type])
            if shape == 'where':
                w = g.expr(T_BOOL, rng.randint(1, 2))
                L['where'] = [w.text, w.coq]
        layers.append(L)
        cur = [(t[3], t[4]) for t in L['targets']]
    if shape == 'agg':
        for L in layers:
            L['hidden'], L['where'] = [], None       # first/last depend on the order, the fold runs over all rows
    return {'cols': cols, 'rows': c['rows'], 'layers': layers, 'shape': shape, 'depth': depth}


def _layer_sql(L, source):
    if L['star']:
        sel = '*'
    elif L['agg']:
        sel = f'{L["agg"][0]}({L["targets"][0][0]}) AS r'
    else:
        sel = ', '.join(t[0] + (f' AS {t[2]}' if t[2] else '') for t in L['targets'])
    s = f'SELECT {sel} FROM {source}'
    if L['where']:
        s += f' WHERE {L["where"][0]}'
    if L['hidden']:
        s += ' ORDER BY ' + ', '.join(h[0] for h in L['hidden'])
    return s


def subq_statement(c):
    s = _layer_sql(c['layers'][0], '#t')
    for L in c['layers'][1:]:
        s = _layer_sql(L, f'({s})')
    return s


def run_subq_impl(c):
    t = impl.make_table('t', [(n, PYT[ty]) for n, ty in c['cols']], c['rows'])
    conn = impl.connection({'t': t})
    try:
        curs = conn.execute(subq_statement(c))
        rows = curs.fetchall()
    except impl.beanquery.CompilationError as e:
        return ['rejected', str(e)[:150]]
    except Exception as e:  # noqa: BLE001
        return ['exception', type(e).__name__, str(e)[:150]]
    desc = curs.description
    ok = all(len(r) == len(desc) for r in rows) and all(S.conforms(v, col.datatype) for r in rows for v, col in zip(r, desc))
    return ['ok', [[[ord(ch) for ch in (col.name or '')], TY_CODE.get(col.datatype, -1)] for col in desc], int(ok),
            [[values.canon(v) for v in r] for r in rows]]


def subq_model_expr(c):
    """OL [descriptions per layer; values of the outer targets per table row; values of every WHERE per table row]"""
    tys = clist([COQ_TY[t] for _, t in c['cols']])
    rows = values.rows_to_coq(c['rows'])
    descs, wheres = [], []
    prev = None                      # coq of the previous layer's visible columns, over the TABLE columns
    for L in c['layers']:
        ts = [f'({t[1]}, Some {core.cstr(t[3])})' for t in L['targets']] + [f'({h[1]}, None)' for h in L['hidden']]
        descs.append(f'description_out {tys} {clist(ts)}')
        if L['where']:
            wheres.append(f'eval_c_out {base_tys(c)} {L["where"][1] if prev is None else _subst(L["where"][1], prev)} {rows}')
        prev = [t[1] if prev is None else _subst(t[1], prev) for t in L['targets']]
        tys = clist([COQ_TY[t[4]] for t in L['targets']])
    if c['layers'][-1]['agg']:
        tag = c['layers'][-1]['agg'][1]
        if tag == 'ASum':
            tag = f'(ASum {"(VDec (mkdec false 0 0))" if c["layers"][-1]["targets"][0][4] == T_DEC else "(VInt 0)"})'
        vals = f'agg_typing_out {base_tys(c)} {{| afun := {tag}; aarg := {prev[0]} |}} {rows}'
    else:
        vals = clist([f'eval_c_out {base_tys(c)} {e} {rows}' for e in prev])
        vals = f'OL {vals}'
    return f'OL [OL {clist(descs)}; {vals}; OL {clist(wheres)}]'


def base_tys(c):
    return clist([COQ_TY[t] for _, t in c['cols']])


def subq_compare(c, i, m):
    mdescs, mvals, mwheres = m
    layers = c['layers']
    if i[0] == 'rejected' and layers[-1]['agg'] and all(mdescs) and not mvals[0]:
        return None                  # an aggregate without an overload for that datatype: rejected on both sides
    if i[0] == 'exception' and i[1] == 'OverflowError':
        return None                  # datetime.date / timedelta range: the model's dates are unbounded (counted in the evidence)
    if i[0] in ('exception', 'rejected'):
        return f'implementation {"raised " + i[1] + ": " + i[2] if i[0] == "exception" else "rejects: " + i[1]}'
    # the model's own description of every layer = the (name, type) the next layer was generated over
    for L, d in zip(layers, mdescs):
        if not d:
            return 'the model does not type a layer the generator built well typed'
        want = [[[ord(ch) for ch in t[3]], TCODE[t[4]]] for t in L['targets']]
        if not L['agg'] and d[0] != want:
            return f'harness: the model describes a layer as {d[0]}, generated as {want}'
    _, idesc, iok, irows = i
    if not iok:
        return 'a delivered cell does not inhabit the datatype announced at its position'
    if layers[-1]['agg']:
        mty = mvals[0][0] if mvals[0] else None
        if mty is None:
            return 'the model does not type the aggregate the compiler accepts'
        if [d[1] for d in idesc] != [mty]:
            return f'announced datatype code {[d[1] for d in idesc]} differs from the model\'s {mty}'
        got = irows[0][0] if irows else None
        if got is not None and got != mvals[2]:
            return f'finalised value {got} differs from the model fold over the substituted expression {mvals[2]}'
        return None
    if idesc != mdescs[-1][0]:
        return f'cursor description {idesc} differs from the (name, dtype) of the outer targets over the subquery columns {mdescs[-1][0]}'
    keep = [all(w[r] == [1, 1] for w in mwheres) for r in range(len(c['rows']))]
    want = [[col[r] for col in mvals] for r in range(len(c['rows'])) if keep[r]]
    if any(L['hidden'] for L in layers):
        irows, want = sorted(irows, key=repr), sorted(want, key=repr)
    if irows != want:
        return f'rows {irows} differ from the outer expressions over the inner targets evaluated on the table rows {want}'
    return None


def subq_model_many(cases, tag='c04q'):
    return core.coq_eval(tag, IMPORTS, [subq_model_expr(c) for c in cases], shard=100)


# ------------------------------------------------------------------ B. aggregates

AGGS =[('count', 'ACount'), ('sum', 'ASum'), ('first', 'AFirst'), ('last', 'ALast'), ('min', 'AMin'), ('max', 'AMax')]


def gen_agg_case(rng, depth):
    c = None
    while c is None or c['kind'] != 'welltyped':
        c = gen_case(rng, depth)
    # regenerate rows (more of them, groups matter here)
    nrows = rng.choice([0, 1, 2, 4, 7])
    null_p = rng.choice([0.0, 0.3, 0.7])
    rows = []
    for _ in range(nrows):
        rows.append(tuple((None if rng.random() < null_p else rng.choice(OBJ_POOL)) if t == T_OBJ
                          else values.gen_value(rng, PY[t], null_p) for _, t in c['cols']))
    name, tag = rng.choice(AGGS)
    if rng.random() < 0.1:
        name, tag = 'countstar', 'ACountStar'
    c = dict(c, rows=rows, agg=name, tag=tag)
    return c


def agg_statement(c):
    if c['agg'] == 'countstar':
        return 'SELECT count(*) AS r FROM #t'
    return f'SELECT {c["agg"]}({c["text"]}) AS r FROM #t'


def run_agg_impl(c):
    t = impl.make_table('t', [(n, PYT[ty]) for n, ty in c['cols']], c['rows'])
    conn = impl.connection({'t': t})
    try:
        curs = conn.execute(agg_statement(c))
        rows = curs.fetchall()
        dt = curs.description[0].datatype
    except impl.beanquery.CompilationError as e:
        return ['rejected', str(e)[:150]]
    except Exception as e:  # noqa: BLE001
        return ['exception', type(e).__name__, str(e)[:150]]
    v = rows[0][0] if rows else None
    return ['ok', TY_CODE.get(dt, 'other'), int(S.conforms(v, dt)), values.canon(v) if rows else None]


def agg_model_expr(c):
    cols = clist([COQ_TY[t] for _, t in c['cols']])
    tag = c['tag']
    if tag == 'ASum':
        zero = '(VDec (mkdec false 0 0))' if c['gen_type'] == T_DEC else '(VInt 0)'
        tag = f'(ASum {zero})'
    return f'agg_typing_out {cols} {{| afun := {tag}; aarg := {c["coq"]} |}} {values.rows_to_coq(c["rows"])}'


def agg_compare(c, i, m):
    mty = m[0][0] if m[0] else None
    mflag, mval = m[1], m[2]
    if i[0] == 'exception':
        return f'implementation raised {i[1]}: {i[2]}' if (mty is not None or i[1] in ('TypeError', 'AttributeError')) else None
    if i[0] == 'rejected':
        return f'model types the aggregate ({mty}) but the compiler rejects it: {i[1]}' if mty is not None else None
    _, ity, iflag, ival = i
    if mty is None:
        return f'compiler accepts {agg_statement(c)} with datatype code {ity}, the model finds no overload'
    if ity != mty:
        return f'announced datatype code {ity} differs from the model\'s {mty}'
    if not iflag:
        return 'the finalised aggregate is not an instance of the announced datatype'
    if mflag != 1:
        return 'model aggregate value does not inhabit the model type'
    if ival is not None and ival != mval:
        return f'finalised value {ival} differs from the model fold {mval}'
    return None


# ---- G (fix-J): grouped statements through the aggregate branch of execute_select and the PIVOT BY branch of execute_query. Two families
# the description-vs-value oracle had never seen: (dup) a grouping target referenced more than once in GROUP BY (expression + position,
# twice by name, ...) FOLLOWED by further grouping targets of a different datatype; (pivot) an aggregate query grouped by two columns
# and PIVOT BY them (by name / position), NULLs in the first and in the second pivot column, 1-2 remaining columns. Oracles: every cell
# is None or an instance of the announced datatype; no exception; render_text formats the result; (dup) the rows are those of the same
# statement with every grouping target referenced once; (pivot) the table is the plain-Python pivot of the rows of the same
# statement without PIVOT BY (when no two of its rows share the pair of pivot values).
GROUP_KEY_EXPRS = {T_INT: ['{0}', '{0}', '({0} + 1)'], T_STR: ['{0}', '{0}', 'length({0})', 'upper({0})'],
                   T_DATE: ['{0}', '{0}', 'year({0})'], T_DEC: ['{0}'], T_BOOL: ['{0}']}
GROUP_TYPES = [T_INT, T_DEC, T_STR, T_DATE, T_BOOL]


def gen_group_case(rng, shape=None):
    shape = shape or rng.choice(['dup', 'dup', 'pivot', 'pivot', 'plain'])
    while True:
        ncols = rng.randint(3, 5)
        cols = [(n, rng.choice(GROUP_TYPES)) for n in 'abcde'[:ncols]]
        if len({t for _, t in cols}) >= 3:
            break
    null_p = rng.choice([0.15, 0.3, 0.5])
    nrows = rng.choice([2, 3, 5, 8, 12])
    rows = [tuple(values.gen_value(rng, PY[t], null_p) for _, t in cols) for _ in range(nrows)]
    nkeys = 2 if shape == 'pivot' else rng.choice([2, 3, 3])
    kcols = rng.sample(cols, nkeys)
    keys = []
    for n, t in kcols:
        text = rng.choice(GROUP_KEY_EXPRS[t]).format(n)
        alias = f'k{len(keys)}' if (text != n and shape == 'pivot') or rng.random() < 0.3 else None
        keys.append({'text': text, 'alias': alias, 'name': alias or (n if text == n else None), 'key': True})
    aggs = []
    for j in range(rng.choice([1, 1, 2])):
        n, t = rng.choice(cols)
        fns = ['count', 'first', 'last', 'min', 'max'] + (['sum'] if t in (T_INT, T_DEC) else [])
        text = rng.choice(['count(*)', f'{rng.choice(fns)}({n})', f'{rng.choice(fns)}({n})'])
        aggs.append({'text': text, 'alias': f'v{j}', 'name': f'v{j}', 'key': False})
    targets = keys + aggs
    if rng.random() < 0.5:
        rng.shuffle(targets)
    tl = ', '.join(t['text'] + (f' AS {t["alias"]}' if t['alias'] else '') for t in targets)

    def ref(i, t, form=None):
        form = form or rng.choice(['pos', 'name', 'expr'])
        if form == 'name' and t['name']:
            return t['name']
        return str(i + 1) if form == 'pos' else t['text']
    kidx = [i for i, t in enumerate(targets) if t['key']]
    once = [str(i + 1) for i in kidx]
    items = [ref(i, targets[i]) for i in kidx]
    ndup = 0
    if shape == 'dup':
        # the duplicated target is NOT the last grouping target (in target order): further grouping columns follow it
        for _ in range(rng.choice([1, 1, 2])):
            i = rng.choice(kidx[:-1])
            items.insert(rng.randrange(len(items) + 1), ref(i, targets[i]))
            ndup += 1
        if rng.random() < 0.5:
            rng.shuffle(items)
    head = f'SELECT {tl} FROM #t'
    order = ''
    if rng.random() < 0.3:
        order = f' ORDER BY {rng.choice(kidx) + 1}'
    c = {'group': True, 'shape': shape, 'cols': cols, 'rows': rows, 'ndup': ndup, 'pivot': None,
         'key_types': [t for _, t in kcols], 'nother': len(targets) - 2,
         'sql': f'{head} GROUP BY {", ".join(items)}{order}', 'ref_sql': f'{head} GROUP BY {", ".join(once)}{order}'}
    if shape == 'pivot':
        p1, p2 = kidx if rng.random() < 0.5 else kidx[::-1]
        refs = [str(i + 1) if rng.random() < 0.5 else targets[i]['name'] for i in (p1, p2)]
        c['pivot'] = [p1, p2]
        c['sql'] += f' PIVOT BY {refs[0]}, {refs[1]}'
    return c


def _nullkey(v):
    return (v is not None, v)


def run_group_case(c):
    """-> {'status', 'fails': [{'class', 'value'}], 'cells', 'null_label', 'null_second'}"""
    res = {'status': 'ok', 'fails': [], 'cells': 0, 'null_label': 0, 'null_second': 0, 'out_rows': 0}
    t = impl.make_table('t', [(n, PYT[ty]) for n, ty in c['cols']], c['rows'])
    conn = impl.connection({'t': t})
    try:
        cur = conn.execute(c['sql'])
        rows = cur.fetchall()
        desc = cur.description
    except impl.beanquery.CompilationError as e:
        res['status'] = 'rejected'
        res['reject'] = str(e)[:120]
        return res
    except Exception as e:  # noqa: BLE001
        res['status'] = 'exception'
        res['fails'].append({'class': f'raises:{type(e).__name__}', 'value': str(e)[:200]})
        return res
    res['out_rows'] = len(rows)
    fails = []
    res['cells'] = S.check_result(desc, rows, fails, c['sql'], None)
    for f in fails[:3]:
        res['fails'].append({'class': f['class'], 'value': f['value']})
    r = S.render_check(desc, rows)
    if r is not None:
        res['fails'].append({'class': 'render:' + r.split(':')[0], 'value': r})
    try:
        ref = conn.execute(c['ref_sql']).fetchall()
    except Exception as e:  # noqa: BLE001
        res['fails'].append({'class': f'reference-statement-raises:{type(e).__name__}', 'value': str(e)[:200]})
        return res
    if c['pivot'] is None:
        if [tuple(r) for r in rows] != [tuple(r) for r in ref]:
            res['fails'].append({'class': 'rows-differ-from-statement-with-each-grouping-target-referenced-once',
                                 'value': f'{rows!r} vs {ref!r}'[:300]})
        return res
    p1, p2 = c['pivot']
    n = len(ref[0]) if ref else 0
    other = [i for i in range(n) if i not in (p1, p2)]
    res['null_label'] = int(any(r[p1] is None for r in ref))
    res['null_second'] = int(any(r[p2] is None for r in ref))
    if len({(r[p1], r[p2]) for r in ref}) == len(ref):
        ks = sorted({r[p2] for r in ref}, key=_nullkey)
        labels = sorted({r[p1] for r in ref}, key=_nullkey)
        cell = {(r[p1], r[p2]): tuple(r[i] for i in other) for r in ref}
        want = [(lab,) + sum((cell.get((lab, k), (None,) * len(other)) for k in ks), ()) for lab in labels]
        got = [tuple(r) for r in rows]
        if got != want or any(type(a) is not type(b) for ra, rb in zip(got, want) for a, b in zip(ra, rb)):
            res['fails'].append({'class': 'pivot-table-differs-from-the-pivot-of-the-grouped-rows', 'value': f'{got!r} vs {want!r}'[:300]})
    return res


# ------------------------------------------------------------------ run

def _sig_overload(sig, cls):
    return f'overload:{sig}:{cls}'


def run(tier, rng):
    quick = tier == 'quick'
    violations = []
    cov = {}

    t0 = time.time()

    def lap(what):
        core.log(f'[C04] {what}: {time.time() - t0:.1f}s')
    # ---- A
    n = 1200 if quick else 12000
    depth = 3 if quick else 4
    cases = [gen_case(rng, rng.randint(1, depth)) for _ in range(n)]
    cmx = gen_coalesce_matrix(random.Random(rng.random()), quick)
    cov['coalesce_operand_type_matrix_cases'] = len(cmx)
    cases += cmx
    impl_out = core.pmap(run_impl, cases)
    model_out = model_many(cases)
    kinds, outcomes, ophist = {}, {}, {}
    seen = set()
    nontrivial = set()
    for c, i, m in zip(cases, impl_out, model_out):
        kinds[c['kind']] = kinds.get(c['kind'], 0) + 1
        oc = i[0] + ('/typed' if m[0] is not None else '/untyped')
        outcomes[oc] = outcomes.get(oc, 0) + 1
        for o in c['ops']:
            ophist[o] = ophist.get(o, 0) + 1
        if c['depth'] >= 1:
            nontrivial.add(c['text'] + repr(c['cols']))
        why = compare(c, i, m)
        if why and len(seen) < 3:
            small = shrink_rows(c, lambda x: compare(x, run_impl(x), model_many([x], tag='c04s')[0]) is not None)
            sig = 'typing:' + statement(small) + ' cols=' + repr(small['cols'])
            if sig in seen:
                continue
            seen.add(sig)
            violations.append(core.Violation(
                'typing-model', f'{statement(small)} over {small["cols"]} rows {small["rows"]}: {why}',
                {'case': small, 'impl': run_impl(small), 'model': model_many([small], tag='c04s')[0]}, signature=sig))
    lap('A done')
    # ---- A'
    nd = 250 if quick else 3000
    dcases = [gen_desc_case(rng, rng.randint(0, 2)) for _ in range(nd)]
    dimpl = core.pmap(run_desc_impl, dcases)
    dmodel = core.coq_eval('c04d', IMPORTS, [desc_model_expr(c) for c in dcases], shard=200)
    dseen = set()
    desc_hist = {'targets': {}, 'hidden': {}, 'aliased': 0}
    for c, i, m in zip(dcases, dimpl, dmodel):
        desc_hist['targets'][len(c['targets'])] = desc_hist['targets'].get(len(c['targets']), 0) + 1
        desc_hist['hidden'][len(c['hidden'])] = desc_hist['hidden'].get(len(c['hidden']), 0) + 1
        desc_hist['aliased'] += sum(1 for t in c['targets'] if t[2])
        why = desc_compare(c, i, m)
        if why and len(dseen) < 3:
            sig = 'description:' + desc_statement(c) + ' cols=' + repr(c['cols'])
            dseen.add(sig)
            violations.append(core.Violation('description-model', f'{desc_statement(c)} over {c["cols"]}: {why}',
                                             {'case': c, 'impl': i, 'model': m, 'desc': True}, signature=sig))
    lap('A2 done')
    # ---- A'': FROM-subqueries
    nq = 400 if quick else 4000
    qcases = [gen_subq_case(rng, rng.randint(0, 2)) for _ in range(nq)]
    qimpl = core.pmap(run_subq_impl, qcases)
    qmodel = subq_model_many(qcases)
    qseen = set()
    subq_hist = {'shape': {}, 'layers': {}, 'inner_columns': {}, 'inner_hidden_order_by': 0, 'where': 0,
                 'outer_reads_non_last_column_of_other_type': 0, 'rows_compared': 0, 'outcomes': {}}
    for c, i, m in zip(qcases, qimpl, qmodel):
        subq_hist['shape'][c['shape']] = subq_hist['shape'].get(c['shape'], 0) + 1
        subq_hist['layers'][len(c['layers'])] = subq_hist['layers'].get(len(c['layers']), 0) + 1
        nin = len(c['layers'][-2]['targets'])
        subq_hist['inner_columns'][nin] = subq_hist['inner_columns'].get(nin, 0) + 1
        subq_hist['inner_hidden_order_by'] += any(L['hidden'] for L in c['layers'][:-1])
        subq_hist['where'] += any(L['where'] for L in c['layers'])
        inner = c['layers'][-2]['targets']
        used = {int(x) for t in c['layers'][-1]['targets'] for x in _ECOL.findall(t[1])}
        subq_hist['outer_reads_non_last_column_of_other_type'] += any(k < len(inner) - 1 and inner[k][4] != inner[-1][4] for k in used)
        subq_hist['rows_compared'] += len(i[3]) if i[0] == 'ok' else 0
        ock = i[0] if i[0] != 'exception' else 'exception:' + i[1]
        subq_hist['outcomes'][ock] = subq_hist['outcomes'].get(ock, 0) + 1
        why = subq_compare(c, i, m)
        if why and len(qseen) < 3:
            small = shrink_rows(c, lambda x: subq_compare(x, run_subq_impl(x), subq_model_many([x], tag='c04qs')[0]) is not None)
            why = subq_compare(small, run_subq_impl(small), subq_model_many([small], tag='c04qs')[0]) or why
            sig = 'subquery-typing:' + subq_statement(small) + ' cols=' + repr(small['cols'])
            if sig in qseen:
                continue
            qseen.add(sig)
            violations.append(core.Violation('subquery-typing-model', f'{subq_statement(small)} over {small["cols"]} rows {small["rows"]}: {why}',
                                             {'case': small, 'impl': run_subq_impl(small), 'subq': True}, signature=sig))
    lap('A3 done')
    # ---- B
    na = 300 if quick else 4000
    acases = [gen_agg_case(rng, rng.randint(0, 2)) for _ in range(na)]
    aimpl = core.pmap(run_agg_impl, acases)
    amodel = core.coq_eval('c04a', IMPORTS, [agg_model_expr(c) for c in acases], shard=200)
    agg_hist = {}
    aseen = set()
    for c, i, m in zip(acases, aimpl, amodel):
        key = f'{c["agg"]}[{c["gen_type"]}]'
        agg_hist[key] = agg_hist.get(key, 0) + 1
        why = agg_compare(c, i, m)
        if why and len(aseen) < 3:
            sig = 'agg-typing:' + agg_statement(c) + ' cols=' + repr(c['cols']) + ' rows=' + repr(c['rows'])
            aseen.add(sig)
            violations.append(core.Violation('agg-typing-model', f'{agg_statement(c)} over {c["cols"]} rows {c["rows"]}: {why}',
                                             {'case': c, 'impl': i, 'model': m, 'agg': True}, signature=sig))

    lap('B done')
    # ---- sweep 1 / 1b
    nrows = 8 if quick else 40
    s1 = S.sweep1_cases(rng, nrows)
    r1 = core.pmap(S.run_overload_case, s1)
    sin = S.in_cases(rng, 6 if quick else 25)
    rin = core.pmap(S.run_in_case, sin)
    fail_by_sig = {}
    status = {}
    other_exc = {}
    for r in r1:
        st = r['status'].split(':')[0]
        status[st] = status.get(st, 0) + 1
        for k, v in r['other_exc'].items():
            other_exc[k] = other_exc.get(k, 0) + v
        for f in r['fails']:
            fail_by_sig.setdefault(_sig_overload(r['sig'], f['class']), (r, f))
    in_fail = {}
    for r in rin:
        for k, v in r['other_exc'].items():
            other_exc[k] = other_exc.get(k, 0) + v
        for f in r['fails']:
            in_fail.setdefault(f'in-unchecked:right={r["right"]}:{f["class"]}', []).append((r, f))
    # ---- sweep 1c: object column against typed operands / casts
    roc = core.pmap(S.run_objcast_case, S.objcast_cases())
    oc_status = {}
    for r in roc:
        oc_status[r['status']] = oc_status.get(r['status'], 0) + 1
        for k, v in r['other_exc'].items():
            other_exc[k] = other_exc.get(k, 0) + v
        for f in r['fails']:
            sig = f'{r["sig"]}:{f["class"]}'
            if sig not in fail_by_sig:
                fail_by_sig[sig] = (r, f)
    for sig, (r, f) in fail_by_sig.items():
        if r['sig'].startswith(('In(', 'NotIn(')):
            continue            # reported by sweep 1b under the in-unchecked signatures
        violations.append(core.Violation(
            'overload-sweep', f'{r["sig"]}: {f["class"]} ({f.get("exc", "")}) in `{f["where"]}` on {f["input"]}: {f["value"]}',
            {'sweep': 1, 'sig': r['sig'], 'sql': f['where'], 'input': f['input'], 'class': f['class'], 'value': f['value']},
            signature=sig))
    for sig, lst in in_fail.items():
        r, f = lst[0]
        lefts = sorted({x[0]['left'] for x in lst})
        opsf = sorted({x[0]['op'] for x in lst})
        violations.append(core.Violation(
            'in-sweep', f'{"/".join(opsf)} with a right operand of type {r["right"]} is accepted for every left operand type and raises '
            f'{f.get("exc")} at execution for left types {lefts}; e.g. `{f["where"]}` on {f["input"]}: {f["value"]}',
            {'sweep': '1b', 'op': r['op'], 'left': r['left'], 'right': r['right'], 'lefts': lefts, 'sql': f['where'],
             'input': f['input'], 'class': f['class'], 'value': f['value']}, signature=sig))

    lap('sweep 1 done')
    # ---- G: duplicate GROUP BY references / PIVOT BY (fix-J)
    gcases = [gen_group_case(rng) for _ in range(400 if quick else 5000)]
    gout = core.pmap(run_group_case, gcases)
    ghist = {'cases': len(gcases), 'shape': {}, 'status': {}, 'cells_checked': 0, 'duplicate_references': {}, 'pivot_null_in_first_column': 0,
             'pivot_null_in_second_column': 0, 'pivot_remaining_columns': {}, 'key_datatypes_differ': 0, 'results_with_rows': 0}
    gfail = {}
    for c, r in zip(gcases, gout):
        ghist['shape'][c['shape']] = ghist['shape'].get(c['shape'], 0) + 1
        ghist['status'][r['status']] = ghist['status'].get(r['status'], 0) + 1
        ghist['cells_checked'] += r['cells']
        ghist['results_with_rows'] += r['out_rows'] > 0
        ghist['key_datatypes_differ'] += len(set(c['key_types'])) > 1
        if c['shape'] == 'dup':
            ghist['duplicate_references'][c['ndup']] = ghist['duplicate_references'].get(c['ndup'], 0) + 1
        if c['pivot'] is not None:
            ghist['pivot_null_in_first_column'] += r['null_label']
            ghist['pivot_null_in_second_column'] += r['null_second']
            ghist['pivot_remaining_columns'][c['nother']] = ghist['pivot_remaining_columns'].get(c['nother'], 0) + 1
        for f in r['fails']:
            gfail.setdefault(f'group:{c["shape"]}:{f["class"]}', (c, f))
    for sig, (c, f) in sorted(gfail.items(), key=lambda kv: 'value-type' not in kv[0])[:3]:
        def gfails(cand, f=f):
            return any(x['class'] == f['class'] for x in run_group_case(cand)['fails'])
        small = shrink_rows(c, gfails)
        f2 = next((x for x in run_group_case(small)['fails'] if x['class'] == f['class']), f)
        violations.append(core.Violation(
            'grouped-typing', f'`{small["sql"]}` over {small["cols"]} rows {small["rows"]}: {f2["class"]}: {f2["value"]}',
            {'case': small, 'group': True, 'class': f['class'], 'value': f2['value']}, signature=sig))
    cov['G_grouped_cases'] = ghist
    cov['G_samples'] = [c['sql'] for c in gcases[:4]]
    cov['G_rule'] = ('aggregate SELECTs over tables of 3-5 columns of >=3 datatypes, 15-50% NULLs, 2-3 grouping targets (columns, length/upper/'
                     'year/+1 of them) referenced by position / name / expression: (dup) one or two grouping targets referenced again in GROUP BY, '
                     'further grouping targets after them; (pivot) PIVOT BY the two grouping targets by name / position in both orders, 1-2 '
                     'remaining columns; (plain). Every cell vs the announced datatype, render_text, no exception, rows == the statement with '
                     'each grouping target referenced once, pivoted table == plain-Python pivot of the grouped rows')
    lap('G done')
    # ---- sweep 2 / 3
    nled = 20 if quick else 500
    per = 1 if quick else 2
    lcases = [{'text': S.FIXED_LEDGER, 'seed': 1, 'per_overload': 2}]
    sizes = {}
    for _ in range(nled):
        size = rng.choice([0, 1, 3, 6, 10, 16])
        sizes[size] = sizes.get(size, 0) + 1
        lcases.append({'text': S.gen_ledger(rng, size), 'seed': rng.randrange(1 << 30), 'per_overload': per})
    rl = core.pmap(S.run_ledger_case, lcases)
    lfail = {}
    ltags, ltables = {}, {}
    lq = lcells = lrej = lrend = lerrs = 0
    for c, r in zip(lcases, rl):
        lq += r['queries']
        lcells += r['cells']
        lrej += r['rejected']
        lrend += r['renders']
        lerrs += r['load_errors']
        for k, v in r['tags'].items():
            ltags[k] = ltags.get(k, 0) + v
        for k, v in r['tables'].items():
            ltables[k] = ltables.get(k, 0) + v
        for k, v in r['other_exc'].items():
            other_exc[k] = other_exc.get(k, 0) + v
        for f in r['fails']:
            tag = f['tag']
            if tag.startswith('call:') and f['class'].startswith('value-type') and tag.split(':')[1].split('(')[0] in ('first', 'last'):
                continue        # first()/last() of a column that is itself reported under its column signature
            lfail.setdefault(f'ledger:{tag}:{f["class"]}', (c, f))
    # a FROM-subquery that hands through a column whose own declaration is untruthful shows the same (announced, got) class as
    # the query of that column of that table, which is reported under the column's signature; anything else is the subquery's
    for sig in [s for s in lfail if s.startswith('ledger:subquery:')]:
        tname, cls = sig.split(':', 3)[2:]
        if any(s.startswith(f'ledger:column:{tname}.') and s.endswith(':' + cls) for s in lfail):
            del lfail[sig]
    for sig, (c, f) in lfail.items():
        violations.append(core.Violation(
            'ledger-sweep', f'{f["tag"]}: {f["class"]} in `{f["where"]}`: {f["value"]}',
            {'sweep': 2, 'ledger': c['text'], 'sql': f['where'], 'class': f['class'], 'value': f['value']}, signature=sig))
    lap('sweep 2 done')
    nchk, bad = S.ast_builder_check(rng, 40 if quick else 400)
    for sql in bad[:1]:
        violations.append(core.Violation('ast-builder', f'harness AST for `{sql}` differs from the parser\'s', {'sql': sql},
                                         signature='ast-builder', found_input=False))
    S.cleanup()

    s1cells = sum(r['cells'] for r in r1) + sum(r['cells'] for r in rin)
    cov.update({
        'evaluations': len(cases) + len(acases) + len(dcases) + len(qcases) + len(gcases) + sum(r['rows'] for r in r1) + sum(r['rows'] for r in rin) + lq,
        'distinct_nontrivial': len(nontrivial),
        'rule': 'A: typed expression trees (exprgen, depth<=%d) and single-node mutants with operand dtypes drawn from '
                '{int,decimal,str,date,bool,object,NULL} over tables of 3-7 columns: description datatype vs type_of, rejection vs None, '
                'every cell vs announced type on both sides; A\'\': 2-3 nested SELECT layers (FROM-subqueries whose columns have different datatypes, read '
                'permuted / through expressions / * / WHERE / under an aggregate, inner hidden ORDER BY): description vs description_out over the inner '
                'types, rows vs the outer expressions with the inner targets substituted, evaluated on the table rows; B: count/sum/first/last/min/max/count(*) of typed expressions over 0-7 rows; '
                'sweep 1: every registry overload x its declared operand types (any -> 13 concrete types, bool for int, Inventory for dict) '
                'x sample values, NULL in each position, all NULL, aggregates over 8+ groups, literal-constant variant; sweep 1b: IN/NOT IN '
                'x 13x13 operand types; sweep 2: every column, attribute path and subscript of the 10 Beancount tables and every overload '
                'fed with them over generated ledgers (0-16 dated directives of every kind + opens, commodities); sweep 3: render_text '
                '(plain and expand+boxed) on every result; non-trivial = distinct (expression, schema) of depth >= 1 in A' % depth,
        'samples': [statement(c) for c in cases[:4]] + [agg_statement(c) for c in acases[:2]] + [r['sql'] for r in r1[:3]],
        'traces_validated_against_impl': len(cases) + len(acases) + len(dcases) + len(qcases),
        'A_expression_cases': len(cases), 'A_kinds': kinds,
        'A_implicit_cast_cases_typed_and_value_compared': sum(1 for c, i, m in zip(cases, impl_out, model_out)
                                                              if c['kind'] == 'cast' and i[0] == 'ok' and m[0] is not None), 'A_outcomes': outcomes, 'A_operator_histogram': dict(sorted(ophist.items())),
        'Aprime_description_cases': len(dcases), 'Aprime_histogram': desc_hist,
        'Asubquery_cases': len(qcases), 'Asubquery_histogram': subq_hist, 'Asubquery_samples': [subq_statement(c) for c in qcases[:3]],
        'B_aggregate_cases': len(acases), 'B_histogram': dict(sorted(agg_hist.items())),
        'sweep1_overload_instances': len(s1), 'sweep1_status': status, 'sweep1b_pairs': len(sin),
        'sweep1_cells_checked': s1cells, 'sweep1_rows': sum(r['rows'] for r in r1) + sum(r['rows'] for r in rin),
        'sweep1c_objcast_queries': len(roc), 'sweep1c_status': oc_status, 'sweep1c_rows': sum(r['rows'] for r in roc),
        'sweep1c_object_value_kinds': sorted({type(v).__name__ for v in S.OBJ_VALUES}),
        'sweep2_metadata_value_kinds': S.META_KINDS,
        'sweep1_null_rows': sum(r['null_rows'] for r in r1), 'sweep1_renders': sum(r['renders'] for r in r1),
        'sweep2_ledgers': len(lcases), 'sweep2_ledger_sizes': sizes, 'sweep2_queries': lq, 'sweep2_cells_checked': lcells,
        'sweep2_rejected_by_compiler': lrej, 'sweep2_query_kinds': ltags, 'sweep2_rows_per_table': ltables,
        'sweep2_ledger_load_errors': lerrs, 'sweep3_results_rendered': lrend + sum(r['renders'] for r in r1),
        'other_exceptions_not_type_errors': other_exc, 'ast_builder_checked': nchk, 'exhaustive': False,
    })
    return {'coverage': cov, 'violations': violations}


def generate():
    info = gen_registry.generate()
    # translator tie (bld-compiler): C04_source_function_lookup is stated over coq/Gen/SrcLookup.v, regenerated here from
    # the source of the imported beanquery.types (types.function_lookup, _bases); see harness/vf/src_compiler.py
    from . import gen_src
    info.update(gen_src.generate('lookup'))
    # bld-compiler4: the expression-level typing path (Compiler._unaryop / _between / _inop / _binaryop / _function) ->
    # coq/Gen/SrcExprs.v; the C04_source_unaryop .. C04_source_binaryop_terminates theorems are stated over it
    info.update(gen_src.generate('exprs'))
    from . import src_exprs
    info['src_exprs_unrolling'] = dict(src_exprs.ExprGroup.info)
    return info


def _unjson_rows(c):
    def un(v, t):
        if v is None:
            return None
        if t == T_DEC:
            return D(v)
        if t == T_DATE:
            return datetime.date.fromisoformat(v)
        if t == T_OBJ and isinstance(v, str) and len(v) == 10 and v[4] == '-':
            return datetime.date.fromisoformat(v)
        return v
    c['cols'] = [tuple(x) for x in c['cols']]
    c['rows'] = [tuple(un(v, t) for v, (_, t) in zip(r, c['cols'])) for r in c['rows']]
    return c


def replay(rec):
    if 'case' in rec and rec.get('subq'):
        c = _unjson_rows(rec['case'])
        return subq_compare(c, run_subq_impl(c), subq_model_many([c], tag='c04r')[0]) is None
    if 'case' in rec and rec.get('desc'):
        c = _unjson_rows(rec['case'])
        c['targets'] = [tuple(t) for t in c['targets']]
        c['hidden'] = [tuple(t) for t in c['hidden']]
        m = core.coq_eval('c04r', IMPORTS, [desc_model_expr(c)])[0]
        return desc_compare(c, run_desc_impl(c), m) is None
    if 'case' in rec and rec.get('group'):
        c = _unjson_rows(rec['case'])
        return not any(f['class'] == rec['class'] for f in run_group_case(c)['fails'])
    if 'case' in rec and rec.get('agg'):
        c = _unjson_rows(rec['case'])
        m = core.coq_eval('c04r', IMPORTS, [agg_model_expr(c)])[0]
        return agg_compare(c, run_agg_impl(c), m) is None
    if 'case' in rec:
        c = _unjson_rows(rec['case'])
        return compare(c, run_impl(c), model_many([c], tag='c04r')[0]) is None
    if rec.get('sweep') == 2:
        path = S.write_ledger(rec['ledger'], 'replay.beancount')
        try:
            conn = impl.beanquery.connect('beancount:' + path)
            try:
                cur = conn.execute(rec['sql'])
                rows = cur.fetchall()
            except S.TYPE_ERRORS:
                return False
            fails = []
            S.check_result(cur.description, rows, fails, rec['sql'], None)
            return not fails and S.render_check(cur.description, rows) is None
        finally:
            S.remove(path)
            S.cleanup()
    if rec.get('sweep') in (1, '1b'):
        # re-run the whole (cheap) sweep for that overload signature
        rng = random.Random(0)
        if rec['sweep'] == 1:
            for c in S.sweep1_cases(rng, 12):
                if c['sig'] == rec['sig']:
                    r = S.run_overload_case(c)
                    if any(f['class'] == rec['class'] for f in r['fails']):
                        return False
            return True
        for c in S.in_cases(rng, 12):
            r = S.run_in_case(c)
            if r['right'] == rec['right'] and any(f['class'] == rec['class'] for f in r['fails']):
                return False
        return True
    return True
