"""Group `semantics` of the translator-based tie (C06, bld-sem): the semantic actions of the parser.

Translated on every run from the LIVE objects of `beanquery.parser` (the package __init__) into coq/Gen/SrcSemantics.v:

* every function in `vars(BQLSemantics)` (taken from the live class, in definition order) as `sem_<name>`;
* `parser.parse` as `parser_parse`, and `ParseError.__init__` (the class `parse` raises) as `parse_error_init`.

Besides the terms the generated file carries, as DATA read from the live objects:
  `semantics_methods`   the names of the functions of the class, in definition order (TatSu dispatches a rule to the
                        method of its name, else to `_default`);
  `semantics_bases`     the qualified names of the class's __mro__ (a mix-in that adds methods changes it);
  `ordering_members`    name and value of every member of the enum ast.Ordering;
  `module_state`        every module-level name of beanquery/parser/__init__.py that is bound to something other than a
                        module, a class or a function, with the qualified name of its type (a parse cache or a shared
                        parser instance shows up here).

SemTranslator = src_api.ApiTranslator (rules R1-R16) with the rules S1-S7, all into EXISTING PyMini constructors; what
the primitives mean is fixed in coq/Model/PrimsSemantics.v.

S1 a module-level name bound to a bare `object()` sentinel           -> XConst (PRef "<module>.<name>")  (compared with `is`)
S2 `raise X from y`                                                   -> as `raise X` (the cause only sets __cause__)
S3 `E[k]`, E a static Enum class                                      -> XPrim "enum:<qualified name of E>" [k]
S4 `f(**d)`, f a local name, no other argument                        -> XPrim "apply:**" [f; d]
S5 `try: B  except E as x: H` (x used freely in H)                    -> STry B [kind E] (x = XPrim "caught:<E>" [locals B reads] :: H)
   PyMini is deterministic and a failed try body leaves no state behind, so the exception the body raises is a function
   of the locals it reads; the primitive "caught:<E>" is that function.
S6 `raise X` outside every try BODY (so nothing in this function catches it) -> SReturn (XPrim "raise" [X]): the outcome
   of the function is the marker ("$raised", X) - exceptions as values, so that the PAYLOAD (ParseError.parseinfo) is part
   of the result a theorem can talk about.
S7 `C(args)`, C a static class that is not a declared primitive       -> XPrim "new:<qualified name of C>" [args]
Everything else fails closed with py2mini.Untranslatable."""
import ast
import enum
import inspect

from . import py2mini, src_api
from .py2mini import Untranslatable, glist, gstr

PRIMS = ('builtins.int', 'decimal.Decimal', 'datetime.datetime.strptime', 'builtins.str', 'builtins.getattr',
         'builtins.min')
# exception classes a handler of this group may name: kind numbers of Model/PrimsSemantics.v
KINDS = {'builtins.ValueError': 5, 'tatsu.exceptions.ParseError': 30, 'tatsu.exceptions.FailedSemantics': 31}


class SemTranslator(src_api.ApiTranslator):

    def __init__(self, func, refs, self_name='self', prims=(), select=None):
        super().__init__(func, refs, self_name=self_name, prims=prims, select=select)
        self.try_depth = 0          # > 0 inside the BODY of a try statement

    # ------------------------------------------------------------------ names
    def free_name(self, name, dotted):
        obj = self.resolve_free(name)
        for a in dotted.split('.')[1:]:
            obj = getattr(obj, a)
        if type(obj) is object:                                                          # S1
            if '.' in dotted or self.func.__globals__.get(name) is not obj:
                raise Untranslatable(f'sentinel {dotted} is not a global of the translated module')
            return f'(XConst (PRef {self.refs.ref(self.func.__module__ + "." + name)}))'
        return super().free_name(name, dotted)

    def static_or_none(self, e):
        try:
            return self.static(e)
        except (Untranslatable, AttributeError):
            return None

    # ------------------------------------------------------------------ expressions
    def expr(self, e):
        if isinstance(e, ast.Subscript) and not isinstance(e.slice, ast.Slice):          # S3
            obj = self.static_or_none(e.value)
            if inspect.isclass(obj) and issubclass(obj, enum.Enum):
                return f'(XPrim {gstr("enum:" + src_api.qualname(obj))} [{self.expr(e.slice)}])'
        if isinstance(e, ast.Call):
            f = e.func
            if isinstance(f, ast.Name) and f.id in self.locals and f.id not in self.alias and not e.args \
                    and len(e.keywords) == 1 and e.keywords[0].arg is None:               # S4
                return f'(XPrim "apply:**" [{self.expr(f)}; {self.expr(e.keywords[0].value)}])'
            obj = self.static_or_none(f) if isinstance(f, (ast.Name, ast.Attribute)) else None
            if inspect.isclass(obj) and src_api.qualname(obj) not in self.prims:          # S7
                if any(isinstance(a, ast.Starred) for a in e.args) or any(k.arg is None for k in e.keywords):
                    raise Untranslatable('star arguments to a constructor')
                kws = [k.arg for k in e.keywords]
                name = 'new:' + src_api.qualname(obj) + ((':' + ','.join(kws)) if kws else '')
                args = [self.expr(a) for a in e.args] + [self.expr(k.value) for k in e.keywords]
                return f'(XPrim {gstr(name)} {glist(args)})'
        return super().expr(e)

    # ------------------------------------------------------------------ statements
    def reads(self, stmts):
        """the locals the statements read, in order of first occurrence"""
        occ = []
        for s in stmts:
            for n in ast.walk(s):
                if isinstance(n, ast.Name) and isinstance(n.ctx, ast.Load) and n.id in self.locals:
                    occ.append((n.lineno, n.col_offset, n.id))
        out = []
        for _, _, name in sorted(occ):
            if name not in out and name != self.self_name:
                out.append(name)
        return out

    def stmt(self, s):
        if isinstance(s, ast.Raise) and s.exc is not None:                                # S2, S6
            if s.cause is not None and not (isinstance(s.cause, ast.Name) and s.cause.id in getattr(self, 'caught', ())):
                raise Untranslatable('raise .. from something that is not the caught exception')
            if self.try_depth:
                raise Untranslatable('raise inside the body of a try statement')
            return f'(SReturn (Some (XPrim "raise" [{self.expr(s.exc)}])))'
        if isinstance(s, ast.Try):                                                        # S5
            if s.orelse or s.finalbody or len(s.handlers) != 1 or s.handlers[0].type is None:
                raise Untranslatable('try statement that is not try/except <one class>')
            h = s.handlers[0]
            cls = src_api.qualname(self.static(h.type))
            if cls not in KINDS:
                raise Untranslatable(f'exception class {cls}')
            self.try_depth += 1
            body = self.block(s.body)
            self.try_depth -= 1
            pre = []
            if h.name is not None:
                if any(isinstance(n, ast.Name) and n.id == h.name and isinstance(n.ctx, ast.Store)
                       for x in h.body for n in ast.walk(x)):
                    raise Untranslatable('the exception variable is assigned in the handler')
                self.locals.add(h.name)
                self.caught = getattr(self, 'caught', set()) | {h.name}
                args = glist([f'(XName {gstr(x)})' for x in self.reads(s.body)])
                pre = [f'(SAssign (TName {gstr(h.name)}) (XPrim {gstr("caught:" + cls)} {args}))']
            handler = pre + [self.stmt(x) for x in h.body]
            return f'(STry {body} [{KINDS[cls]}] {glist(handler)})'
        return super().stmt(s)

    @staticmethod
    def translate_all(spec, prims=()):
        refs = py2mini.Refs()
        defs, info = [], {}
        for name, fn, origin, *rest in spec:
            tr = SemTranslator(fn, refs, prims=prims, **(rest[0] if rest else {}))
            term, defaults = tr.translate()
            defs.append((name, origin, term, defaults))
            info[name] = {'origin': origin, 'lines': len(inspect.getsource(fn).splitlines())}
        return py2mini.render(defs, refs), info


# ------------------------------------------------------------------------------------------------ spec and data
def semantics_functions():
    """the functions of the LIVE class, in definition order"""
    from beanquery import parser
    out = []
    for name, v in vars(parser.BQLSemantics).items():
        if inspect.isfunction(v):
            out.append((name, v))
        elif not (name.startswith('__') and name.endswith('__')):
            raise Untranslatable(f'BQLSemantics.{name} is not a plain function: {v!r}')
    return out


def coq_name(method):
    return 'sem_' + method.lstrip('_')


def spec_semantics():
    from beanquery import parser
    fns = semantics_functions()
    names = [coq_name(n) for n, _ in fns]
    if len(set(names)) != len(names):
        raise Untranslatable(f'method names collide: {names}')
    out = [(coq_name(n), f, f'beanquery.parser.BQLSemantics.{n}') for n, f in fns]
    if not inspect.isfunction(parser.parse) or parser.parse.__module__ != parser.__name__:
        raise Untranslatable(f'beanquery.parser.parse is not a function of that module: {parser.parse!r}')
    out.append(('parser_parse', parser.parse, 'beanquery.parser.parse'))
    init = vars(parser.ParseError).get('__init__')
    if not inspect.isfunction(init):
        raise Untranslatable('ParseError.__init__ is not a plain function')
    out.append(('parse_error_init', init, 'beanquery.parser.ParseError.__init__'))
    # helpers of the module that parse (or another translated function) calls: every other function of the module
    for name, v in vars(parser).items():
        if inspect.isfunction(v) and v.__module__ == parser.__name__ and v is not parser.parse:
            out.append(('parser_fn_' + name.lstrip('_'), v, f'beanquery.parser.{name}'))
    return out


def module_state():
    from beanquery import parser
    out = []
    for name, v in vars(parser).items():
        if name.startswith('__') and name.endswith('__'):
            continue
        if inspect.ismodule(v) or inspect.isclass(v) or inspect.isfunction(v):
            continue
        out.append((name, src_api.qualname(type(v))))
    return out


def extra_semantics():
    from beanquery import parser
    strs = lambda xs: glist([gstr(x) for x in xs])  # noqa: E731
    members = [(n, m.value) for n, m in parser.ast.Ordering.__members__.items()]
    if not all(isinstance(v, int) for _, v in members):
        raise Untranslatable('ast.Ordering has a member that is not an int')
    return ('\n(* DATA read from the live objects (see harness/vf/src_semantics.py) *)\n'
            f'Definition semantics_methods : list string :=\n  {strs(n for n, _ in semantics_functions())}.\n'
            f'Definition semantics_bases : list string :=\n  '
            f'{strs(src_api.qualname(c) for c in parser.BQLSemantics.__mro__)}.\n'
            f'Definition ordering_members : list (string * Z) :=\n  '
            f'{glist([f"({gstr(n)}, {py2mini.gz(v)})" for n, v in members])}.\n'
            f'Definition module_state : list (string * string) :=\n  '
            f'{glist([f"({gstr(n)}, {gstr(t)})" for n, t in module_state()])}.\n')


def register(groups):
    groups['semantics'] = ('SrcSemantics.v', spec_semantics,
                           {'translator': SemTranslator, 'prims': PRIMS, 'extra': extra_semantics})
