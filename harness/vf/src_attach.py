"""Group `attach` of the translator-based tie (C09, bld-shell3): what a Connection IS and what attaching does to it.

Translated on every run into coq/Gen/SrcAttach.v:
* `connection_init`   = beanquery.Connection.__init__: the attributes a new connection has (tables, options, errors and NOTHING else:
                        a per-connection cache added there changes the term and breaks C09_source_connection_init), then attach
                        when a dsn is given;
* `connection_attach` = beanquery.Connection.attach: reads the scheme of the dsn, imports beanquery.sources.<scheme> and hands the
                        connection ITSELF, the dsn and the keywords to that module's attach; assigns no attribute of its own.

AttachTranslator = src_shell2.Shell2Translator + the rule
A1 `E.m(a.., **kw)` (kw the function's ** parameter, E not a module / class path: self or a local)
       -> XCall (XAttr E "m") (a.. ++ [kw]) None   with the function's parameters a.., kw (rule S4): the callee receives the keyword
          mapping as its last argument; for E = self the bound method is read as the field "m" of the object (an opaque callable).
"""
import ast
import inspect

from . import py2mini, src_api, src_shell2

PRIMS = src_api.PRIMS


class AttachTranslator(src_shell2.Shell2Translator):
    def expr(self, e):
        if isinstance(e, ast.Call) and isinstance(e.func, ast.Attribute) and isinstance(e.func.value, ast.Name) \
                and (e.func.value.id == self.self_name or e.func.value.id in self.locals) \
                and len(e.keywords) == 1 and e.keywords[0].arg is None and isinstance(e.keywords[0].value, ast.Name) \
                and e.keywords[0].value.id == self.kwparam and not any(isinstance(x, ast.Starred) for x in e.args):   # A1
            f = f'(XAttr {self.expr(e.func.value)} {py2mini.gstr(e.func.attr)})'
            args = [self.expr(x) for x in e.args] + [self.expr(e.keywords[0].value)]
            return f'(XCall {f} {py2mini.glist(args)} None)'
        return super().expr(e)

    @staticmethod
    def translate_all(spec, prims=()):
        refs = py2mini.Refs()
        defs, info = [], {}
        for name, fn, origin, *rest in spec:
            tr = AttachTranslator(fn, refs, prims=prims, **(rest[0] if rest else {}))
            term, defaults = tr.translate()
            defs.append((name, origin + '; parameters: ' + ', '.join(tr.params), term, defaults))
            info[name] = {'origin': origin, 'lines': len(inspect.getsource(fn).splitlines())}
        return py2mini.render(defs, refs), info


def spec_attach():
    import beanquery
    return [('connection_init', beanquery.Connection.__init__, 'beanquery.Connection.__init__'),
            ('connection_attach', beanquery.Connection.attach, 'beanquery.Connection.attach')]


def register(groups):
    groups['attach'] = ('SrcAttach.v', spec_attach, {'translator': AttachTranslator, 'prims': PRIMS})
