"""C16: text and CSV rendering. Correspondence: generated result tables (Column descriptions + rows of
every datatype) x all 2^5 boolean options x nullvalue/listsep choices, rendered by the real
beanquery.query_render.render_text / render_csv (and render/text.py, render/csv.py) and
 (a) compared byte for byte with Model/Render.v (vm_compute) for the datatypes the model reproduces exactly,
 (b) checked by the Gallina relational checkers check_table / check_csv (Model/RenderCheck.v) for everything,
     including Amount / Position / Inventory columns, whose numbers go through Beancount's DisplayContext,
 (c) the hypothesis the amount theorems carry (the column number formatter returns strings of one length)
     is validated against the real DisplayContext for every generated amount-like column."""
import datetime
import decimal
import enum
import io
import json
import re

from . import core, impl  # noqa: F401  (impl puts /repo first on sys.path)
from .core import cZ, clist, cbool, cstr, copt

from beancount.core import display_context
from beancount.core.amount import Amount
from beancount.core.inventory import Inventory
from beancount.core.position import Cost, Position
from beanquery import query_render
from beanquery.cursor import Column
from beanquery.render import text as render_text_mod, csv as render_csv_mod

D = decimal.Decimal


class Flag(enum.Enum):
    """An enum datatype for EnumRenderer columns (format = member name)."""
    OK = 1
    PENDING = 2
    X = 3
    VERY_LONG_MEMBER_NAME = 4


ASSUMPTIONS = [
    'str(int), str(Decimal), format(Decimal, "<n"), date.strftime("%Y-%m-%d") (glibc: year not zero padded), str.center '
    '(CPython rounding rule), sorted(set of str), csv.writer (excel dialect, QUOTE_MINIMAL) are modelled by hand and '
    'validated only by the byte-for-byte comparison of this run',
    'Amount / Position / Inventory: the model is parametric in the ledger quantiser and in the column number formatter '
    '(DisplayContext.build(Align.DOT)); theorems about them assume the formatter returns strings of one length for all '
    'numbers of the column and for zero (validated against the real DisplayContext on every generated column; '
    'failures are reported as violations); their cells are checked on the implementation output by check_table only',
    'Inventory columns without expand (per-commodity tabular layout) and CostRenderer are not in the functional model; '
    'non-expanded inventories are checked relationally (token stream), Cost columns by the harness oracle check_cost_text '
    '(computed from the emitted text, outside Coq); EnumRenderer '
    '(ObjectRenderer with format = value.name) is modelled as a str column over the member names',
    'values are well typed for their column (BQL columns are typed); dict/other objects enter the model as their str()',
    'per-slot alignment of non-expanded inventory columns (slot_alignment, computed in the harness from the emitted text) applies to '
    'columns with at most 5 (commodity, lot) slots; with more the renderer documents a plain joined list, which is only read back',
    'Decimals are finite (NaN/Infinity raise TypeError in DecimalRenderer.update; not generated)',
    'translator tie (C16_source_*): coq/Gen/SrcRender.v is regenerated from the source of ColumnRenderer.prepare and of '
    'update/format of ObjectRenderer (inherited unchanged by StringRenderer / IntRenderer / DictRenderer: checked), BoolRenderer, '
    'DateRenderer, DecimalRenderer, and DecimalRenderer.prepare without its last statement `return super().prepare()` '
    '(harness/vf/src_render.py; f-strings with {x:<{n}} / {x:>{n}} parts become primitives); trusted there: the PyMini semantics '
    '(Model/PyMini.v), the encoding of values and what Model/PrimsRender.v says str, max, rjust, ljust, strftime, as_tuple and '
    'the alignment format specs do (built from Render.v\'s own string functions); self.format(value) inside '
    'ObjectRenderer.update is an opaque callable returning a str',
    'translator tie, top level: render_rows (C16_source_render_rows), render_csv (C16_source_render_csv: the file is reached '
    'only through csv.writer, whose content is the text written so far; csv.writer = Render.csv_record; calling render_rows = '
    'interpreting its translation; _get_renderer builds a renderer that has seen nothing) and the WHOLE of render_text '
    '(C16_source_render_text: the text written is unlines (Render.text_lines ..) = Render.render_text, for all options, '
    'descriptions and rows; its first six statements also separately, C16_source_render_text_widths_partial) are translated by '
    'TopTranslator (rules T1-T9 of harness/vf/src_render.py: zip(*e) as '
    'transposition, yield from, loops that mutate the items of a local list in place rebuilt as a new list - exact when the items '
    'are not aliased elsewhere, which holds for the freshly built cells / renderers lists; T9: an int-valued enum member such as '
    'Align.LEFT is its value, read from the live class); a column renderer is modelled by its '
    'datatype, its RenderContext and the values update() has seen, format/prepare being Render.st_format/st_width of col_prepare '
    'over them (Model/PrimsRender.v, section Top); trusted for render_text in addition: str.join / str.center (CPython rounding) / '
    'ljust / rjust are Render.v\'s own functions, rjust with a one-character fill (rjust_fill), template.format(x) for a template with '
    'exactly one `{}` field and no other brace (fmt1; anything else is Stuck), zip of three sequences, file.write(s) appends s to the '
    'file-as-its-content value, renderer.align is 0 / 1 = Align.LEFT / RIGHT by datatype (IntRenderer only is RIGHT)',
    'translator tie, AmountRenderer / PositionRenderer / DecimalRenderer.__init__ (C16_source_amount_*, C16_source_position_*, '
    'C16_source_decimal_init): every method is translated (__init__ without its first statement super().__init__(ctx), prepare '
    'without its last `return super().prepare()`: both checked structurally, the theorems run ColumnRenderer.__init__ / .prepare '
    'around them); rules A1 self.func(args) = primitive "apply" on the formatter value, A2 self.<owned>.prepare() changes the owned '
    'renderer (written back), f-string parts `{x}` (x a str) and constants; trusted (Model/PrimsRender.v prims_amt): beancount\'s '
    'DisplayContext is abstract as in Render.v - DisplayContext() collects the (number, currency) pairs update() is called with, '
    '.build(Align.DOT, Precision.MAXIMUM) applied to (number, currency) is numfmt of those pairs, .ccontexts iterates over '
    '"__default__" then the distinct currencies, Decimal() is 0, self.quantize is an opaque callable = quant; no commodity is named '
    '"__default__"; an owned AmountRenderer is the tuple of its fields and calling its methods is interpreting AmountRenderer\'s '
    'translated methods (Model/PrimsRenderPos.v); AmountRenderer(ctx) inside PositionRenderer.__init__ is an opaque callable assumed '
    'to return what C16_source_amount_init proves.  NOT tied by translation: InventoryRenderer, SetRenderer, EnumRenderer, CostRenderer '
    '(superseded for Cost / Set / Enum by the next entry; InventoryRenderer is still not tied: its dict subscripts with str / bool keys, '
    'Counter, defaultdict(lambda) and sorted(key=) are outside what RenderTranslator translates and PyMini\'s XIndex interprets)',
    'translator tie, CostRenderer / SetRenderer / EnumRenderer (bld-render4, bld-render5; C16_source_cost_*, C16_cost_fits, '
    'C16_source_set_*, C16_source_enum_format): CostRenderer in group render (coq/Proofs/SrcRenderCost.v), SetRenderer.__init__ '
    '(without super().__init__(ctx)) / update / format and EnumRenderer.format in group renderset (coq/Gen/SrcRenderSet.v, no opaque '
    'callables; generator expressions are translated as list comprehensions); trusted: coq/Model/PrimsRenderCost.v (a Cost handed to the '
    'owned AmountRenderer is its (number, currency) - update/format of AmountRenderer read nothing else; format(date, \'%Y-%m-%d\') = '
    'Render.date_str; the AmountRenderer(ctx) call returns what C16_source_amount_init proves) and coq/Model/PrimsRenderSet.v (a set of '
    'str is the list of its elements in arbitrary order, sorted() = Render.sort_strs, sum() of ints = left fold of + from 0, '
    'sep.join = Render.join, str(x) of a str is x, ctx.listsep reads the RenderContext encoding, an Enum member is the pair (tag, name) '
    'and .name reads it; InventoryRenderer.positionsortkey, a plain function: a Position carries an Amount and a full Cost or None, -Decimal = Base.Decimal.dec_neg - C16_source_inventory_sortkey); C16_cost_fits assumes the amount part fits its AmountRenderer width and that %Y-%m-%d gives 10 characters',
    'translator tie, InventoryRenderer.format, expanded layout (bld-render6; C16_source_inventory_format_expand / _format_cell): the FIRST '
    'statement of format (`if self.expand: ...; return strings`, selected structurally, rules I0-I2 of harness/vf/src_renderinv.py) is '
    'translated into coq/Gen/SrcRenderInv.v and proved (coq/Proofs/SrcRenderInv.v) to return map (p_format st) (sort_pos l) = '
    'Render.inv_format for every inventory l, when self.renderers holds under the key True a PositionRenderer prepared in state st; trusted '
    '(coq/Model/PrimsRenderInv.v): sorted(positions, key=self.positionsortkey) IS the stable sort Render.sort_pos (by pos_le: currency, '
    'number descending, cost none-first / currency / number descending; the key function itself is tied, that Python orders its key tuples '
    'like pos_le is assumed, and Render.posn has no cost date / label), self.renderers is an association list whose MISSING keys are Stuck '
    '(the defaultdict factory lambda: PositionRenderer(ctx) is not modelled), an owned PositionRenderer is the tuple of its fields and its '
    'format is the translated PositionRenderer.format interpreted on them, Inventory.get_positions() is the list of positions); '
    'InventoryRenderer.update, its FIRST statement only (the loop feeding self.renderers[self.expand or currency]; rule U1: '
    'self.renderers[K].update(x) as read-modify-write of the dict entry = no aliasing of the owned renderer; C16_source_inventory_update_loop, '
    'C16_source_inventory_column: with expand = True the renderer under the key True absorbs the positions in order, ending in Render.inv_state), '
    'trusted: ddict.getdefault answers for a missing key the parameter fresh_posr = the object C16_source_position_init proves '
    'PositionRenderer.__init__ builds (the factory lambda: PositionRenderer(ctx) itself and InventoryRenderer.__init__ are not translated), '
    'dict.set keeps an existing key in place and appends a new one, update on an owned PositionRenderer is the translated '
    'PositionRenderer.update interpreted on its fields; InventoryRenderer.prepare under expand (rule P0/P1: only `if self.expand: '
    'self.maxwidth = self.renderers[self.expand].prepare()` is translated - the else branch is cut off, the final super().prepare() is run '
    'as the translated ColumnRenderer.prepare; C16_source_inventory_prepare_expand; coq/Proofs/SrcRenderInvPrep.v) and the life cycle '
    'update* / prepare / format of an expanded column (C16_source_inventory_lifecycle: width = Render.p_width (inv_state), cell = '
    'Render.inv_format; each method is interpreted under its own layer of primitives prims_inv < prims_invu < prims_invp; it assumes no '
    'commodity is named "__default__", as the position theorems do).  NOT tied: InventoryRenderer.__init__, the Counter / self.counts '
    'statements of update, the else branch of prepare and the two non-expanded layouts of format (Render.v does not model them)',
]


def generate():
    """translator tie: regenerate coq/Gen/SrcRender.v from the source of the imported column renderers (py2mini +
    src_render); raises py2mini.Untranslatable when a tied method left the fragment (reported as translator-failed)"""
    from . import gen_src
    out = gen_src.generate('render')
    out.update(gen_src.generate('renderset'))      # SetRenderer / EnumRenderer (coq/Gen/SrcRenderSet.v)
    out.update(gen_src.generate('renderinv'))      # InventoryRenderer.format, expanded layout (coq/Gen/SrcRenderInv.v)
    return out

# ------------------------------------------------------------------ cases (JSON-able)
# cell encodings: None | ['e',member name] | ['b',bool] | ['i',int] | ['d',str] | ['s',str] | ['D',y,m,d] | ['S',[str]] | ['o',dict]
#                 | ['A',num,cur] | ['P',num,cur,cnum,ccur] (cnum None = no cost) | ['I',[[num,cur,cnum,ccur]...]]

TYPES = ['int', 'decimal', 'str', 'date', 'bool', 'set', 'object', 'dict', 'enum', 'amount', 'position', 'inventory']
EXACT = {'int', 'decimal', 'str', 'date', 'bool', 'set', 'object', 'dict', 'enum'}
COQ_T = {'int': 'TInt', 'decimal': 'TDecimal', 'str': 'TStr', 'date': 'TDate', 'bool': 'TBool', 'set': 'TSet',
         'object': 'TObject', 'dict': 'TObject', 'enum': 'TStr', 'amount': 'TAmount', 'position': 'TPosition', 'inventory': 'TInventory'}
PY_T = {'int': int, 'decimal': D, 'str': str, 'date': datetime.date, 'bool': bool, 'set': set, 'object': object,
        'dict': dict, 'enum': Flag, 'amount': Amount, 'position': Position, 'inventory': Inventory, 'cost': Cost}

INTS = [0, 1, 5, -3, 42, 12345, -100, 10 ** 12, -(10 ** 9), 7, 99, 100]
DECS = ['0', '1', '1.0', '-1.5', '12.345', '0.001', '-0.0', '100', '2.50', '-123456.78', '0.000001', '3', '0.5', '10',
        '99.99', '-0.25', '1234567.1', '0.00', '7.125']
DECS_SCI = ['1E+3', '1.5E+2', '1E-7', '0E-10', '0.0000001', '0E+2', '-1.2E+3', '1234567E-13', '-5E-9', '12E+1']
STRS = ['', 'a', 'b', 'Assets:Cash', 'x y', 'a,b', 'say "hi"', 'été', ' lead', 'trail ', 'Expenses:Food:Groceries',
        'z', 'A', 'ab', '-', '1', 'NULL', "it's", 'semi;colon', 'tab\there']
STRS_NL = ['line1\nline2', 'cr\rx']
DATES = [(2020, 1, 1), (2019, 12, 31), (2020, 2, 29), (2021, 3, 1), (1999, 10, 5), (2024, 11, 30)]
DATES_OLD = [(5, 1, 1), (999, 12, 31), (1000, 1, 1), (9999, 12, 31), (1, 1, 1)]
TAGS = ['a', 'b', 'trip', 'x-1', 'zz', 'B', 'tag', 'q']
HEADERS = ['a', 'account', 'balance', 'x', 'sum_position', 'n', 'a b', 'date', 'narration_long_header', 'k', 'ab', 'abc', 'abcd', '']
CURS = ['USD', 'CAD', 'EUR', 'HOOL', 'XY', 'ETH', 'TESTS', 'A', 'VBMPX']
NUMS = ['1', '2.00', '100.00', '-5.50', '0.0001', '1234.56', '3.0', '42', '-1', '0.5', '9.96', '9.95', '1.25', '0.005',
        '20.002', '1098.20', '0', '-0.004', '1.5', '2.5', '99.99', '1000000.00', '7.125']
NULLS = ['', '', 'NULL', '-', 'n/a', 'a much longer null']
LISTSEPS = ['  ', ', ', ' | ', ';', ',']


def gen_cell(rng, t, null_p, feat):
    if rng.random() < null_p:
        return None
    if t == 'int':
        return ['i', rng.choice(INTS)]
    if t == 'decimal':
        if feat.get('sci') and rng.random() < 0.3:
            return ['d', rng.choice(DECS_SCI)]
        return ['d', rng.choice(DECS)]
    if t == 'str':
        if feat.get('nl') and rng.random() < 0.3:
            return ['s', rng.choice(STRS_NL)]
        return ['s', rng.choice(STRS)]
    if t == 'date':
        return ['D'] + list(rng.choice(DATES_OLD if feat.get('olddate') and rng.random() < 0.4 else DATES))
    if t == 'bool':
        return ['b', rng.random() < 0.5]
    if t == 'set':
        return ['S', sorted(rng.sample(TAGS, rng.choice([0, 0, 1, 1, 2, 3, 4])))]
    if t == 'object':
        return gen_cell(rng, rng.choice(['int', 'decimal', 'str', 'date', 'bool']), 0, feat)
    if t == 'enum':
        return ['e', rng.choice([m.name for m in Flag])]
    if t == 'dict':
        n = rng.choice([0, 1, 2])
        return ['o', {rng.choice(['k', 'key', 'filename']): rng.choice(['v', 1, 'x.bean']) for _ in range(n)}]
    curs = feat['curs']
    nums = feat['nums']
    if t == 'amount':
        return ['A', rng.choice(nums), rng.choice(curs)]
    if t == 'position':
        return gen_pos(rng, curs, nums, feat)
    if t == 'inventory':
        n = rng.choice([0, 1, 1, 2, 2, 3, 4, 7])
        seen, out = set(), []
        for _ in range(n):
            p = gen_pos(rng, curs, nums, feat)[1:]
            if D(p[0]) == 0:      # Inventory drops zero-unit positions
                continue
            key = (p[1], p[2], p[3])
            if key in seen or any(q[1] == p[1] and D(q[0]) == D(p[0]) and q[3] == p[3] and q[2] is not None and p[2] is not None
                                  and D(q[2]) == D(p[2]) for q in out):
                continue
            seen.add(key)
            out.append(p)
        return ['I', out]
    raise ValueError(t)


def gen_pos(rng, curs, nums, feat):
    if rng.random() < feat['cost_p']:
        cn = rng.choice([n for n in nums if not n.startswith('-')] or ['1'])
        return ['P', rng.choice(nums), rng.choice(curs), cn, rng.choice(curs)]
    return ['P', rng.choice(nums), rng.choice(curs), None, None]


def gen_opts(rng, bits=None):
    if bits is None:
        bits = rng.randrange(32)
    return {'boxed': bool(bits & 1), 'unicode': bool(bits & 2), 'spaced': bool(bits & 4), 'expand': bool(bits & 8),
            'narrow': bool(bits & 16), 'nullvalue': rng.choice(NULLS), 'listsep': rng.choice(LISTSEPS)}


def gen_table(rng, risky=False):
    """risky: include inputs known to violate the property on the unchanged tree (scientific decimals, newlines in
    strings)."""
    ncols = rng.choice([1, 1, 2, 2, 3, 4])
    nrows = rng.choice([0, 1, 1, 2, 3, 4, 5, 7])
    null_p = rng.choice([0.0, 0.15, 0.3, 0.6])
    kind = rng.random()
    if kind < 0.45:
        pool = ['int', 'decimal', 'str', 'date', 'bool', 'set', 'object', 'dict', 'enum']
    elif kind < 0.8:
        pool = TYPES
    else:
        pool = ['amount', 'position', 'inventory', 'decimal']
    curs = rng.sample(CURS, rng.choice([1, 2, 3, 5, 8]))
    # homogeneous number precisions per currency unless 'mixedprec'
    feat = {'curs': curs, 'cost_p': rng.choice([0.0, 0.3, 0.7]),
            'sci': risky and rng.random() < 0.5, 'nl': risky and rng.random() < 0.3, 'olddate': rng.random() < 0.2,
            'nums': NUMS if rng.random() < 0.7 else rng.sample(NUMS, 4)}
    # ledger display context: currency -> fractional digits; 'unknown currencies' only in risky mode
    prec = {c: rng.choice([0, 2, 2, 3, 4]) for c in curs}
    if rng.random() < (0.5 if risky else 0.3):     # currencies the ledger context has never seen
        for c in rng.sample(curs, rng.randint(1, len(curs))):
            del prec[c]
    cols = []
    used = set()
    for i in range(ncols):
        h = rng.choice(HEADERS)
        cols.append([h, rng.choice(pool)])
        used.add(h)
    rows = [[gen_cell(rng, t, null_p, feat) for _, t in cols] for _ in range(nrows)]
    return {'cols': cols, 'rows': rows, 'prec': prec}


# ------------------------------------------------------------------ to Python / to Coq

def dec_coq(s):
    sign, digits, e = D(s).as_tuple()
    return f'(mkdec {cbool(bool(sign))} {int("".join(map(str, digits)))} {cZ(e)})'


def amt_coq(n, c):
    return f'({dec_coq(n)}, {cstr(c)})'


def pos_coq(p):
    n, c, cn, cc = p
    return f'(mkpos {amt_coq(n, c)} {copt(None if cn is None else amt_coq(cn, cc))})'


def cell_coq(c):
    if c is None:
        return 'CNull'
    k = c[0]
    if k == 'b':
        return f'(CBool {cbool(c[1])})'
    if k == 'i':
        return f'(CInt {cZ(c[1])})'
    if k == 'd':
        return f'(CDec {dec_coq(c[1])})'
    if k in 'se':      # EnumRenderer = ObjectRenderer whose format() is value.name: a str column over the member names
        return f'(CStr {cstr(c[1])})'
    if k == 'D':
        return f'(CDate {c[1]} {c[2]} {c[3]})'
    if k == 'S':
        return f'(CSet {clist([cstr(x) for x in set(c[1])])})'   # set iteration order
    if k == 'o':
        return f'(COther {cstr(str(c[1]))})'
    if k == 'A':
        return f'(CAmt {amt_coq(c[1], c[2])})'
    if k == 'P':
        return f'(CPos {pos_coq(c[1:])})'
    if k == 'I':
        return f'(CInv {clist([pos_coq(p) for p in c[1]])})'
    raise ValueError(c)


def mkpos(p):
    n, c, cn, cc = p
    return Position(Amount(D(n), c), None if cn is None else Cost(D(cn), cc, None, None))


def cell_py(c):
    if c is None:
        return None
    k = c[0]
    if k in 'bis':
        return c[1]
    if k == 'd':
        return D(c[1])
    if k == 'e':
        return Flag[c[1]]
    if k == 'D':
        return datetime.date(c[1], c[2], c[3])
    if k == 'S':
        return set(c[1])
    if k == 'o':
        return dict(c[1])
    if k == 'A':
        return Amount(D(c[1]), c[2])
    if k == 'C':       # ['C', number, currency, [y, m, d] | None, label | None]
        return Cost(D(c[1]), c[2], None if c[3] is None else datetime.date(*c[3]), c[4])
    if k == 'P':
        return mkpos(c[1:])
    if k == 'I':
        inv = Inventory()
        for p in c[1]:
            q = mkpos(p)
            inv.add_amount(q.units, q.cost)
        return inv
    raise ValueError(c)


def opts_coq(o):
    return (f'(mkopts {cbool(o["boxed"])} {cbool(o["unicode"])} {cbool(o["spaced"])} {cbool(o["expand"])} '
            f'{cbool(o["narrow"])} {cstr(o["nullvalue"])} {cstr(o["listsep"])})')


def desc_coq(case):
    return clist([f'({cstr(n)}, {COQ_T[t]})' for n, t in case['cols']])


def rows_coq(case):
    return clist([clist([cell_coq(c) for c in r]) for r in case['rows']])


def prec_coq(case):
    return clist([f'({cstr(c)}, {cZ(k)})' for c, k in sorted(case['prec'].items())])


def is_exact(case, o):
    return all(t in EXACT for _, t in case['cols'])


# ------------------------------------------------------------------ implementation side

def dcontext_of(case):
    dc = display_context.DisplayContext()
    for c, k in case['prec'].items():
        dc.update(D(1).scaleb(-k), c)
    return dc


def run_impl(arg):
    """-> {'text': str|exc, 'csv': str|exc, 'textf': ..., 'csvtext': text rendered with listsep=',' unboxed unspaced,
           'hyp': [(column, reason)]}"""
    case, o = arg
    cols = [Column(n, PY_T[t]) for n, t in case['cols']]
    rows = [tuple(cell_py(c) for c in r) for r in case['rows']]
    dc = dcontext_of(case)
    res = {}

    def guard(key, fn):
        try:
            out = io.StringIO()
            fn(out)
            res[key] = out.getvalue()
        except Exception as e:  # noqa: BLE001
            res[key] = ['exception', type(e).__name__, str(e)[:200]]
    guard('text', lambda f: query_render.render_text(cols, rows, dc, f, **o))
    guard('csv', lambda f: query_render.render_csv(cols, rows, dc, f, **o))
    guard('textf', lambda f: render_text_mod.render(cols, rows, f, dcontext=dc, **o))
    guard('csvf', lambda f: render_csv_mod.render(cols, rows, f, dcontext=dc, **o))
    o2 = dict(o, listsep=',', boxed=False, spaced=False, unicode=False)
    guard('csvtext', lambda f: query_render.render_text(cols, rows, dc, f, **o2))
    res['hyp'] = check_hypothesis(case, o, cols, rows, dc)
    res['slots'] = slot_alignment(case, o, res['text'])
    return res


def check_hypothesis(case, o, cols, rows, dc):
    """The column formatter returns strings of one length for every number of the column and for zero."""
    bad = []
    ctx = query_render.RenderContext(dc, expand=o['expand'], listsep=o['listsep'], spaced=o['spaced'], null=o['nullvalue'])
    for i, (n, t) in enumerate(case['cols']):
        if t not in ('amount', 'position', 'inventory'):
            continue
        amounts = []   # (role, Amount)
        for r in rows:
            v = r[i]
            if v is None:
                continue
            if t == 'amount':
                amounts.append(('u', '', v))
            elif t == 'position':
                amounts.append(('u', '', v.units))
                if v.cost is not None:
                    amounts.append(('c', '', v.cost))
            else:
                for p in v.get_positions():
                    key = '' if o['expand'] else p.units.currency
                    amounts.append(('u', key, p.units))
                    if p.cost is not None:
                        amounts.append(('c', key, p.cost))
        groups = {}
        for role, key, a in amounts:
            groups.setdefault((role, key), []).append(a)
        for (role, key), lst in groups.items():
            try:
                r = query_render.AmountRenderer(ctx)
                for a in lst:
                    r.update(a)
                r.prepare()
                lens = {len(r.func(a.number, a.currency)) for a in lst} | {len(r.func(D(), a.currency)) for a in lst}
                if len(lens) != 1:
                    bad.append([i, role, key, sorted(lens)])
            except Exception as e:  # noqa: BLE001
                bad.append([i, role, key, type(e).__name__])
    return bad


# ------------------------------------------------------------------ per-slot alignment of tabular inventory columns
# Property text: "columns start at fixed offsets ... decimals and amounts in a column are aligned on the decimal point".
# A non-expanded inventory column is a table inside the table: one slot per (commodity, k-th lot).  Oracle, computed from
# the emitted TEXT only: the units of the k-th lot of a commodity have their decimal point and their currency symbol at
# ONE offset in every row of the column, and so have the costs of the k-th lots that carry one.  (check_table reads the
# cell back as a token stream, which does not see offsets.)  Applies when the column has at most MAX_SLOTS slots: beyond
# that the renderer documents a plain joined list instead of the tabular layout.
MAX_SLOTS = 5
_NUM = r'-?\d+(?:\.\d+)?'
_CUR = r"[A-Z][A-Z0-9'._-]*[A-Z0-9]|[A-Z]"
LOT_RE = re.compile(rf'(?P<num>{_NUM}) +(?P<cur>{_CUR}) *(?:\{{ *(?P<cnum>{_NUM}) +(?P<ccur>{_CUR}) *\}})?')


def column_spans(o, lines):
    """[(offset, width)] of the columns, from the rule line under the header; None when there is none."""
    b = 1 if o['boxed'] else 0
    if len(lines) < b + 2:
        return None
    hl = lines[b + 1]
    spans = []
    if not o['boxed']:
        off = 0
        for run in hl.split('  '):
            if not run or set(run) - {'-', '─'}:
                return None
            spans.append((off, len(run)))
            off += len(run) + 2
        return spans
    off = 1
    for run in re.split(r'[+┼]', hl[1:-1]):
        if len(run) < 3:
            return None
        spans.append((off + 1, len(run) - 2))
        off += len(run) + 1
    return spans


def _anchor(m, num, cur):
    txt = m.group(num)
    return (m.start(num) + len(txt.split('.')[0]), m.start(cur))


def slot_alignment(case, o, text):
    """-> {'checked': number of inventory columns checked, 'skipped': {reason: n}, 'bad': [[column, code, detail]]}
    code 13: units of one (commodity, k-th lot) slot at different offsets; 14: costs of one slot at different offsets."""
    out = {'checked': 0, 'skipped': {}, 'bad': [], 'slots': 0, 'mixed_cost_slots': 0, 'shifted_candidates': 0}

    def skip(why):
        out['skipped'][why] = out['skipped'].get(why, 0) + 1
    icols = [j for j, (_, t) in enumerate(case['cols']) if t == 'inventory']
    if not icols or o['expand'] or not isinstance(text, str):
        return out
    lines = text.split('\n')[:-1]
    spans = column_spans(o, lines)
    b = 1 if o['boxed'] else 0
    body = lines[b + 2:len(lines) - b]
    step = 2 if o['spaced'] else 1
    if spans is None or len(spans) != len(case['cols']) or len(body) != step * len(case['rows']):
        skip('layout')       # not a table with one line per row: reported by check_table
        return out
    for j in icols:
        counts = {}
        for r in case['rows']:
            if r[j] is not None:
                per = {}
                for p in r[j][1]:
                    per[p[1]] = per.get(p[1], 0) + 1
                for c, n in per.items():
                    counts[c] = max(counts.get(c, 0), n)
        nslots = sum(counts.values())
        if nslots > MAX_SLOTS:
            skip('more-than-%d-slots' % MAX_SLOTS)
            continue
        if nslots == 0:
            skip('no-lot')
            continue
        off, w = spans[j]
        units, costs, withcost = {}, {}, {}
        parsed = True
        for i, r in enumerate(case['rows']):
            if r[j] is None:
                continue
            slot = body[i * step][off:off + w]
            lots = list(LOT_RE.finditer(slot))
            if sorted(m.group('cur') for m in lots) != sorted(p[1] for p in r[j][1]) or \
               sum(m.group('cnum') is not None for m in lots) != sum(p[2] is not None for p in r[j][1]):
                parsed = False
                break
            kth = {}
            for m in lots:
                c = m.group('cur')
                key = (c, kth.get(c, 0))
                kth[c] = kth.get(c, 0) + 1
                units.setdefault(key, []).append((i, _anchor(m, 'num', 'cur')))
                withcost.setdefault(key, set()).add(m.group('cnum') is not None)
                if m.group('cnum') is not None:
                    costs.setdefault(key, []).append((i, _anchor(m, 'cnum', 'ccur')))
        if not parsed:
            skip('cell-not-read')       # the read-back of the cell is check_table's subject (code 7)
            continue
        out['checked'] += 1
        out['slots'] += nslots
        out['mixed_cost_slots'] += sum(1 for v in withcost.values() if len(v) == 2)
        # a row whose lot WITHOUT cost sits in a slot that has room for a cost and is followed by another lot
        order = sorted(units)
        for key, v in withcost.items():
            if len(v) == 2 and order.index(key) + 1 < len(order):
                out['shifted_candidates'] += 1
        for code, anchors in ((13, units), (14, costs)):
            for key, lst in sorted(anchors.items()):
                if len({a for _, a in lst}) > 1:
                    out['bad'].append([j, code, f'{key[0]} lot {key[1] + 1}: (decimal point, currency) offsets by row '
                                                f'{[[i, list(a)] for i, a in lst]}'])
                    break
    return out


def gen_inventory_table(rng):
    """A result table around ONE tabular inventory column: 1-3 commodities, at most MAX_SLOTS slots, lots with and
    without cost of the same commodity in different rows, columns to the left and to the right of it."""
    ncur = rng.choice([1, 2, 2, 3, 3])
    curs = rng.sample(CURS, ncur)
    ccurs = rng.sample(CURS, rng.choice([1, 1, 2]))
    counts = {c: 1 for c in curs}
    for _ in range(rng.choice([0, 1, 2])):
        c = rng.choice(curs)
        if sum(counts.values()) < MAX_SLOTS:
            counts[c] += 1
    nums = [n for n in NUMS if D(n) != 0]
    if rng.random() < 0.4:
        nums = rng.sample(nums, 5)
    cost_p = {c: rng.choice([0.0, 0.5, 0.5, 0.5, 1.0]) for c in curs}
    present_p = rng.choice([0.6, 0.8, 1.0])
    rows = []
    for _ in range(rng.choice([2, 3, 3, 4, 5, 6])):
        lots, seen = [], set()
        for c in curs:
            if rng.random() >= present_p:
                continue
            for _k in range(rng.randint(1, counts[c])):
                if rng.random() < cost_p[c]:
                    cn, cc = rng.choice([n for n in nums if not n.startswith('-')]), rng.choice(ccurs)
                    key = (c, D(cn), cc)
                else:
                    cn = cc = None
                    key = (c, None, None)
                if key in seen:
                    continue
                seen.add(key)
                lots.append([rng.choice(nums), c, cn, cc])
        rows.append(None if rng.random() < 0.08 else ['I', lots])
    left = rng.choice([[], [['account', 'str']], [['account', 'str']], [['d', 'date']]])
    right = rng.choice([[], [['n', 'int']], [['n', 'int']], [['x', 'decimal']], [['other', 'amount']], [['flag', 'bool'], ['n', 'int']]])
    cols = left + [[rng.choice(['balance', 'sum_position', 'inv', 'b']), 'inventory']] + right
    feat = {'curs': curs, 'nums': nums, 'cost_p': 0.3}
    prec = {c: rng.choice([0, 2, 2, 3, 4]) for c in set(curs) | set(ccurs)}
    if rng.random() < 0.3:
        for c in rng.sample(sorted(prec), rng.randint(1, len(prec))):
            del prec[c]
    null_p = rng.choice([0.0, 0.2])
    table = []
    for inv in rows:
        table.append([gen_cell(rng, t, null_p, feat) for _, t in left] + [inv] + [gen_cell(rng, t, null_p, feat) for _, t in right])
    return {'cols': cols, 'rows': table, 'prec': prec}


# ------------------------------------------------------------------ model side

IMPORTS = ['Base.PyValue', 'Model.Render', 'Model.RenderCheck']


def model_exprs(case, o):
    a = f'{opts_coq(o)} {desc_coq(case)} {rows_coq(case)}'
    return [f'text_out {a}', f'csv_out {a}', f'textf_out {a}']


def check_exprs(case, o, res):
    """Relational checkers applied to the implementation's actual output."""
    a = f'{opts_coq(o)} {prec_coq(case)} {desc_coq(case)} {rows_coq(case)}'
    out = []
    t = res['text'] if isinstance(res['text'], str) else None
    c = res['csv'] if isinstance(res['csv'], str) else None
    ct = res['csvtext'] if isinstance(res['csvtext'], str) else None
    out.append(f'check_table_out {a} {cstr(t)}' if t is not None else 'ON 9999')
    out.append(f'check_csv_out {a} {cstr(ct)} {cstr(c)}' if c is not None and ct is not None else 'ON 9999')
    return out


def parse_text(v):
    """o_option o_str -> str | None"""
    if v == []:
        return None
    return ''.join(map(chr, v[0]))


# ------------------------------------------------------------------ evaluation

def evaluate(pairs, tag='c16'):
    """-> (list of failure lists [(kind, code)], impl results). A failure is a disagreement with the functional
    model (exact datatypes), a non-zero checker code on the implementation's output, an exception, or a
    violated formatter hypothesis."""
    impl_res = core.pmap(run_impl, pairs)
    exprs = []
    for (case, o), r in zip(pairs, impl_res):
        exprs += model_exprs(case, o) if is_exact(case, o) else ['ON 7777'] * 3
        exprs += check_exprs(case, o, r)
    vals = core.coq_eval(tag, IMPORTS, exprs, shard=200)
    out = []
    for k, ((case, o), r) in enumerate(zip(pairs, impl_res)):
        mt, mc, mtf, ct, cc = vals[5 * k:5 * k + 5]
        f = []
        for key in ('text', 'csv', 'textf', 'csvf', 'csvtext'):
            if not isinstance(r[key], str):
                f.append(('exception-' + key, r[key][1]))
        if is_exact(case, o):
            if isinstance(r['text'], str) and parse_text(mt) != r['text']:
                f.append(('exact-text', 0))
            if isinstance(r['csv'], str) and parse_text(mc) != r['csv']:
                f.append(('exact-csv', 0))
            if isinstance(r['textf'], str) and parse_text(mtf) != r['textf']:
                f.append(('exact-textf', 0))
        if r['csvf'] != r['csv']:
            f.append(('csv-format-module', 0))
        if ct != 0:
            f.append(('check-table', ct))
        if cc != 0 and not (cc == 20 and ct == 2):   # 20: the comparison text is itself not a table (reported as check-table 2)
            f.append(('check-csv', cc))
        if r['hyp']:
            f.append(('hypothesis', 0))
        for code in sorted({b[1] for b in r['slots']['bad']}):
            f.append(('inventory-slots', code))
        out.append(f)
    return out, impl_res


def features(case):
    fs = set()
    for r in case['rows']:
        for (n, t), c in zip(case['cols'], r):
            if c is None:
                continue
            if c[0] == 'd':
                e = D(c[1]).as_tuple()
                left = e.exponent + len(e.digits)
                if not (e.exponent <= 0 and left > -6):
                    fs.add('scientific-decimal')
            if c[0] == 's' and '\n' in c[1]:
                fs.add('newline-in-str')
            if c[0] == 'I' and not c[1]:
                fs.add('empty-inventory')
            cur = []
            if c[0] == 'A':
                cur = [c[2]]
            if c[0] == 'P':
                cur = [c[2], c[4]]
            if c[0] == 'I':
                cur = [x for p in c[1] for x in (p[1], p[3])]
            if any(x is not None and x not in case['prec'] for x in cur):
                fs.add('currency-unknown-to-ledger')
    return sorted(fs)


def shrink(case, o, fail):
    """ddmin over rows, then columns, then options, keeping the same (kind, code)."""
    def fails_many(cands):
        fl, _ = evaluate(cands, tag='c16s')
        return [fail in f for f in fl]

    def with_rows(rows):
        return dict(case, rows=rows)
    if len(case['rows']) >= 2:
        from .shrink import ddmin_batch
        rows = ddmin_batch(case['rows'], lambda cs: fails_many([(with_rows(r), o) for r in cs]))
        case = with_rows(rows)
    # drop columns one at a time
    changed = True
    while changed and len(case['cols']) > 1:
        changed = False
        cands = []
        for i in range(len(case['cols'])):
            c2 = dict(case, cols=case['cols'][:i] + case['cols'][i + 1:],
                      rows=[r[:i] + r[i + 1:] for r in case['rows']])
            cands.append((c2, o))
        res = fails_many(cands)
        for (c2, _), bad in zip(cands, res):
            if bad:
                case, changed = c2, True
                break
    # simplify options towards the defaults, header to 'c'
    for key, val in (('boxed', False), ('unicode', False), ('spaced', False), ('narrow', True), ('expand', False),
                     ('nullvalue', ''), ('listsep', '  ')):
        if o[key] != val:
            o2 = dict(o, **{key: val})
            if fails_many([(case, o2)])[0]:
                o = o2
    c2 = dict(case, cols=[['c', t] for _, t in case['cols']])
    if fails_many([(c2, o)])[0]:
        case = c2
    # NULL out cells one at a time
    for i in range(len(case['rows'])):
        for j in range(len(case['cols'])):
            if case['rows'][i][j] is not None and len(case['rows']) * len(case['cols']) > 1:
                rows = [list(r) for r in case['rows']]
                rows[i][j] = None
                c2 = dict(case, rows=rows)
                if fails_many([(c2, o)])[0]:
                    case = c2
    # drop ledger precisions that do not matter
    for cur in sorted(case['prec']):
        c2 = dict(case, prec={k: v for k, v in case['prec'].items() if k != cur})
        if fails_many([(c2, o)])[0] and features(c2) == features(case):
            case = c2
    return case, o


def signature(case, o, fail):
    kind, code = fail
    types = '+'.join(t for _, t in case['cols'])
    return f'{kind}:{code}:{types}:{",".join(features(case)) or "plain"}'


# ------------------------------------------------------------------ Cost columns (`SELECT position.cost`, CostRenderer)
# Not in the Coq model (no TCost): the oracle is computed here from the property TEXT on the emitted text alone:
# every line has one width; the columns start at the offsets given by the rule line and are separated by the table's
# separator on every line; the other columns hold exactly their values; each cost cell reads back (number at the ledger
# precision, currency, date, label: the label between the outer quotes is the label itself or its Beancount string-literal
# spelling); the numbers of the column are aligned on the decimal point and the currencies start at one offset; the CSV
# output has one record per row, one field per column, the cost field holding the same formatted value as the text cell.
COST_LABELS = ['', 'lot-1', 'first lot', 'the "big" lot', '"', '""', 'a\\b', 'back\\slash\\', 'C:\\lots\\2020', 'été ü',
               ' lead', 'trail ', 'x' * 18, 'say "hi" \\ "bye"', "it's", 'a, b', 'k', 'Ω-lot', 'tab\there']
COST_RE = re.compile(r'^ *(?P<num>-?\d+(?:\.\d+)?) +(?P<cur>[^ ,]+) *(?:, (?P<date>\d{4}-\d\d-\d\d))?(?:, "(?P<label>.*)")? *$')


def gen_cost_table(rng):
    """One Cost column (labels with quotes, backslashes, non-ASCII, blanks; with and without date), columns to its
    left and right; the label with special characters is often the longest of the column."""
    curs = rng.sample(CURS, rng.choice([1, 1, 2, 3]))
    nums = NUMS if rng.random() < 0.6 else rng.sample(NUMS, 4)
    prec = {c: rng.choice([0, 2, 2, 3, 4]) for c in curs}
    if rng.random() < 0.3:
        for c in rng.sample(curs, rng.randint(1, len(curs))):
            del prec[c]
    labels = rng.sample(COST_LABELS, rng.choice([1, 2, 3, 5]))
    label_p = rng.choice([0.4, 0.8, 1.0])
    date_p = rng.choice([0.0, 0.5, 1.0])
    null_p = rng.choice([0.0, 0.0, 0.2])
    left = rng.choice([[], [['l', 'str']], [['account', 'str']], [['d', 'date']]])
    right = rng.choice([[], [['n', 'int']], [['n', 'int']], [['narration_long_header', 'str']], [['flag', 'bool'], ['n', 'int']]])
    cols = left + [[rng.choice(['cost', 'c', 'position_cost', '']), 'cost']] + right
    feat = {'curs': curs, 'nums': nums, 'cost_p': 0.0}
    rows = []
    for _ in range(rng.choice([1, 2, 3, 4, 5, 7])):
        if rng.random() < null_p:
            c = None
        else:
            c = ['C', rng.choice(nums), rng.choice(curs), list(rng.choice(DATES)) if rng.random() < date_p else None,
                 rng.choice(labels) if rng.random() < label_p else None]
        rows.append([gen_cell(rng, t, null_p, feat) for _, t in left] + [c] + [gen_cell(rng, t, null_p, feat) for _, t in right])
    return {'cols': cols, 'rows': rows, 'prec': prec}


def _bql_string(s):
    return s.replace('\\', '\\\\').replace('"', '\\"')


def _plain(c):
    """the exact text of a non-NULL cell of the plain datatypes used next to the cost column"""
    if c[0] == 'D':
        return datetime.date(c[1], c[2], c[3]).isoformat()
    if c[0] == 'b':
        return 'TRUE' if c[1] else 'FALSE'
    return str(c[1])


def check_cost_text(case, o, text, csvtext):
    """-> sorted list of failure codes (str) of the cost-table oracle on the emitted text / CSV"""
    bad = set()
    if not isinstance(text, str) or not isinstance(csvtext, str):
        return ['exception']
    lines = text.split('\n')
    if lines[-1] != '':
        return ['no-final-newline']
    lines = lines[:-1]
    if len({len(ln) for ln in lines}) > 1:
        bad.add('lines-of-different-width')
    spans = column_spans(o, lines)
    b = 1 if o['boxed'] else 0
    body = lines[b + 2:len(lines) - b]
    step = 2 if o['spaced'] else 1
    if spans is None or len(spans) != len(case['cols']) or len(body) != step * len(case['rows']):
        return sorted(bad | {'not-a-table'})
    sep = (' \u2502 ' if o['unicode'] else ' | ') if o['boxed'] else '  '
    dc = dcontext_of(case)
    null = o['nullvalue']
    anchors = set()
    cells_by_row = []
    for i, r in enumerate(case['rows']):
        ln = body[i * step]
        cells = []
        for j, ((off, w), (_, t), c) in enumerate(zip(spans, case['cols'], r)):
            cell = ln[off:off + w]
            cells.append(cell)
            if j + 1 < len(spans) and ln[off + w:off + w + len(sep)] != sep:
                bad.add('column-not-at-its-offset')
            if j + 1 == len(spans) and len(ln) != off + w + (2 if o['boxed'] else 0):
                bad.add('column-not-at-its-offset')
            if c is None:
                if cell.strip() != null.strip():
                    bad.add('null-cell')
                continue
            if t != 'cost':
                if cell.strip() != _plain(c).strip():
                    bad.add('cell-not-read-back:' + t)
                continue
            m = COST_RE.match(cell)
            if m is None:
                bad.add('cost-cell-not-read-back')
                continue
            if D(m.group('num')) != dc.quantize(D(c[1]), c[2]) or m.group('cur') != c[2]:
                bad.add('cost-amount-not-read-back')
            if m.group('date') != (None if c[3] is None else datetime.date(*c[3]).isoformat()):
                bad.add('cost-date-not-read-back')
            if c[4] is None:
                if m.group('label') is not None:
                    bad.add('cost-label-not-read-back')
            elif m.group('label') not in (c[4], _bql_string(c[4])):
                bad.add('cost-label-not-read-back')
            anchors.add((m.start('num') + len(m.group('num').split('.')[0]), m.start('cur')))
        cells_by_row.append(cells)
    if len(anchors) > 1:
        bad.add('cost-numbers-not-aligned')
    import csv as _csv
    recs = list(_csv.reader(io.StringIO(csvtext)))
    if len(recs) != len(case['rows']) + 1 or any(len(rec) != len(case['cols']) for rec in recs):
        bad.add('csv-shape')
    else:
        for rec, cells, r in zip(recs[1:], cells_by_row, case['rows']):
            for f, cell, c, (_, t) in zip(rec, cells, r, case['cols']):
                if c is not None and f.strip() != cell.strip():
                    bad.add('csv-field-differs-from-text-cell:' + t)
    return sorted(bad)


def run_cost(arg):
    """(case, opts) -> {'text', 'csv', 'fails': [code]}. Top level for core.pmap."""
    case, o = arg
    cols = [Column(n, PY_T[t]) for n, t in case['cols']]
    rows = [tuple(cell_py(c) for c in r) for r in case['rows']]
    dc = dcontext_of(case)
    res = {}
    for key, fn in (('text', query_render.render_text), ('csv', query_render.render_csv)):
        try:
            out = io.StringIO()
            fn(cols, rows, dc, out, **o)
            res[key] = out.getvalue()
        except Exception as e:  # noqa: BLE001
            res[key] = ['exception', type(e).__name__, str(e)[:200]]
    try:
        res['fails'] = check_cost_text(case, o, res['text'], res['csv'])
    except Exception as e:  # noqa: BLE001
        res['fails'] = ['oracle-exception:' + type(e).__name__ + ':' + str(e)[:100]]
    return res


def shrink_cost(case, o, code):
    """fewer rows, then fewer columns, then default options, keeping the failure code"""
    def fails(c, oo):
        return code in run_cost((c, oo))['fails']
    i = 0
    while i < len(case['rows']) and len(case['rows']) > 1:
        c2 = dict(case, rows=case['rows'][:i] + case['rows'][i + 1:])
        if fails(c2, o):
            case = c2
        else:
            i += 1
    j = 0
    while j < len(case['cols']) and len(case['cols']) > 1:
        c2 = dict(case, cols=case['cols'][:j] + case['cols'][j + 1:], rows=[r[:j] + r[j + 1:] for r in case['rows']])
        if case['cols'][j][1] != 'cost' and fails(c2, o):
            case = c2
        else:
            j += 1
    for key, val in (('boxed', False), ('unicode', False), ('spaced', False), ('narrow', True), ('expand', False),
                     ('nullvalue', ''), ('listsep', '  ')):
        if o[key] != val and fails(case, dict(o, **{key: val})):
            o = dict(o, **{key: val})
    return case, o


def cost_label_features(case):
    fs = set()
    for r in case['rows']:
        for c in r:
            if c is not None and c[0] == 'C' and c[4] is not None:
                lab = c[4]
                fs |= {f for f, p in (('dquote', '"' in lab), ('backslash', '\\' in lab), ('non-ascii', not lab.isascii()),
                                      ('blank', lab != lab.strip() or ' ' in lab), ('empty', lab == '')) if p}
    return sorted(fs)


CORPUS = [
    # D11: scientific decimals
    ({'cols': [['x', 'decimal']], 'rows': [[['d', '1E-7']], [['d', '12.5']]], 'prec': {}},
     {'boxed': False, 'unicode': False, 'spaced': False, 'expand': False, 'narrow': True, 'nullvalue': '', 'listsep': '  '}),
    ({'cols': [['x', 'decimal']], 'rows': [[['d', '1.5E+3']], [['d', '12.5']]], 'prec': {}},
     {'boxed': True, 'unicode': False, 'spaced': False, 'expand': False, 'narrow': True, 'nullvalue': '', 'listsep': '  '}),
    # empty inventory, expand, single column
    ({'cols': [['i', 'inventory']], 'rows': [[['I', []]], [['I', [['1', 'USD', None, None]]]]], 'prec': {'USD': 0}},
     {'boxed': False, 'unicode': False, 'spaced': False, 'expand': True, 'narrow': True, 'nullvalue': '', 'listsep': '  '}),
    # rounding carry with a currency the ledger context does not know
    ({'cols': [['a', 'amount']], 'rows': [[['A', '9.96', 'USD']], [['A', '1.0', 'USD']], [['A', '2.0', 'USD']]], 'prec': {}},
     {'boxed': False, 'unicode': False, 'spaced': False, 'expand': False, 'narrow': True, 'nullvalue': '', 'listsep': '  '}),
    # a str with a line break
    ({'cols': [['narration', 'str'], ['n', 'int']], 'rows': [[['s', 'line1\nline2'], ['i', 1]], [['s', 'x'], ['i', 22]]], 'prec': {}},
     {'boxed': True, 'unicode': False, 'spaced': False, 'expand': False, 'narrow': True, 'nullvalue': '', 'listsep': '  '}),
    # a negative number wider than the header, NULLs, narrow off
    ({'cols': [['n', 'int'], ['some header', 'decimal']], 'rows': [[['i', -123456], None], [None, ['d', '-1.50']], [['i', 7], ['d', '100']]],
      'prec': {}},
     {'boxed': True, 'unicode': True, 'spaced': True, 'expand': False, 'narrow': False, 'nullvalue': 'NULL', 'listsep': ', '}),
]


def run(tier, rng):
    ntab, nopt, nrisky = (420, 6, 150) if tier == 'quick' else (800, 32, 500)
    pairs = list(CORPUS)
    risky_flags = [True] * len(CORPUS)
    for k in range(ntab):
        case = gen_table(rng, risky=False)
        bits = list(range(32)) if nopt == 32 else rng.sample(range(32), nopt)
        for b in bits:
            pairs.append((case, gen_opts(rng, b)))
            risky_flags.append(False)
    for k in range(nrisky):
        case = gen_table(rng, risky=True)
        for b in rng.sample(range(32), 2 if tier == 'quick' else 4):
            pairs.append((case, gen_opts(rng, b)))
            risky_flags.append(True)
    ninv = 130 if tier == 'quick' else 1200
    for k in range(ninv):
        case = gen_inventory_table(rng)
        for b in rng.sample(range(32), 3 if tier == 'quick' else 6):
            pairs.append((case, gen_opts(rng, b & ~8)))       # expand off: the tabular layout
            risky_flags.append(False)
    fails, impl_res = evaluate(pairs)

    slots = {'inventory_columns_checked': 0, 'slots': 0, 'slots_with_and_without_cost': 0,
             'costless_lot_in_cost_slot_with_slot_to_the_right': 0, 'skipped': {}, 'directed_tables': ninv}
    for r in impl_res:
        sl = r['slots']
        slots['inventory_columns_checked'] += sl['checked']
        slots['slots'] += sl['slots']
        slots['slots_with_and_without_cost'] += sl['mixed_cost_slots']
        slots['costless_lot_in_cost_slot_with_slot_to_the_right'] += sl['shifted_candidates']
        for k, n in sl['skipped'].items():
            slots['skipped'][k] = slots['skipped'].get(k, 0) + n

    hist = {'datatype': {}, 'option_bits': {}, 'nrows': {}, 'ncols': {}, 'nullvalue': {}, 'listsep': {},
            'null_cells': 0, 'cells': 0, 'negative_numbers': 0, 'multi_position_inventories': 0, 'empty_inventories': 0,
            'tables_with_unknown_currency': 0, 'scientific_decimals': 0, 'exact_compared': 0, 'checker_only': 0,
            'hypothesis_columns_ok': 0, 'hypothesis_columns_failed': 0, 'risky_tables': sum(risky_flags)}
    seen_tables = set()
    nontrivial = 0
    for (case, o), f, r in zip(pairs, fails, impl_res):
        bits = ''.join('1' if o[k] else '0' for k in ('boxed', 'unicode', 'spaced', 'expand', 'narrow'))
        hist['option_bits'][bits] = hist['option_bits'].get(bits, 0) + 1
        hist['nullvalue'][o['nullvalue']] = hist['nullvalue'].get(o['nullvalue'], 0) + 1
        hist['listsep'][o['listsep']] = hist['listsep'].get(o['listsep'], 0) + 1
        hist['exact_compared' if is_exact(case, o) else 'checker_only'] += 1
        ncol_amt = sum(1 for _, t in case['cols'] if t in ('amount', 'position', 'inventory'))
        hist['hypothesis_columns_failed'] += len({h[0] for h in r['hyp']})
        hist['hypothesis_columns_ok'] += ncol_amt - len({h[0] for h in r['hyp']})
        if case['rows'] and isinstance(r['text'], str):
            nontrivial += 1
        key = json.dumps(case, sort_keys=True, default=str)
        if key in seen_tables:
            continue
        seen_tables.add(key)
        hist['nrows'][len(case['rows'])] = hist['nrows'].get(len(case['rows']), 0) + 1
        hist['ncols'][len(case['cols'])] = hist['ncols'].get(len(case['cols']), 0) + 1
        fs = features(case)
        hist['tables_with_unknown_currency'] += 'currency-unknown-to-ledger' in fs
        for _, t in case['cols']:
            hist['datatype'][t] = hist['datatype'].get(t, 0) + 1
        for row in case['rows']:
            for c in row:
                hist['cells'] += 1
                if c is None:
                    hist['null_cells'] += 1
                elif c[0] in 'idAP' and str(c[1]).startswith('-'):
                    hist['negative_numbers'] += 1
                elif c[0] == 'I':
                    hist['multi_position_inventories'] += len(c[1]) > 1
                    hist['empty_inventories'] += len(c[1]) == 0
                if c is not None and c[0] == 'd' and 'E' in str(D(c[1])):
                    hist['scientific_decimals'] += 1

    violations = []
    seen = {}
    budget = 6
    for (case, o), f, risky in zip(pairs, fails, risky_flags):
        for fail in f:
            rough = (fail, tuple(features(case)))
            if rough in seen:
                continue
            if budget <= 0:
                small, so = case, o
            else:
                budget -= 1
                small, so = shrink(case, o, fail)
            seen[rough] = True
            sig = signature(small, so, fail)
            if any(v.signature == sig for v in violations):
                continue
            fl, res = evaluate([(small, so)], tag='c16s')
            violations.append(core.Violation(
                fail[0], f'{sig}: table {json.dumps(small)} options {json.dumps(so)} -> failures {fl[0]}; '
                         f'text {res[0]["text"]!r}',
                {'case': small, 'opts': so, 'fail': list(fail), 'impl': {k: res[0][k] for k in ('text', 'csv', 'hyp')}},
                signature=sig))
    # Cost columns: harness oracle on the emitted text (check_cost_text); not part of the Coq model
    ncost = 260 if tier == 'quick' else 2500
    cpairs = []
    for k in range(ncost):
        case = gen_cost_table(rng)
        for b in rng.sample(range(32), 3 if tier == 'quick' else 6):
            cpairs.append((case, gen_opts(rng, b)))
    cres = core.pmap(run_cost, cpairs)
    chist = {'tables': ncost, 'evaluations': len(cpairs), 'cost_cells': 0, 'label_features': {}, 'failures': {},
             'tables_whose_longest_label_needs_escaping': 0, 'tables_with_unknown_currency': 0}
    seen_c = set()
    for (case, o), r in zip(cpairs, cres):
        key = json.dumps(case, sort_keys=True)
        if key not in seen_c:
            seen_c.add(key)
            labs = [c[4] for row in case['rows'] for c in row if c is not None and c[0] == 'C' and c[4] is not None]
            chist['cost_cells'] += sum(1 for row in case['rows'] for c in row if c is not None and c[0] == 'C')
            for f in cost_label_features(case):
                chist['label_features'][f] = chist['label_features'].get(f, 0) + 1
            if labs and any(ch in max(labs, key=len) for ch in '"\\'):
                chist['tables_whose_longest_label_needs_escaping'] += 1
            chist['tables_with_unknown_currency'] += any(c is not None and c[0] == 'C' and c[2] not in case['prec']
                                                         for row in case['rows'] for c in row)
        for code in r['fails']:
            chist['failures'][code] = chist['failures'].get(code, 0) + 1
    reported = set()
    first = ['lines-of-different-width', 'column-not-at-its-offset', 'not-a-table']      # causes before consequences
    for (case, o), r in zip(cpairs, cres):
        for code in sorted(r['fails'], key=lambda c: (first.index(c) if c in first else len(first), c)):
            if code in reported or len(reported) >= 3:
                continue
            reported.add(code)
            small, so = shrink_cost(case, o, code)
            res1 = run_cost((small, so))
            sig = f'cost-table:{code}:{",".join(cost_label_features(small)) or "plain"}'
            violations.append(core.Violation(
                'cost-table', f'{sig}: table {json.dumps(small)} options {json.dumps(so)} -> failures {res1["fails"]}; '
                              f'text {res1["text"]!r}',
                {'stream': 'cost', 'case': small, 'opts': so, 'fail': ['cost-table', code],
                 'impl': {k: res1[k] for k in ('text', 'csv')}}, signature=sig))
    cov = {
        'evaluations': len(pairs) + len(cpairs), 'distinct_nontrivial': nontrivial + sum(1 for (c, _), r in zip(cpairs, cres) if c['rows'] and isinstance(r['text'], str)),
        'cost_columns': chist,
        'rule': 'random result tables (1-4 columns of int/decimal/str/date/bool/set/object/dict/amount/position/inventory, '
                '0-7 rows, NULLs, negatives, mixed precisions, 1-8 currencies, empty and multi-lot inventories, costs) x option '
                'sets (quick: 6 of the 32 boolean combinations per table, thorough: all 32) x nullvalue in 5 choices x listsep in 5 '
                'choices; rendered by query_render.render_text/render_csv and render/text.py, render/csv.py; exact datatypes compared '
                'byte for byte with the model, check_table/check_csv (vm_compute) applied to every implementation output; "risky" '
                'tables additionally contain scientific decimals and newlines in strings; directed tables around one tabular (non-expanded) '
                'inventory column (1-3 commodities, <= 5 slots, lots with and without cost of one commodity in different rows, columns to its right) '
                'with the per-slot offset oracle slot_alignment (units / costs of the k-th lot of a commodity at one offset in every row), which '
                'is applied to every non-expanded inventory column of every table; about 30% of all tables have currencies unknown to the ledger context; '
                'Cost columns (CostRenderer; labels with double quotes, backslashes, non-ASCII, blanks, empty; with / without date; NULLs; '
                'columns to the left and right; known and unknown currencies) are rendered by render_text / render_csv and judged by the '
                'harness oracle check_cost_text on the emitted text: one line width, columns and separators at the offsets of the rule line, '
                'every cell read back, cost numbers aligned on the decimal point, CSV field = text cell; '
                'non-trivial = (table, options) with at least one row that rendered',
        'samples': [json.dumps({'table': c, 'opts': o}) for c, o in pairs[len(CORPUS):len(CORPUS) + 3]],
        'traces_validated_against_impl': len(pairs), 'histograms': hist,
        'exhaustive': 'all 32 boolean option combinations per table' if nopt == 32 else False,
        'distinct_tables': len(seen_tables), 'inventory_slot_alignment': slots,
    }
    return {'coverage': cov, 'violations': violations}


def replay(rec):
    if rec.get('stream') == 'cost':
        r = run_cost((rec['case'], rec['opts']))
        core.log(f'  cost table: failures {r["fails"]}; text {r["text"]!r}')
        return not r['fails']
    fl, _ = evaluate([(rec['case'], rec['opts'])], tag='c16r')
    return tuple(rec['fail']) not in [tuple(x) for x in fl[0]] and not fl[0]
